package gen

import (
	"strconv"
	"strings"
)

// funcLit generates a function literal of the given shape. Unless it is
// immediately invoked, its body must not capture loop-scoped variables.
func (g *G) funcLit(t T, d int, iife bool) string {
	g.f("funclit")
	g.enterFn(iife)
	var params string
	switch t {
	case TFn0:
		params = "()"
	case TFn1:
		p := g.fresh("p")
		g.declare(p, TInt, false)
		params = "(" + p + ")"
	default:
		p, q := g.fresh("p"), g.fresh("r")
		g.declare(p, TInt, false)
		g.declare(q, TArr, true)
		params = "(" + p + ", ..." + q + ")"
	}
	var sb strings.Builder
	sb.WriteString("func" + params + " {")
	n := g.r.Intn(3)
	if g.o.ClosureHeavy || g.o.ControlHeavy {
		n += g.r.Intn(3)
	}
	// nesting of function literals is bounded
	bodyDepth := 2 - (len(g.fns) - 2)
	if bodyDepth < 0 || g.budget <= 0 {
		bodyDepth, n = 0, 0
	}
	if d > bodyDepth {
		d = bodyDepth
	}
	ind := strings.Repeat("\t", len(g.fns))
	for i := 0; i < n; i++ {
		sb.WriteString("\n" + ind)
		sb.WriteString(g.Stmt(bodyDepth-1, ind))
	}
	sb.WriteString("\n" + ind + "return " + g.Expr(TInt, d))
	if g.o.ControlHeavy && g.r.Intn(3) == 0 && bodyDepth > 0 {
		// dead code after return
		g.f("dead-after-return")
		sb.WriteString("\n" + ind + g.Stmt(0, ind))
	}
	sb.WriteString("\n" + ind[:len(ind)-1] + "}")
	g.leaveFn(iife)
	return sb.String()
}

func min(a, b int) int {
	if a < b {
		return a
	}
	return b
}

// Block generates n statements in a new scope.
func (g *G) Block(n, depth int, ind string) string {
	g.push()
	var sb strings.Builder
	sb.WriteString("{")
	for i := 0; i < n; i++ {
		sb.WriteString("\n" + ind + "\t" + g.Stmt(depth, ind+"\t"))
	}
	sb.WriteString("\n" + ind + "}")
	g.pop()
	return sb.String()
}

// Stmt generates one statement (no trailing newline).
func (g *G) Stmt(depth int, ind string) string {
	g.budget--
	d := 2
	if depth < 1 {
		d = 1
	}
	if g.budget <= 0 || len(g.fns) > 4 {
		// out of budget: a trivial statement
		return g.fresh("z") + " := " + g.lit(TInt)
	}
	k := g.r.Intn(30)
	if depth <= 0 && k >= 14 {
		k = g.r.Intn(14)
	}
	inLoop := g.cur().loopDepth > 0
	inFn := g.cur().inFn
	if g.o.CaptureLoopVars && inFn && g.r.Intn(5) == 0 {
		return g.loopCapture()
	}
	if g.o.ControlHeavy && g.r.Intn(4) == 0 {
		if inLoop && g.r.Intn(2) == 0 {
			g.f("branch")
			c := pick(g.r, []string{"break", "continue"})
			if g.r.Intn(2) == 0 {
				return "if " + g.Expr(TBool, 1) + " { " + c + " }"
			}
			return c
		}
		if (inFn || g.o.InModule) && g.r.Intn(3) == 0 {
			g.f("return-both-branches")
			return "if " + g.Expr(TBool, 1) + " { return " + g.Expr(TInt, 1) + " } else { return " + g.Expr(TInt, 1) + " }"
		}
		if inFn || g.o.InModule {
			g.f("early-return")
			if g.r.Intn(2) == 0 {
				return "if " + g.Expr(TBool, 1) + " { return " + g.Expr(TInt, 1) + " }"
			}
			return "return " + g.Expr(TInt, 1)
		}
	}
	if g.r.Intn(30) == 0 {
		return g.aliasProbe()
	}
	if g.r.Intn(60) == 0 {
		return g.siblingClosures()
	}
	switch {
	case k < 5: // define
		t := pick(g.r, allValueTypes)
		if g.o.ClosureHeavy && g.r.Intn(3) == 0 {
			t = pick(g.r, []T{TFn0, TFn1, TFnV})
		}
		name := g.fresh("v")
		var rhs string
		if t == TFn0 || t == TFn1 || t == TFnV {
			rhs = g.funcLit(t, d, false)
		} else {
			rhs = g.Expr(t, d)
		}
		g.f("define")
		g.declare(name, t, t == TFn0 || t == TFn1 || t == TFnV)
		return name + " := " + rhs
	case k < 8: // assign
		vs := g.visible(TAny, true)
		if len(vs) == 0 {
			return g.Stmt(0, ind)
		}
		v := pick(g.r, vs)
		g.f("assign")
		if v.LoopLevel == 0 && g.totalLoop() > 0 && (v.Type == TStr || v.Type == TArr || v.Type == TArrI || v.Type == TBytes) {
			// no geometric growth inside loops
			switch v.Type {
			case TStr:
				// (a loop over the string itself would otherwise triple it per pass)
				return "if len(" + v.Name + ") < 200 { " + v.Name + " += " + g.lit(TStr) + " }"
			case TBytes:
				return v.Name + " = " + g.lit(TBytes)
			default:
				return "if len(" + v.Name + ") < 48 { " + v.Name + " = append(" + v.Name + ", " + g.Expr(TInt, 1) + ") }"
			}
		}
		return v.Name + " = " + g.Expr(v.Type, d)
	case k < 10: // compound assign / incdec
		vs := g.visible(TInt, true)
		if len(vs) == 0 {
			return g.Stmt(0, ind)
		}
		v := pick(g.r, vs)
		switch g.r.Intn(4) {
		case 0:
			g.f("incdec")
			return v.Name + pick(g.r, []string{"++", "--"})
		case 1:
			op := pick(g.r, []string{"/=", "%="})
			g.f("opassign:" + op)
			return v.Name + " " + op + " (" + g.Expr(TInt, 1) + " | 1)"
		default:
			op := pick(g.r, []string{"+=", "-=", "*=", "&=", "|=", "^=", "&^=", "<<=", ">>="})
			g.f("opassign:" + op)
			rhs := g.Expr(TInt, 1)
			if op == "<<=" || op == ">>=" {
				rhs = strconv.Itoa(g.r.Intn(70))
			}
			return v.Name + " " + op + " " + rhs
		}
	case k < 12: // index / selector assignment
		switch g.r.Intn(5) {
		case 3, 4:
			// write through a nested container (guarded so that it cannot fail)
			vs := append(g.visible(TArr, false), g.visible(TMap, false)...)
			vs = append(vs, g.visible(TImmArr, false)...)
			vs = append(vs, g.visible(TImmMap, false)...)
			vs = append(vs, g.visible(TAny, false)...)
			if len(vs) > 0 {
				v := pick(g.r, vs).Name
				g.f("nested-write")
				switch g.r.Intn(3) {
				case 0:
					return "if is_array(" + v + "[0]) && len(" + v + "[0]) > 0 { " + v + "[0][0] = " + g.Expr(TInt, 1) + " }"
				case 1:
					return "if is_map(" + v + ".a) { " + v + ".a.w = " + g.Expr(TInt, 1) + " } else if is_array(" + v + ".a) && len(" + v + ".a) > 0 { " + v + ".a[0] = " + g.Expr(TInt, 1) + " }"
				default:
					return "for " + g.fresh("q") + "x in " + hdrExpr(v) + " { if is_array(" + g.lastFresh() + "x) && len(" + g.lastFresh() + "x) > 1 { " + g.lastFresh() + "x[1] = " + g.lit(TInt) + " } }"
				}
			}
		case 0:
			if vs := g.visible(TArrI, true); len(vs) > 0 {
				v := pick(g.r, vs)
				g.f("index-assign")
				return "if len(" + v.Name + ") > 0 { " + v.Name + "[" + g.Expr(TInt, 1) + " & 0xFFFF % len(" + v.Name + ")] " + pick(g.r, []string{"=", "+=", "="}) + " " + g.Expr(TInt, 1) + " }"
			}
		case 1:
			if vs := g.visible(TMap, true); len(vs) > 0 {
				v := pick(g.r, vs)
				g.f("selector-assign")
				key := pick(g.r, []string{".a", ".b", ".z", `["k1"]`, `["sp ace"]`, "[" + g.Expr(TStr, 1) + "]", "[" + g.Expr(TInt, 0) + "]"})
				return v.Name + key + " = " + g.Expr(pick(g.r, []T{TInt, TStr, TArrI, TBool}), 1)
			}
		default:
			if vs := g.visible(TMap, true); len(vs) > 0 {
				v := pick(g.r, vs)
				g.f("nested-selector-assign")
				return v.Name + ".sub = {n: 1}; " + v.Name + ".sub.n " + pick(g.r, []string{"=", "+=", "*="}) + " " + g.Expr(TInt, 1) + "; " + v.Name + `["sub"]["m"] = ` + g.Expr(TInt, 1)
			}
		}
		return g.Stmt(0, ind)
	case k < 14: // expression statement / builtin with effect
		switch g.r.Intn(4) {
		case 0:
			if vs := g.visible(TMap, true); len(vs) > 0 {
				g.f("builtin:delete")
				return "delete(" + pick(g.r, vs).Name + ", " + pick(g.r, []string{`"a"`, `"b"`, `"zz"`, g.Expr(TStr, 1)}) + ")"
			}
		case 1:
			if vs := g.visible(TArrI, true); len(vs) > 0 {
				g.f("builtin:splice")
				v := pick(g.r, vs).Name
				form := pick(g.r, []string{"", ", 0", ", 0, 1", ", len(" + v + ")", ", 0, 0, " + g.Expr(TInt, 1), ", len(" + v + ")/2, 1, 7, 8"})
				if g.totalLoop() > 0 && strings.HasSuffix(form, "8") || g.totalLoop() > 0 && strings.HasPrefix(form, ", 0, 0, ") {
					// splice works in place: no geometric growth inside loops (a loop over the array itself doubles it)
					return "if len(" + v + ") < 48 { splice(" + v + form + ") }"
				}
				return "splice(" + v + form + ")"
			}
		}
		g.f("exprstmt")
		return g.callFn(1)
	case k < 17: // if
		g.f("if")
		var sb strings.Builder
		g.push()
		sb.WriteString("if ")
		if g.r.Intn(4) == 0 {
			g.f("if-init")
			n := g.fresh("t")
			sb.WriteString(n + " := " + g.Expr(TInt, 1) + "; " + n + " " + pick(g.r, []string{"<", ">", "==", "!="}) + " " + g.Expr(TInt, 1) + " ")
			g.declare(n, TInt, false)
		} else {
			sb.WriteString(hdrExpr(g.Expr(pick(g.r, []T{TBool, TBool, TBool, TAny}), 2)) + " ")
		}
		sb.WriteString(g.Block(1+g.r.Intn(2), depth-1, ind))
		for g.r.Intn(3) == 0 {
			g.f("else-if")
			sb.WriteString(" else if " + g.Expr(TBool, 1) + " " + g.Block(1, depth-1, ind))
		}
		if g.r.Intn(2) == 0 {
			g.f("else")
			sb.WriteString(" else " + g.Block(1+g.r.Intn(2), depth-1, ind))
		}
		g.pop()
		return sb.String()
	case k < 20: // counted for
		g.f("for-3")
		g.push()
		g.cur().loopDepth++
		i := g.fresh("i")
		g.declare(i, TInt, true)
		n := 1 + g.r.Intn(5)
		hdr := "for " + i + " := 0; " + i + " < " + strconv.Itoa(n) + "; " + i + pick(g.r, []string{"++", " += 1", " += 2"}) + " "
		body := g.Block(1+g.r.Intn(3), depth-1, ind)
		g.cur().loopDepth--
		g.pop()
		return hdr + body
	case k < 22: // for-in
		g.push()
		g.cur().loopDepth++
		it := pick(g.r, []T{TArrI, TArrI, TStr, TMap, TBytes, TImmArr, TUndef, TArr, TImmMap})
		if it == TMap || it == TImmMap {
			g.cur().loopDepth--
			g.pop()
			return g.mapLoop(it)
		}
		kn, vn := g.fresh("k"), g.fresh("e")
		iter := hdrExpr(g.Expr(it, 1))
		var hdr string
		vt := TInt
		kt := TInt
		switch it {
		case TStr:
			vt = TChar
		case TMap, TImmMap:
			kt, vt = TStr, TAny
		case TArr, TUndef:
			vt = TAny
		}
		switch g.r.Intn(3) {
		case 0:
			hdr = "for " + vn + " in " + iter + " "
			g.declare(vn, vt, false)
		case 1:
			hdr = "for " + kn + ", " + vn + " in " + iter + " "
			g.declare(kn, kt, false)
			g.declare(vn, vt, false)
		default:
			hdr = "for " + kn + ", _ in " + iter + " "
			g.declare(kn, kt, false)
		}
		g.f("for-in:" + typeName(it))
		body := g.Block(1+g.r.Intn(2), depth-1, ind)
		g.cur().loopDepth--
		g.pop()
		return hdr + body
	case k < 24: // while-style / infinite with break
		g.f("for-cond")
		c := g.fresh("c")
		g.declare(c, TInt, true)
		n := 1 + g.r.Intn(4)
		g.push()
		g.cur().loopDepth++
		var s string
		if g.r.Intn(2) == 0 {
			body := g.Block(1+g.r.Intn(2), depth-1, ind)
			// the counter is advanced first so that continue cannot skip it
			s = c + " := 0; for " + c + " < " + strconv.Itoa(n) + " { " + c + "++; if true " + body + " }"
		} else {
			g.f("for-infinite")
			body := g.Block(1+g.r.Intn(2), depth-1, ind)
			s = c + " := 0; for { if " + c + " >= " + strconv.Itoa(n) + " { break }; " + c + "++; if true " + body + " }"
		}
		g.cur().loopDepth--
		g.pop()
		return s
	case k < 26: // function definition + later calls
		t := pick(g.r, []T{TFn0, TFn1, TFnV})
		name := g.fresh("f")
		lit := g.funcLit(t, d, false)
		g.declare(name, t, true)
		g.f("funcdef")
		if g.o.CallDefined {
			return name + " := " + lit + "\n" + ind + name + g.args(t, 1)
		}
		return name + " := " + lit
	case k < 27: // recursion
		name := g.fresh("rec")
		g.declare(name, TFn1, true)
		g.f("recursion")
		switch g.r.Intn(5) {
		case 3:
			// self tail recursion whose parameters are captured by closures that survive the call:
			// every closure keeps the arguments of its own iteration
			g.f("recursion:tail-captured-params")
			fs, t, w := g.fresh("fs"), g.fresh("tl"), g.fresh("w")
			g.declare(w, TArrI, false)
			return fs + " := []; " + t + " := func(m, acc) { " + fs + " = append(" + fs + ", func() { return m * 100 + acc }); if m <= 0 || m > 20 { return acc }; return " + t + "(m-1, acc+m) }; " +
				name + " := func(n) { return " + t + "(n % 5, 0) }; " + t + "(" + strconv.Itoa(g.r.Intn(6)) + ", 1); " +
				w + " := [" + fs + "[0](), " + fs + "[len(" + fs + ")-1](), len(" + fs + ")]"
		case 4:
			// one function calling itself both as a discarded last statement and as a returned tail
			// call: the value of the base case reaches the caller only along an all-return path
			g.f("recursion:mixed-discard-and-return")
			mx, v := g.fresh("mx"), g.fresh("v")
			g.declare(v, TAny, false)
			return mx + " := func(n) { if n <= 0 || n > 40 { return 5 }; if n % 3 == 1 { return " + mx + "(n-1) }; " + mx + "(n-1) }; " +
				name + " := func(n) { r := " + mx + "(n % 7); return is_undefined(r) ? -1 : r }; " + v + " := " + mx + "(" + strconv.Itoa(g.r.Intn(9)) + ")"
		case 0:
			return name + " := func(n) { if n <= 0 || n > 25 { return 1 }; return n * " + name + "(n-1) }; " + g.fresh("v") + "_ := " + name + "(" + strconv.Itoa(g.r.Intn(12)) + ")"
		case 1:
			return name + " := func(n) { if n < 2 || n > 12 { return n }; return " + name + "(n-1) + " + name + "(n-2) }"
		default:
			return name + " := func(n) { return (n <= 0 || n > 30) ? 0 : n + " + name + "(n-1) }"
		}
	case k < 28: // nested scope through an always-true if (Tengo has no bare block statement)
		g.f("block")
		return "if true " + g.Block(1+g.r.Intn(2), depth-1, ind)
	default:
		if g.o.ClosureHeavy {
			return g.counterClosure()
		}
		g.f("exprstmt")
		return g.callFn(1)
	}
}

// mapLoop iterates a map. The order of map iteration is unspecified, so the
// body is one of a few templates whose effect is the same for every order:
// commutative accumulation (wrapping integer addition), building another map,
// or a test that at most one key can satisfy. No break/continue/return and
// nothing that can fail.
func (g *G) mapLoop(it T) string {
	g.f("for-in:" + typeName(it))
	iter := hdrExpr(g.Expr(it, 1))
	k, v, acc := g.fresh("mk"), g.fresh("me"), g.fresh("acc")
	switch g.r.Intn(5) {
	case 0:
		g.declare(acc, TInt, false)
		return acc + " := 0; for " + k + ", " + v + " in " + iter + " { " + acc + " += len(" + k + ") + int(" + v + ", 1) }"
	case 1:
		g.declare(acc, TInt, false)
		return acc + " := " + g.lit(TInt) + "; for " + v + " in " + iter + " { " + acc + "++ }"
	case 2:
		g.declare(acc, TMap, false)
		return acc + " := {}; for " + k + ", " + v + " in " + iter + " { " + acc + "[" + k + "] = " + v + "; " + acc + "[" + k + " + \"_\"] = len(" + k + ") }"
	case 3:
		g.declare(acc, TAny, false)
		return acc + " := undefined; for " + k + ", " + v + " in " + iter + " { if " + k + " == " + pick(g.r, []string{`"a"`, `"b"`, `"k1"`}) + " { " + acc + " = " + v + " } }"
	default:
		g.declare(acc, TInt, false)
		return acc + " := 0; for " + k + ", _ in " + iter + " { " + acc + " ^= len(" + k + ") * 31 }"
	}
}

// counterClosure: a closure that assigns to captured variables.
func (g *G) counterClosure() string {
	g.f("closure-assign")
	n, f := g.fresh("n"), g.fresh("inc")
	g.declare(n, TInt, false)
	g.declare(f, TFn0, true)
	if g.r.Intn(3) == 0 {
		// a copied closure (directly or inside a container) still shares the captured variable
		g.f("closure-copy")
		cp, a, b := g.fresh("f"), g.fresh("v"), g.fresh("v")
		g.declare(cp, TFn0, true)
		g.declare(a, TInt, false)
		g.declare(b, TInt, false)
		mk := "copy(" + f + ")"
		if g.r.Intn(2) == 0 {
			mk = "copy({fn: " + f + "}).fn"
		}
		return n + " := " + g.lit(TInt) + "; " + f + " := func() { " + a + "t := " + n + " + 3; " + n + " = " + a + "t; return " + n + " }; " + cp + " := " + mk + "; " + a + " := " + f + "(); " + b + " := " + cp + "() * 2 + " + n
	}
	return n + " := " + g.lit(TInt) + "; " + f + " := func() { " + n + " " + pick(g.r, []string{"+=", "-=", "*=", "="}) + " " + g.lit(TInt) + "; return " + n + " }"
}

// hdrExpr parenthesises an expression that starts with '{' so that it can
// stand in an if/for header.
func hdrExpr(e string) string {
	if strings.HasPrefix(e, "{") {
		return "(" + e + ")"
	}
	return e
}

func typeName(t T) string {
	return [...]string{"any", "int", "float", "bool", "char", "string", "bytes", "array", "int-array", "map", "fn0", "fn1", "fnv", "error", "undefined", "time", "imm-array", "imm-map"}[t]
}

// Generate produces a whole program.
func Generate(g *G) Program {
	var sb strings.Builder
	n := g.o.MaxStmts/2 + g.r.Intn(g.o.MaxStmts/2+1)
	if !g.o.InModule && g.r.Intn(25) == 0 {
		// constant-pool ballast: a few hundred distinct constants in front, so that every constant, closure and
		// module the rest of the program uses gets an index that does not fit one byte
		g.f("const-ballast")
		k := 257 + g.r.Intn(140)
		name := g.fresh("bal")
		sb.WriteString(name + " := [")
		for i := 0; i < k; i++ {
			if i > 0 {
				sb.WriteString(", ")
			}
			switch {
			case i%11 == 3:
				sb.WriteString(strconv.Quote("b" + strconv.Itoa(i)))
			case i%13 == 5:
				sb.WriteString(strconv.Itoa(i) + ".25")
			default:
				sb.WriteString(strconv.Itoa(100000 + i))
			}
		}
		sb.WriteString("]\n")
		g.declare(name, TArr, true)
	}
	for i := 0; i < n; i++ {
		sb.WriteString(g.Stmt(g.o.MaxDepth, ""))
		sb.WriteString("\n")
	}
	if g.o.InModule {
		sb.WriteString("export " + g.Expr(g.o.ExportType, 2) + "\n")
	}
	return Program{Src: sb.String(), TopVars: g.top, Features: g.feat}
}

// loopCapture: closures that capture loop-scoped variables and are called after the loop (how many
// variables they share depends on where the loop stands), and a loop whose variables take over the
// stack slot of a captured variable of a finished block.
func (g *G) loopCapture() string {
	g.f("loop-capture")
	fs, w, k, v, i := g.fresh("fs"), g.fresh("w"), g.fresh("k"), g.fresh("e"), g.fresh("i")
	g.declare(w, TArr, false)
	call := w + " := []; for " + i + " := 0; " + i + " < len(" + fs + "); " + i + "++ { " + w + " = append(" + w + ", " + fs + "[" + i + "]()) }"
	arr := pick(g.r, []string{"[7, 8, 9]", "[[1], [2]]", "immutable([3, 4])", "\"ab\"", "bytes(\"xy\")", "[5]"})
	switch g.r.Intn(4) {
	case 0:
		return fs + " := []; for " + k + ", " + v + " in " + arr + " { " + fs + " = append(" + fs + ", func() { return [" + k + ", " + v + "] }) }; " + call
	case 1:
		t := g.fresh("t")
		return fs + " := []; for " + v + " in " + arr + " { " + t + " := [" + v + "]; " + fs + " = append(" + fs + ", func() { " + t + " = append(" + t + ", 0); return len(" + t + ") }) }; " + call
	case 2:
		return fs + " := []; for " + i + "x := 0; " + i + "x < 3; " + i + "x++ { " + v + " := " + i + "x * 10; " + fs + " = append(" + fs + ", func() { " + v + " += 1; return [" + i + "x, " + v + "] }) }; " + call
	default:
		x := g.fresh("x")
		return fs + " := []; if true { " + x + " := 10; " + fs + " = append(" + fs + ", func() { " + x + " += 1; return " + x + " }) }; for " + k + ", " + v + " in " + arr + " { " + k + " = " + k + " }; " + call
	}
}

// aliasProbe derives a second container from a first through an operation that either must hand out fresh storage
// (spread into a variadic parameter, copy, +, a literal built from the elements) or is documented to share it (the
// same object through a parameter, a map value, a slice), then writes into one of the two and records both. Which of
// the two behaviours is right is for the reference model to say; the template only makes sure that the write happens.
func (g *G) aliasProbe() string {
	g.f("alias-probe")
	a, b, w := g.fresh("al"), g.fresh("bl"), g.fresh("w")
	isMap := g.r.Intn(4) == 0
	var init, derive, write string
	if isMap {
		init = a + " := {p: " + g.lit(TInt) + ", q: [" + g.lit(TInt) + "]}"
		derive = pick(g.r, []string{
			"copy(" + a + ")",
			"(func(x) { return x })(" + a + ")",
			"(func(...xs) { return xs[0] })(" + a + ")",
			"(func(...xs) { return xs[0] })([" + a + "]...)",
			"{k: " + a + "}.k",
			"[" + a + "][0]",
			"(func() { return " + a + " })()",
		})
		write = pick(g.r, []string{a + ".p = 71", b + ".p = 72", a + ".q[0] = 73", b + ".q[0] = 74", a + ".r = 75", "delete(" + b + ", \"p\")"})
	} else {
		init = a + " := [" + g.lit(TInt) + ", " + g.lit(TInt) + ", " + g.lit(TInt) + "]"
		nested := g.r.Intn(3) == 0
		if nested {
			init = a + " := [[" + g.lit(TInt) + "], " + g.lit(TInt) + ", {n: " + g.lit(TInt) + "}]"
		}
		derive = pick(g.r, []string{
			"(func(...xs) { return xs })(" + a + "...)",
			"(func(p, ...xs) { return xs })(0, " + a + "...)",
			"(func(p, q, ...xs) { return xs })(0, " + a + "...)",
			"(func(p, ...xs) { xs[0] = 61; return xs })(0, " + a + "...)",
			"(func(...xs) { xs[1] = 62; return [xs[0], xs[1], xs[2]] })(" + a + "...)",
			"(func(...xs) { return xs })(" + a + "[0], " + a + "[1], " + a + "[2])",
			"(func(...xs) { return xs[0] })(" + a + ")",
			"(func(x) { x[2] = 63; return x })(" + a + ")",
			"copy(" + a + ")",
			a + " + []",
			"[] + " + a,
			"[" + a + "[0], " + a + "[1], " + a + "[2]]",
			"append([], " + a + "...)",
			"{k: " + a + "}.k",
			"[" + a + "][0]",
		})
		write = pick(g.r, []string{a + "[0] = 71", b + "[0] = 72", a + "[2] = 73", b + "[len(" + b + ")-1] = 74", a + "[1] += 5", b + "[1] += 6"})
		if nested && g.r.Intn(2) == 0 {
			// copies must be deep, also when the value copied is (or contains) an immutable container
			derive = pick(g.r, []string{"copy(" + a + ")", "copy(immutable(" + a + "))", "copy(freeze(" + a + "))", "copy([" + a + "])[0]", "copy({k: immutable(" + a + ")}).k", "copy(immutable([" + a + "]))[0]", derive})
			write = pick(g.r, []string{a + "[0][0] = 76", b + "[0][0] = 77", a + "[2].n = 78", b + "[2].n = 79", a + "[2].m = 80", a + "[0] = append(" + a + "[0], 81)"})
		}
	}
	g.declare(a, TAny, true)
	g.declare(b, TAny, true)
	g.declare(w, TAny, true)
	return init + "; " + b + " := " + derive + "; " + write + "; " + w + " := [" + a + ", " + b + ", " + a + " == " + b + "]"
}

// siblingClosures makes two closures from ONE function literal with different captured values and lets them call
// each other in tail position: each activation must run with the captured variables of the closure that was called.
func (g *G) siblingClosures() string {
	g.f("sibling-closures")
	mk, a, b, w := g.fresh("mk"), g.fresh("sa"), g.fresh("sb"), g.fresh("w")
	g.declare(w, TAny, true)
	n1, n2 := g.r.Intn(5), g.r.Intn(5)
	body := "func(n, me, other) { cnt += 1; if n <= 0 { return [tag, cnt] }; return other(n-1, other, me) }"
	if g.r.Intn(3) == 0 {
		body = "func(n, me, other) { cnt += 1; return n <= 0 ? [tag, cnt] : other(n-1, other, me) }"
	}
	if g.r.Intn(3) == 0 {
		body = "func(n, me, other) { cnt += 1; if n <= 0 { return [tag, cnt] }; return n % 2 == 0 && other(n-1, other, me) }"
	}
	return mk + " := func(tag) { cnt := 0; return " + body + " }; " + a + " := " + mk + "(\"A\"); " + b + " := " + mk + "(\"B\"); " +
		w + " := [" + a + "(" + strconv.Itoa(n1) + ", " + a + ", " + b + "), " + b + "(" + strconv.Itoa(n2) + ", " + b + ", " + a + "), " + a + "(0, " + a + ", " + b + ")]"
}
