// Package gen is the seeded Tengo program generator shared by the checks. It
// is scope- and type-aware so that most operations are well-typed, keeps loops
// and recursion bounded, and stays inside the VM's static limits.
package gen

import (
	"fmt"
	"math/rand"
	"strconv"
	"strings"
)

// T is the intended runtime type of an expression or variable.
type T int

const (
	TAny T = iota
	TInt
	TFloat
	TBool
	TChar
	TStr
	TBytes
	TArr  // array of mixed values
	TArrI // array of ints
	TMap
	TFn0 // function of no arguments returning int
	TFn1 // function of one int argument returning int
	TFnV // variadic function (a, ...rest) returning int
	TErr
	TUndef
	TTime
	TImmArr
	TImmMap
)

var scalarTypes = []T{TInt, TInt, TInt, TFloat, TBool, TChar, TStr, TStr}
var allValueTypes = []T{TInt, TInt, TInt, TFloat, TBool, TChar, TStr, TStr, TBytes, TArr, TArrI, TArrI, TMap, TMap, TErr, TUndef, TTime, TImmArr, TImmMap, TFn0, TFn1}

// Var is a variable visible to the generator.
type Var struct {
	Name      string
	Type      T
	ReadOnly  bool // loop counters, functions that must stay callable
	LoopLevel int  // >0: declared inside a loop of the current function chain
	FnLevel   int
	Block     int
}

// Options select a generation profile.
type Options struct {
	MaxStmts        int          // top-level statements
	MaxDepth        int          // statement nesting
	ErrRate         float64      // probability that a generated operation is deliberately ill-typed
	Inputs          []Var        // host-provided variables (already declared)
	Modules         map[string]T // importable modules and the type of their export
	ControlHeavy    bool         // more return/break/continue/dead code (C03)
	ClosureHeavy    bool         // more closures and captured assignments (C11)
	NoExportIgnored bool
	InModule        bool // generating a module body (export allowed, return allowed)
	CaptureLoopVars bool // closures that outlive an iteration may capture loop-scoped variables (scope-dependent semantics: only for checks judged by the reference model at a fixed placement)
	ExportType      T
	NoFloatFormat   bool
	CallDefined     bool // call every function right after its definition
	IdentKeys       bool // map keys are plain identifiers only (printed-form round trip)
}

// Program is a generated program.
type Program struct {
	Src      string
	TopVars  []string
	Features map[string]int
}

type fnCtx struct {
	loopDepth int
	inFn      bool
}

// G is the generator state.
type G struct {
	r      *rand.Rand
	o      Options
	scopes [][]*Var
	fns    []*fnCtx
	nameN  int
	feat   map[string]int
	// hideLoopVars > 0: generating the body of a closure that may outlive
	// the current loop iteration: loop-scoped variables must not be captured
	hideLoopLevel []int
	hideFn        []int
	fnHidden      []bool
	budget        int
	top           []string
}

// New creates a generator.
func New(r *rand.Rand, o Options) *G {
	if o.MaxStmts == 0 {
		o.MaxStmts = 20
	}
	if o.MaxDepth == 0 {
		o.MaxDepth = 4
	}
	g := &G{r: r, o: o, feat: map[string]int{}, budget: 40 + 6*o.MaxStmts}
	g.scopes = [][]*Var{{}}
	g.fns = []*fnCtx{{}}
	for i := range o.Inputs {
		v := o.Inputs[i]
		g.scopes[0] = append(g.scopes[0], &v)
	}
	return g
}

func (g *G) f(name string) { g.feat[name]++ }

func (g *G) fresh(prefix string) string {
	g.nameN++
	return fmt.Sprintf("%s%d", prefix, g.nameN)
}

func (g *G) spaceKey() string {
	if g.o.IdentKeys {
		return "e"
	}
	return `"sp ace"`
}

func (g *G) lastFresh() string { return fmt.Sprintf("q%d", g.nameN) }

func (g *G) cur() *fnCtx { return g.fns[len(g.fns)-1] }

func (g *G) declare(name string, t T, ro bool) *Var {
	v := &Var{Name: name, Type: t, ReadOnly: ro, LoopLevel: g.totalLoop(), FnLevel: len(g.fns)}
	g.scopes[len(g.scopes)-1] = append(g.scopes[len(g.scopes)-1], v)
	if len(g.scopes) == 1 && len(g.fns) == 1 {
		g.top = append(g.top, name)
	}
	return v
}

// totalLoop is the loop nesting across the enclosing function chain.
func (g *G) totalLoop() int {
	n := 0
	for _, f := range g.fns {
		n += f.loopDepth
	}
	return n
}

func (g *G) push() { g.scopes = append(g.scopes, nil) }
func (g *G) pop()  { g.scopes = g.scopes[:len(g.scopes)-1] }

// visible returns variables of type t (TAny: all) that may be referenced here.
func (g *G) visible(t T, writable bool) []*Var {
	var out []*Var
	seen := map[string]bool{}
	hide := -1
	if n := len(g.hideLoopLevel); n > 0 {
		hide = g.hideLoopLevel[n-1]
	}
	for i := len(g.scopes) - 1; i >= 0; i-- {
		for j := len(g.scopes[i]) - 1; j >= 0; j-- {
			v := g.scopes[i][j]
			if seen[v.Name] {
				continue
			}
			seen[v.Name] = true
			if hide >= 0 && v.LoopLevel > hide && v.FnLevel <= g.hideFnLevel() {
				continue
			}
			if writable && v.ReadOnly {
				continue
			}
			if t == TAny || v.Type == t || (t == TArr && v.Type == TArrI) {
				out = append(out, v)
			}
		}
	}
	return out
}

func (g *G) hideFnLevel() int {
	// variables of function levels up to the one where the closure literal was created are subject to hiding
	return g.hideFn[len(g.hideFn)-1]
}

// ---------------------------------------------------------------- literals

var strPool = []string{`""`, `"a"`, `"abc"`, `"hello world"`, `"héllo"`, `"日本語"`, `"x\ty"`, `"q\"q"`, "`raw\\n`", `"A"`, `"zz"`, `"12"`, `"3.5"`, `"true"`, `"-7"`, `"k1"`}
var charPool = []string{`'a'`, `'Z'`, `'0'`, `' '`, `'é'`, `'日'`, `'\n'`, `'\x00'`}
var intPool = []string{"0", "1", "2", "3", "5", "7", "10", "42", "100", "255", "1000", "0x10", "0b101", "0o17", "1_000", "9223372036854775807", "4294967296", "65536"}
var floatPool = []string{"0.0", "1.0", "0.5", "2.5", "1e3", "1.5e-3", "100.25", "3.14159", ".5", "1e21", "0x1p-2"}

func (g *G) lit(t T) string {
	switch t {
	case TInt:
		if g.r.Intn(4) == 0 {
			if v := g.r.Intn(2000) - 50; v < 0 {
				return "(" + strconv.Itoa(v) + ")"
			} else {
				return strconv.Itoa(v)
			}
		}
		s := pick(g.r, intPool)
		if g.r.Intn(6) == 0 {
			return "(-" + s + ")"
		}
		return s
	case TFloat:
		return pick(g.r, floatPool)
	case TBool:
		return pick(g.r, []string{"true", "false"})
	case TChar:
		return pick(g.r, charPool)
	case TStr:
		return pick(g.r, strPool)
	case TBytes:
		return "bytes(" + pick(g.r, strPool) + ")"
	case TArrI:
		n := g.r.Intn(5)
		el := make([]string, n)
		for i := range el {
			el[i] = g.lit(TInt)
		}
		return "[" + strings.Join(el, ", ") + "]"
	case TArr:
		n := g.r.Intn(4)
		el := make([]string, n)
		for i := range el {
			if t := pick(g.r, []T{TInt, TStr, TBool, TFloat, TChar, TArrI, TUndef, TMap}); t == TMap {
				el[i] = pick(g.r, []string{"{}", "{a: 1}", `{k1: "v"}`})
			} else {
				el[i] = g.lit(t)
			}
		}
		return "[" + strings.Join(el, ", ") + "]"
	case TMap:
		n := g.r.Intn(4)
		el := make([]string, n)
		for i := range el {
			k := pick(g.r, []string{"a", "b", "c", "k1", "n", `"x y"`, `"1"`})
			if g.o.IdentKeys {
				k = pick(g.r, []string{"a", "b", "c", "k1", "n"})
			}
			el[i] = k + ": " + g.lit(pick(g.r, []T{TInt, TInt, TStr, TBool, TArrI}))
		}
		return "{" + strings.Join(el, ", ") + "}"
	case TErr:
		return "error(" + g.lit(pick(g.r, []T{TStr, TInt})) + ")"
	case TUndef:
		return "undefined"
	case TTime:
		return "time(" + strconv.Itoa(g.r.Intn(2000000000)) + ")"
	case TImmArr:
		if g.r.Intn(3) == 0 {
			return "immutable(" + g.lit(TArr) + ")"
		}
		return "immutable(" + g.lit(TArrI) + ")"
	case TImmMap:
		return "immutable(" + g.lit(TMap) + ")"
	case TFn0:
		return "func() { return " + g.lit(TInt) + " }"
	case TFn1:
		return "func(p) { return p + " + g.lit(TInt) + " }"
	case TFnV:
		return "func(a, ...r) { return a + len(r) }"
	}
	return g.lit(pick(g.r, scalarTypes))
}

func pick[E any](r *rand.Rand, xs []E) E { return xs[r.Intn(len(xs))] }

func (g *G) illTyped() bool { return g.o.ErrRate > 0 && g.r.Float64() < g.o.ErrRate }

// ---------------------------------------------------------------- expressions

// Expr generates an expression intended to have type t.
func (g *G) Expr(t T, depth int) string {
	if len(g.fns) > 4 && depth > 0 {
		depth = 0
	}
	if g.illTyped() {
		g.f("ill-typed")
		t = pick(g.r, allValueTypes)
	}
	if t == TAny {
		t = pick(g.r, allValueTypes)
	}
	if depth <= 0 || g.r.Intn(3) == 0 {
		// variable or literal
		if vs := g.visible(t, false); len(vs) > 0 && g.r.Intn(3) != 0 {
			g.f("expr:var")
			return pick(g.r, vs).Name
		}
		return g.lit(t)
	}
	d := depth - 1
	switch t {
	case TInt:
		switch g.r.Intn(16) {
		case 0, 1, 2:
			op := pick(g.r, []string{"+", "-", "*", "&", "|", "^", "&^"})
			g.f("binop:" + op)
			return "(" + g.Expr(TInt, d) + " " + op + " " + g.Expr(TInt, d) + ")"
		case 3:
			op := pick(g.r, []string{"/", "%"})
			g.f("binop:" + op)
			return "(" + g.Expr(TInt, d) + " " + op + " (" + g.Expr(TInt, d) + " | 1))"
		case 4:
			op := pick(g.r, []string{"<<", ">>"})
			g.f("binop:" + op)
			return "(" + g.Expr(TInt, d) + " " + op + " " + pick(g.r, []string{"1", "3", "7", "63", "64", g.Expr(TInt, 0)}) + ")"
		case 5:
			g.f("unary:-")
			return "(-" + g.Expr(TInt, d) + ")"
		case 6:
			g.f("unary:^")
			return "(^" + g.Expr(TInt, d) + ")"
		case 7:
			g.f("builtin:len")
			return "len(" + g.Expr(pick(g.r, []T{TStr, TArr, TArrI, TMap, TBytes, TImmArr, TImmMap}), d) + ")"
		case 8:
			g.f("builtin:int")
			return "int(" + g.Expr(pick(g.r, []T{TStr, TChar, TBool, TInt}), d) + ", " + g.lit(TInt) + ")"
		case 9:
			g.f("index:arr")
			a := g.Expr(TArrI, d)
			return "int(" + a + "[" + g.Expr(TInt, d) + "], 0)"
		case 10:
			g.f("call")
			return g.callFn(d)
		case 11:
			g.f("ternary")
			return "(" + g.Expr(TBool, d) + " ? " + g.Expr(TInt, d) + " : " + g.Expr(TInt, d) + ")"
		case 12:
			g.f("index:bytes")
			return "int(" + g.Expr(TBytes, d) + "[" + g.Expr(TInt, 0) + "], -1)"
		case 13:
			g.f("time-sub")
			return "(" + g.Expr(TTime, d) + " - " + g.Expr(TTime, d) + ")"
		case 14:
			g.f("iife")
			return g.iife(TInt, d)
		default:
			g.f("unary:+")
			return "(+" + g.Expr(TInt, d) + ")"
		}
	case TFloat:
		switch g.r.Intn(6) {
		case 0, 1:
			op := pick(g.r, []string{"+", "-", "*", "/"})
			g.f("fbinop:" + op)
			return "(" + g.Expr(TFloat, d) + " " + op + " " + g.Expr(pick(g.r, []T{TFloat, TInt}), d) + ")"
		case 2:
			op := pick(g.r, []string{"+", "-", "*", "/"})
			g.f("ifbinop:" + op)
			return "(" + g.Expr(TInt, d) + " " + op + " " + g.Expr(TFloat, d) + ")"
		case 3:
			g.f("builtin:float")
			return "float(" + g.Expr(pick(g.r, []T{TInt, TStr, TFloat}), d) + ", 0.5)"
		case 4:
			return "(-" + g.Expr(TFloat, d) + ")"
		default:
			return g.lit(TFloat)
		}
	case TBool:
		switch g.r.Intn(13) {
		case 12:
			// function values compared with themselves and with another instance of the same literal (whether the
			// literal captures anything depends on where the program stands)
			g.f("eq:functions")
			op := pick(g.r, []string{"==", "!="})
			inner := "func() { return " + g.Expr(TInt, 0) + " }"
			switch g.r.Intn(4) {
			case 0:
				return "(func(fa) { return fa " + op + " fa })(" + inner + ")"
			case 1:
				return "(func(mk) { return mk() " + op + " mk() })(func() { return " + inner + " })"
			case 2:
				return "(func(mk) { fa := mk(); return [fa] " + op + " [fa] })(func() { return " + inner + " })"
			default:
				return "(func(fa, fb) { return fa " + op + " fb || {k: fa} " + op + " {k: fa} })(len, " + inner + ")"
			}
		case 0, 1:
			op := pick(g.r, []string{"<", "<=", ">", ">=", "==", "!="})
			g.f("cmp:" + op)
			tt := pick(g.r, []T{TInt, TInt, TFloat, TStr, TChar})
			return "(" + g.Expr(tt, d) + " " + op + " " + g.Expr(tt, d) + ")"
		case 2:
			op := pick(g.r, []string{"==", "!="})
			g.f("eq:" + op)
			return "(" + g.Expr(TAny, d) + " " + op + " " + g.Expr(TAny, d) + ")"
		case 3:
			g.f("unary:!")
			return "(!" + g.Expr(TAny, d) + ")"
		case 4:
			g.f("logical:&&")
			return "(" + g.Expr(TBool, d) + " && " + g.Expr(TBool, d) + ")"
		case 5:
			g.f("logical:||")
			return "(" + g.Expr(TBool, d) + " || " + g.Expr(TBool, d) + ")"
		case 6:
			b := pick(g.r, []string{"is_int", "is_float", "is_string", "is_bool", "is_char", "is_bytes", "is_array", "is_immutable_array", "is_map", "is_immutable_map",
				"is_iterable", "is_time", "is_error", "is_undefined", "is_function", "is_callable"})
			g.f("builtin:" + b)
			return b + "(" + g.Expr(TAny, d) + ")"
		case 7:
			g.f("builtin:bool")
			return "bool(" + g.Expr(TAny, d) + ")"
		case 8:
			g.f("cmp:int-char")
			return "(" + g.Expr(TInt, d) + " " + pick(g.r, []string{"<", ">", "<=", ">="}) + " " + g.Expr(TChar, d) + ")"
		case 9:
			g.f("cmp:int-float")
			return "(" + g.Expr(TInt, d) + " " + pick(g.r, []string{"<", ">", "<=", ">=", "=="}) + " " + g.Expr(TFloat, d) + ")"
		case 10:
			g.f("cmp:time")
			return "(" + g.Expr(TTime, d) + " " + pick(g.r, []string{"<", ">", "<=", ">=", "=="}) + " " + g.Expr(TTime, d) + ")"
		default:
			return g.lit(TBool)
		}
	case TChar:
		switch g.r.Intn(6) {
		case 0:
			g.f("char-arith")
			return "(" + g.Expr(TChar, d) + " " + pick(g.r, []string{"+", "-"}) + " " + g.Expr(pick(g.r, []T{TChar, TInt}), 0) + ")"
		case 1:
			g.f("int+char")
			return "(" + g.lit(TInt) + " + " + g.Expr(TChar, d) + ")"
		case 2:
			g.f("builtin:char")
			return "char(" + g.Expr(TInt, d) + " & 0xFFFF)"
		case 3:
			g.f("index:str")
			return "char(" + g.Expr(TStr, d) + "[" + g.Expr(TInt, 0) + "], '?')"
		default:
			return g.lit(TChar)
		}
	case TStr:
		switch g.r.Intn(12) {
		case 0, 1:
			g.f("str+str")
			return "(" + g.Expr(TStr, d) + " + " + g.Expr(TStr, d) + ")"
		case 2:
			g.f("str+any")
			return "(" + g.Expr(TStr, d) + " + " + g.Expr(pick(g.r, []T{TInt, TFloat, TBool, TChar, TArrI, TArr, TUndef, TErr, TBytes, TImmArr}), d) + ")"
		case 3:
			g.f("builtin:string")
			return "string(" + g.Expr(pick(g.r, []T{TInt, TFloat, TBool, TChar, TBytes, TArrI, TArr, TStr, TErr, TImmArr}), d) + ")"
		case 4:
			g.f("slice:str")
			return g.Expr(TStr, d) + "[" + g.optInt(d) + ":" + g.optInt(d) + "]"
		case 5:
			g.f("builtin:type_name")
			return "type_name(" + g.Expr(TAny, d) + ")"
		case 6:
			g.f("builtin:format")
			return g.format(d)
		case 7:
			g.f("map-string")
			return "string(" + pick(g.r, []string{"{}", "{a: " + g.Expr(TInt, 0) + "}", "immutable({b: " + g.Expr(TStr, 0) + "})"}) + ")"
		case 8:
			g.f("iife")
			return g.iife(TStr, d)
		case 9:
			g.f("ternary")
			return "(" + g.Expr(TBool, d) + " ? " + g.Expr(TStr, d) + " : " + g.Expr(TStr, d) + ")"
		default:
			return g.lit(TStr)
		}
	case TBytes:
		switch g.r.Intn(5) {
		case 0:
			g.f("bytes+bytes")
			return "(" + g.Expr(TBytes, d) + " + " + g.Expr(TBytes, d) + ")"
		case 1:
			g.f("slice:bytes")
			return g.Expr(TBytes, d) + "[" + g.optInt(d) + ":" + g.optInt(d) + "]"
		case 2:
			g.f("builtin:bytes")
			return "bytes(" + pick(g.r, []string{g.Expr(TStr, d), strconv.Itoa(g.r.Intn(5))}) + ")"
		default:
			return g.lit(TBytes)
		}
	case TArrI:
		switch g.r.Intn(10) {
		case 0:
			g.f("arr+arr")
			return "(" + g.arrOperand(d) + " + " + g.lit(TArrI) + ")"
		case 1:
			g.f("slice:arr")
			return g.Expr(TArrI, d) + "[" + g.optInt(d) + ":" + g.optInt(d) + "]"
		case 2:
			g.f("builtin:range")
			return "range(" + strconv.Itoa(g.r.Intn(6)-2) + ", " + strconv.Itoa(g.r.Intn(9)-3) + pick(g.r, []string{"", ", 1", ", 2", ", 3"}) + ")"
		case 3:
			g.f("builtin:append")
			return "append(" + g.Expr(TArrI, d) + ", " + g.Expr(TInt, d) + pick(g.r, []string{"", ", " + g.lit(TInt)}) + ")"
		case 4:
			g.f("builtin:copy")
			return "copy(" + g.Expr(TArrI, d) + ")"
		case 5:
			g.f("arrlit")
			n := g.r.Intn(4)
			el := make([]string, n)
			for i := range el {
				el[i] = g.Expr(TInt, d)
			}
			return "[" + strings.Join(el, ", ") + "]"
		case 6:
			g.f("imm+imm")
			return "(" + g.Expr(TImmArr, d) + " + " + g.Expr(TImmArr, 0) + ")"
		case 7:
			g.f("slice:immarr")
			return g.Expr(TImmArr, d) + "[" + g.optInt(d) + ":" + g.optInt(d) + "]"
		case 8:
			g.f("append:immarr")
			return "append(" + g.Expr(TImmArr, d) + ", " + g.Expr(TInt, d) + ")"
		default:
			return g.lit(TArrI)
		}
	case TArr:
		switch g.r.Intn(5) {
		case 0:
			g.f("arrlit-mixed")
			n := g.r.Intn(4)
			el := make([]string, n)
			for i := range el {
				el[i] = g.Expr(TAny, d)
			}
			return "[" + strings.Join(el, ", ") + "]"
		case 1:
			g.f("builtin:append-any")
			return "append(" + g.Expr(TArr, d) + ", " + g.Expr(TAny, d) + ")"
		case 2:
			g.f("builtin:copy")
			return "copy(" + g.Expr(pick(g.r, []T{TArr, TImmArr}), d) + ")"
		default:
			return g.Expr(TArrI, d)
		}
	case TMap:
		switch g.r.Intn(5) {
		case 0:
			g.f("maplit")
			n := g.r.Intn(4)
			el := make([]string, n)
			for i := range el {
				el[i] = pick(g.r, []string{"a", "b", "c", "d", "k1", g.spaceKey()}) + ": " + g.Expr(pick(g.r, []T{TInt, TStr, TBool, TArrI, TAny}), d)
			}
			return "{" + strings.Join(el, ", ") + "}"
		case 1:
			g.f("builtin:copy")
			return "copy(" + g.Expr(pick(g.r, []T{TMap, TImmMap}), d) + ")"
		default:
			if vs := g.visible(TMap, false); len(vs) > 0 {
				return pick(g.r, vs).Name
			}
			return g.lit(TMap)
		}
	case TImmArr:
		switch g.r.Intn(4) {
		case 0:
			g.f("immutable-expr")
			return "immutable(" + g.Expr(TArrI, d) + "[:])"
		case 1:
			g.f("builtin:freeze")
			return "freeze(" + g.Expr(TArrI, d) + ")"
		default:
			if vs := g.visible(TImmArr, false); len(vs) > 0 {
				return pick(g.r, vs).Name
			}
			return g.lit(TImmArr)
		}
	case TImmMap:
		switch g.r.Intn(4) {
		case 0:
			g.f("builtin:freeze")
			return "freeze(" + g.Expr(TMap, d) + ")"
		case 1:
			if len(g.o.Modules) > 0 && g.r.Intn(2) == 0 {
				for name, mt := range g.o.Modules {
					if mt == TImmMap {
						g.f("import")
						return `import("` + name + `")`
					}
				}
			}
			return g.lit(TImmMap)
		default:
			if vs := g.visible(TImmMap, false); len(vs) > 0 {
				return pick(g.r, vs).Name
			}
			return g.lit(TImmMap)
		}
	case TErr:
		if g.r.Intn(2) == 0 {
			g.f("error-expr")
			return "error(" + g.Expr(pick(g.r, []T{TStr, TInt, TArrI}), d) + ")"
		}
		return g.lit(TErr)
	case TTime:
		switch g.r.Intn(4) {
		case 0:
			g.f("time+int")
			return "(" + g.Expr(TTime, d) + " " + pick(g.r, []string{"+", "-"}) + " " + strconv.Itoa(g.r.Intn(1000000000)) + ")"
		default:
			if vs := g.visible(TTime, false); len(vs) > 0 {
				return pick(g.r, vs).Name
			}
			return g.lit(TTime)
		}
	case TFn0, TFn1, TFnV:
		if vs := g.visible(t, false); len(vs) > 0 && g.r.Intn(2) == 0 {
			return pick(g.r, vs).Name
		}
		return g.funcLit(t, d, false)
	case TUndef:
		switch g.r.Intn(4) {
		case 0:
			g.f("missing-key")
			return g.Expr(TMap, d) + ".nokey"
		case 1:
			g.f("index-oob")
			return g.Expr(TArrI, d) + "[99]"
		default:
			return "undefined"
		}
	}
	return g.lit(t)
}

// arrOperand: inside loops the left operand of array + must not be a
// variable that could make the array grow geometrically.
func (g *G) arrOperand(d int) string {
	if g.totalLoop() > 0 {
		return g.lit(TArrI)
	}
	return g.Expr(TArrI, d)
}

func (g *G) optInt(d int) string {
	switch g.r.Intn(4) {
	case 0:
		return ""
	case 1:
		return strconv.Itoa(g.r.Intn(8) - 2)
	default:
		return g.Expr(TInt, 0)
	}
}

func (g *G) format(d int) string {
	type dir struct {
		verb string
		t    T
	}
	dirs := []dir{{"%d", TInt}, {"%5d", TInt}, {"%-4d|", TInt}, {"%x", TInt}, {"%s", TStr}, {"%q", TStr}, {"%8s", TStr}, {"%v", TInt}, {"%v", TStr}, {"%v", TBool}, {"%t", TBool},
		{"%v", TArrI}, {"%v", TArr}, {"%s", TArrI}, {"%v", TChar}, {"%v", TUndef}, {"%05d", TInt}, {"%+d", TInt}, {"%c", TInt}, {"%v", TErr}}
	if !g.o.NoFloatFormat {
		dirs = append(dirs, dir{"%.2f", TFloat}, dir{"%v", TFloat}, dir{"%g", TFloat}, dir{"%8.3f", TFloat}, dir{"%e", TFloat})
	}
	n := 1 + g.r.Intn(3)
	f := ""
	var args []string
	for i := 0; i < n; i++ {
		dd := pick(g.r, dirs)
		f += pick(g.r, []string{"", " ", "x=", "%%"}) + dd.verb
		a := g.Expr(dd.t, d)
		if dd.verb == "%c" {
			a = "(" + a + " & 0x7F)"
		}
		args = append(args, a)
	}
	return "format(" + strconv.Quote(f) + ", " + strings.Join(args, ", ") + ")"
}

// callFn generates a call returning an int.
func (g *G) callFn(d int) string {
	cands := append(append(g.visible(TFn0, false), g.visible(TFn1, false)...), g.visible(TFnV, false)...)
	if len(cands) == 0 || g.r.Intn(5) == 0 {
		// immediately invoked literal
		t := pick(g.r, []T{TFn0, TFn1, TFnV})
		return g.funcLit(t, d, true) + g.args(t, d)
	}
	v := pick(g.r, cands)
	return v.Name + g.args(v.Type, d)
}

func (g *G) args(t T, d int) string {
	switch t {
	case TFn0:
		return "()"
	case TFn1:
		if g.r.Intn(8) == 0 {
			g.f("spread")
			return "([" + g.Expr(TInt, d) + "]...)"
		}
		return "(" + g.Expr(TInt, d) + ")"
	default:
		switch g.r.Intn(4) {
		case 0:
			return "(" + g.Expr(TInt, d) + ")"
		case 1:
			g.f("spread")
			return "(" + g.Expr(TInt, d) + ", " + g.Expr(TArrI, d) + "...)"
		case 2:
			g.f("spread")
			return "(" + g.Expr(TArrI, 0) + "[:0] + [" + g.Expr(TInt, d) + ", 2, 3]...)"
		default:
			return "(" + g.Expr(TInt, d) + ", " + g.Expr(TAny, d) + ", " + g.Expr(TInt, d) + ")"
		}
	}
}

// iife wraps an expression in an immediately invoked function literal (it may
// capture anything, including loop-scoped variables).
func (g *G) iife(t T, d int) string {
	g.enterFn(true)
	body := g.Expr(t, d)
	g.leaveFn(true)
	return "(func() { return " + body + " })()"
}

var _ = fmt.Sprint

// hideFn parallels hideLoopLevel.
func (g *G) enterFn(immediatelyInvoked bool) {
	if g.o.CaptureLoopVars && g.cur().inFn {
		// inside a function every execution of a declaration makes a fresh variable, which the
		// model knows; at the top level declarations are global slots (shared, and re-used by
		// sibling blocks), which it does not: there loop-scoped variables stay hidden
		immediatelyInvoked = true
	}
	g.fnHidden = append(g.fnHidden, !immediatelyInvoked)
	if !immediatelyInvoked {
		g.hideLoopLevel = append(g.hideLoopLevel, 0)
		g.hideFn = append(g.hideFn, len(g.fns))
	}
	g.fns = append(g.fns, &fnCtx{inFn: true})
	g.push()
}

func (g *G) leaveFn(immediatelyInvoked bool) {
	hidden := g.fnHidden[len(g.fnHidden)-1]
	g.fnHidden = g.fnHidden[:len(g.fnHidden)-1]
	immediatelyInvoked = !hidden
	g.pop()
	g.fns = g.fns[:len(g.fns)-1]
	if !immediatelyInvoked {
		g.hideLoopLevel = g.hideLoopLevel[:len(g.hideLoopLevel)-1]
		g.hideFn = g.hideFn[:len(g.hideFn)-1]
	}
}
