// Command verif is the driver and worker binary of the runtime monitors.
package main

import (
	"os"
	"strconv"

	"verif/fw"
	"verif/props"
)

func main() {
	if len(os.Args) >= 4 && os.Args[1] == "c13helper" {
		os.Exit(props.C13Helper(os.Args[2], os.Args[3] == "on"))
	}
	if len(os.Args) >= 3 && os.Args[1] == "c05helper" {
		i, _ := strconv.Atoi(os.Args[2])
		os.Exit(props.C05Helper(i))
	}
	os.Exit(fw.Main(os.Args[1:]))
}
