// Command verif is the driver and worker binary of the runtime monitors.
package main

import (
	"os"

	"verif/fw"
	_ "verif/props"
)

func main() { os.Exit(fw.Main(os.Args[1:])) }
