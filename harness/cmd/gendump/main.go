// Command gendump prints generated programs (debugging aid).
package main

import (
	"fmt"
	"math/rand"
	"os"
	"strconv"
	"strings"

	"github.com/d5/tengo/v2/parser"

	"verif/gen"
)

func main() {
	seed, _ := strconv.Atoi(os.Args[1])
	n := 1
	if len(os.Args) > 2 {
		n, _ = strconv.Atoi(os.Args[2])
	}
	bad := 0
	errs := map[string]int{}
	for i := 0; i < n; i++ {
		r := rand.New(rand.NewSource(int64(seed + i)))
		g := gen.New(r, gen.Options{MaxStmts: 4 + r.Intn(28), MaxDepth: 2 + r.Intn(3), ClosureHeavy: i%3 == 0, ControlHeavy: i%3 == 1})
		p := gen.Generate(g)
		fs := parser.NewFileSet()
		sf := fs.AddFile("(main)", -1, len(p.Src))
		_, err := parser.NewParser(sf, []byte(p.Src), nil).ParseFile()
		if err != nil {
			bad++
			el := err.(parser.ErrorList)
			line := strings.Split(p.Src, "\n")[el[0].Pos.Line-1]
			k := el[0].Msg
			errs[k]++
			if errs[k] <= 2 {
				fmt.Printf("%s\n   col %d: %s\n", k, el[0].Pos.Column, line)
			}
		}
		if n <= 3 {
			fmt.Println(p.Src)
		}
	}
	fmt.Println("bad:", bad, "of", n, errs)
}
