package ref

import (
	"strconv"
)

// keyString converts an index value to a map key (documented: the string
// form of the value; undefined cannot be a key).
func (in *Interp) keyString(k Value) (string, bool) {
	switch x := k.(type) {
	case Undef:
		return "", false
	case Str:
		return string(x), true
	}
	return in.render(k, true, 0), true
}

// indexGet implements a[k] / a.k on the right-hand side.
func (in *Interp) indexGet(l, k Value) Value {
	v, kind := in.indexGetRaw(l, k)
	switch kind {
	case 1:
		in.fail("not indexable: %s", TypeName(k)) // sic: the engine names the index here
	case 2:
		in.fail("invalid index type: %s", TypeName(k))
	case 3:
		in.fail("invalid index on error")
	}
	return v
}

// indexGetForAssign is the navigation step of a[k1][k2]... = v.
func (in *Interp) indexGetForAssign(l, k Value) Value {
	v, kind := in.indexGetRaw(l, k)
	switch kind {
	case 1:
		in.fail("not indexable: %s", TypeName(l))
	case 2:
		in.fail("invalid index type: %s", TypeName(k))
	case 3:
		in.fail("invalid index on error")
	}
	return v
}

// kind: 0 ok, 1 not indexable, 2 invalid index type, 3 invalid index on error
func (in *Interp) indexGetRaw(l, k Value) (Value, int) {
	switch x := l.(type) {
	case *Arr:
		i, ok := k.(Int)
		if !ok {
			return nil, 2
		}
		if i < 0 || int64(i) >= int64(x.n) {
			return Undef{}, 0
		}
		return x.Els()[int(i)], 0
	case Str:
		i, ok := k.(Int)
		if !ok {
			return nil, 2
		}
		rs := []rune(string(x))
		if i < 0 || int64(i) >= int64(len(rs)) {
			return Undef{}, 0
		}
		return Char(rs[int(i)]), 0
	case *Bytes:
		i, ok := k.(Int)
		if !ok {
			return nil, 2
		}
		if i < 0 || int64(i) >= int64(len(x.B)) {
			return Undef{}, 0
		}
		return Int(x.B[int(i)]), 0
	case *Map:
		ks, ok := in.keyString(k)
		if !ok {
			return nil, 2
		}
		if v, ok := x.M[ks]; ok {
			return v, 0
		}
		return Undef{}, 0
	case *Err:
		ks, _ := in.keyString(k)
		if ks != "value" {
			return nil, 3
		}
		return x.V, 0
	case Undef:
		return Undef{}, 0
	}
	return nil, 1
}

// toIntIndex is the coercion the engine applies to array indexes on assignment.
func toIntIndex(k Value) (int, bool) {
	switch x := k.(type) {
	case Int:
		return int(x), true
	case Float:
		f := float64(x)
		if f != f || f > 1e18 || f < -1e18 {
			return 0, false // conversion is platform dependent; callers treat !ok+Float as unspecified
		}
		return int(f), true
	case Char:
		return int(x), true
	case Bool:
		if x {
			return 1, true
		}
		return 0, true
	case Str:
		c, err := strconv.ParseInt(string(x), 10, 64)
		if err == nil {
			return int(c), true
		}
	}
	return 0, false
}

func (in *Interp) indexSet(dst, k, val Value) {
	switch x := dst.(type) {
	case *Arr:
		if x.Imm {
			in.fail("not index-assignable: %s", TypeName(dst))
		}
		i, ok := toIntIndex(k)
		if !ok {
			if _, isF := k.(Float); isF {
				in.unspec("float index outside the portable conversion range")
			}
			in.fail("invalid index type")
		}
		if i < 0 || i >= x.n {
			in.fail("index out of bounds")
		}
		if reaches(val, x, 0) {
			in.unspec("cyclic container")
		}
		x.st.el[x.off+i] = val
	case *Map:
		if x.Imm {
			in.fail("not index-assignable: %s", TypeName(dst))
		}
		ks, ok := in.keyString(k)
		if !ok {
			in.fail("invalid index type")
		}
		if x.iterating > 0 {
			in.unspec("map modified while it is being iterated")
		}
		if reaches(val, x, 0) {
			in.unspec("cyclic container")
		}
		x.M[ks] = val
	default:
		in.fail("not index-assignable: %s", TypeName(dst))
	}
}

func (in *Interp) slice(l, lo, hi Value) Value {
	var low int64
	if _, u := lo.(Undef); !u {
		i, ok := lo.(Int)
		if !ok {
			in.fail("invalid slice index type: %s", TypeName(lo))
		}
		low = int64(i)
	}
	var n int64
	switch x := l.(type) {
	case *Arr:
		n = int64(x.n)
	case Str:
		n = int64(len(x))
	case *Bytes:
		n = int64(len(x.B))
	default:
		in.fail("not indexable: %s", TypeName(l))
	}
	high := n
	if _, u := hi.(Undef); !u {
		i, ok := hi.(Int)
		if !ok {
			in.fail("invalid slice index type: %s", TypeName(hi))
		}
		high = int64(i)
	}
	if low > high {
		in.fail("invalid slice index: %d > %d", low, high)
	}
	clamp := func(v int64) int {
		if v < 0 {
			return 0
		}
		if v > n {
			return int(n)
		}
		return int(v)
	}
	a, b := clamp(low), clamp(high)
	switch x := l.(type) {
	case *Arr:
		if x.Imm {
			// a slice of an immutable array is a new mutable array
			return NewArr(x.Els()[a:b], false)
		}
		// a slice of an array is a view of the same storage
		return &Arr{st: x.st, off: x.off + a, n: b - a}
	case Str:
		return Str(string(x)[a:b])
	case *Bytes:
		return &Bytes{B: append([]byte{}, x.B[a:b]...)}
	}
	return nil
}

// appendTo models Go's append on the view (st, off, n): elements are written
// in place when they fit into the known extent of the storage; beyond it the
// outcome depends on hidden capacity and is decided by the policy.
func (in *Interp) appendTo(st *store, off, n int, items []Value) (*store, int, int) {
	in.stepN(n/8 + len(items))
	end := off + n
	if end+len(items) <= len(st.el) {
		copy(st.el[end:], items)
		return st, off, n + len(items)
	}
	share := false
	switch in.pol.Append {
	case 1:
		share = true
	case 2:
		share = in.pol.rng.Intn(2) == 0
	}
	in.orderUses++
	if share {
		st.el = append(st.el[:end:end], items...)
		return st, off, n + len(items)
	}
	ns := &store{el: make([]Value, 0, n+len(items))}
	ns.el = append(ns.el, st.el[off:end]...)
	ns.el = append(ns.el, items...)
	return ns, 0, n + len(items)
}
