package ref

import (
	"fmt"
	"math"
	"strconv"
	"strings"
	"time"
)

// BuiltinNames lists the builtin functions in the engine's order.
var BuiltinNames = []string{"len", "copy", "append", "delete", "splice", "string", "int", "bool", "float", "char", "bytes", "time",
	"is_int", "is_float", "is_string", "is_bool", "is_char", "is_bytes", "is_array", "is_immutable_array", "is_map", "is_immutable_map",
	"is_iterable", "is_time", "is_error", "is_undefined", "is_function", "is_callable", "type_name", "format", "range", "freeze"}

// ErrWrongArgs / ErrArgType are the two argument errors a host function may
// return; the VM words them in a fixed way.
type ErrWrongArgs struct{}

func (ErrWrongArgs) Error() string { return "wrong number of arguments" }

type ErrArgType struct{ Name, Expected, Found string }

func (e ErrArgType) Error() string {
	return fmt.Sprintf("invalid type for argument '%s': expected %s, found %s", e.Name, e.Expected, e.Found)
}

func (in *Interp) wrongArgs(fn Value) {
	in.fail("wrong number of arguments in call to '%s'", TypeName(fn))
}

func (in *Interp) argType(fn Value, name, expected string, found Value) {
	in.fail("invalid type for argument '%s' in call to '%s': expected %s, found %s", name, TypeName(fn), expected, TypeName(found))
}

func (in *Interp) callBuiltin(f *Builtin, a []Value) Value {
	n := len(a)
	is := func(pred func(Value) bool) Value {
		if n != 1 {
			in.wrongArgs(f)
		}
		return Bool(pred(a[0]))
	}
	conv := func(same func(Value) bool, try func(Value) (Value, bool)) Value {
		if n != 1 && n != 2 {
			in.wrongArgs(f)
		}
		if same(a[0]) {
			return a[0]
		}
		if v, ok := try(a[0]); ok {
			return v
		}
		if n == 2 {
			return a[1]
		}
		return Undef{}
	}
	switch f.Name {
	case "len":
		if n != 1 {
			in.wrongArgs(f)
		}
		switch x := a[0].(type) {
		case *Arr:
			return Int(x.n)
		case Str:
			return Int(len(x))
		case *Bytes:
			return Int(len(x.B))
		case *Map:
			return Int(len(x.M))
		}
		in.argType(f, "first", "array/string/bytes/map", a[0])
	case "copy":
		if n != 1 {
			in.wrongArgs(f)
		}
		return in.deepCopy(a[0], 0)
	case "append":
		if n < 2 {
			in.wrongArgs(f)
		}
		x, ok := a[0].(*Arr)
		if !ok {
			in.argType(f, "first", "array", a[0])
		}
		for _, it := range a[1:] {
			if reaches(it, x, 0) {
				in.unspec("cyclic container")
			}
		}
		if x.Imm {
			return NewArr(append(append([]Value{}, x.Els()...), a[1:]...), false)
		}
		st, off, m := in.appendTo(x.st, x.off, x.n, a[1:])
		return &Arr{st: st, off: off, n: m}
	case "delete":
		if n != 2 {
			in.wrongArgs(f)
		}
		m, ok := a[0].(*Map)
		if !ok || m.Imm {
			in.argType(f, "first", "map", a[0])
		}
		k, ok := a[1].(Str)
		if !ok {
			in.argType(f, "second", "string", a[1])
		}
		if m.iterating > 0 {
			in.unspec("map modified while it is being iterated")
		}
		delete(m.M, string(k))
		return Undef{}
	case "splice":
		return in.splice(f, a)
	case "string":
		return conv(func(v Value) bool { _, ok := v.(Str); return ok }, func(v Value) (Value, bool) {
			if _, u := v.(Undef); u {
				return nil, false
			}
			s := in.render(v, true, 0)
			if len(s) > in.cfg.MaxStringLen {
				in.fail("exceeding string size limit")
			}
			return Str(s), true
		})
	case "int":
		return conv(func(v Value) bool { _, ok := v.(Int); return ok }, func(v Value) (Value, bool) {
			switch x := v.(type) {
			case Float:
				f := float64(x)
				if math.IsNaN(f) || f >= 9.2e18 || f <= -9.2e18 {
					in.unspec("float to int conversion outside the portable range")
				}
				return Int(int64(f)), true
			case Char:
				return Int(x), true
			case Bool:
				if x {
					return Int(1), true
				}
				return Int(0), true
			case Str:
				if c, err := strconv.ParseInt(string(x), 10, 64); err == nil {
					return Int(c), true
				}
			}
			return nil, false
		})
	case "float":
		return conv(func(v Value) bool { _, ok := v.(Float); return ok }, func(v Value) (Value, bool) {
			switch x := v.(type) {
			case Int:
				return Float(float64(x)), true
			case Str:
				if c, err := strconv.ParseFloat(string(x), 64); err == nil {
					return Float(c), true
				}
			}
			return nil, false
		})
	case "bool":
		if n != 1 {
			in.wrongArgs(f)
		}
		return Bool(!Falsy(a[0]))
	case "char":
		return conv(func(v Value) bool { _, ok := v.(Char); return ok }, func(v Value) (Value, bool) {
			if x, ok := v.(Int); ok {
				return Char(rune(int64(x))), true
			}
			return nil, false
		})
	case "bytes":
		if n != 1 && n != 2 {
			in.wrongArgs(f)
		}
		if x, ok := a[0].(Int); ok {
			if int64(x) > int64(in.cfg.MaxBytesLen) {
				in.fail("exceeding bytes size limit")
			}
			if x < 0 {
				in.goPanic("runtime error: makeslice: len out of range")
			}
			if x > 1<<24 {
				in.unspec("huge allocation")
			}
			return &Bytes{B: make([]byte, int(x))}
		}
		switch x := a[0].(type) {
		case *Bytes:
			if len(x.B) > in.cfg.MaxBytesLen {
				in.fail("exceeding bytes size limit")
			}
			return x
		case Str:
			if len(x) > in.cfg.MaxBytesLen {
				in.fail("exceeding bytes size limit")
			}
			return &Bytes{B: []byte(string(x))}
		}
		if n == 2 {
			return a[1]
		}
		return Undef{}
	case "time":
		return conv(func(v Value) bool { _, ok := v.(*Time); return ok }, func(v Value) (Value, bool) {
			if x, ok := v.(Int); ok {
				return &Time{T: time.Unix(int64(x), 0)}, true
			}
			return nil, false
		})
	case "is_int":
		return is(func(v Value) bool { _, ok := v.(Int); return ok })
	case "is_float":
		return is(func(v Value) bool { _, ok := v.(Float); return ok })
	case "is_string":
		return is(func(v Value) bool { _, ok := v.(Str); return ok })
	case "is_bool":
		return is(func(v Value) bool { _, ok := v.(Bool); return ok })
	case "is_char":
		return is(func(v Value) bool { _, ok := v.(Char); return ok })
	case "is_bytes":
		return is(func(v Value) bool { _, ok := v.(*Bytes); return ok })
	case "is_array":
		return is(func(v Value) bool { x, ok := v.(*Arr); return ok && !x.Imm })
	case "is_immutable_array":
		return is(func(v Value) bool { x, ok := v.(*Arr); return ok && x.Imm })
	case "is_map":
		return is(func(v Value) bool { x, ok := v.(*Map); return ok && !x.Imm })
	case "is_immutable_map":
		return is(func(v Value) bool { x, ok := v.(*Map); return ok && x.Imm })
	case "is_iterable":
		return is(func(v Value) bool {
			switch v.(type) {
			case *Arr, *Map, Str, *Bytes, Undef:
				return true
			}
			return false
		})
	case "is_time":
		return is(func(v Value) bool { _, ok := v.(*Time); return ok })
	case "is_error":
		return is(func(v Value) bool { _, ok := v.(*Err); return ok })
	case "is_undefined":
		return is(func(v Value) bool { _, ok := v.(Undef); return ok })
	case "is_function":
		return is(func(v Value) bool { _, ok := v.(*Closure); return ok })
	case "is_callable":
		return is(func(v Value) bool {
			switch v.(type) {
			case *Closure, *Builtin, *HostFn:
				return true
			}
			return false
		})
	case "type_name":
		if n != 1 {
			in.wrongArgs(f)
		}
		s := TypeName(a[0])
		if len(s) > in.cfg.MaxStringLen {
			in.fail("exceeding string size limit")
		}
		return Str(s)
	case "format":
		return in.format(f, a)
	case "range":
		if n < 2 || n > 3 {
			in.wrongArgs(f)
		}
		names := []string{"start", "stop", "step"}
		vals := make([]int64, 3)
		vals[2] = 1
		for i := range a {
			x, ok := a[i].(Int)
			if !ok {
				in.argType(f, names[i], "int", a[i])
			}
			if i == 2 && x <= 0 {
				in.fail("range step must be greater than 0")
			}
			vals[i] = int64(x)
		}
		start, stop, step := vals[0], vals[1], vals[2]
		var els []Value
		count := 0
		if start <= stop {
			for i := start; i < stop; i += step {
				els = append(els, Int(i))
				if count++; count > 1<<20 {
					in.unspec("huge range")
				}
				if i+step < i {
					break // the successor is not representable: the range ends here
				}
			}
		} else {
			for i := start; i > stop; i -= step {
				els = append(els, Int(i))
				if count++; count > 1<<20 {
					in.unspec("huge range")
				}
				if i-step > i {
					break
				}
			}
		}
		return NewArr(els, false)
	case "freeze":
		if n != 1 {
			in.wrongArgs(f)
		}
		return in.freeze(a[0], map[interface{}]Value{}, 0)
	}
	in.unspec("unknown builtin " + f.Name)
	return nil
}

func (in *Interp) deepCopy(v Value, depth int) Value {
	if depth > 200 {
		in.unspec("copy too deep")
	}
	in.step()
	switch x := v.(type) {
	case *Arr:
		els := make([]Value, x.n)
		for i, e := range x.Els() {
			els[i] = in.deepCopy(e, depth+1)
		}
		return NewArr(els, false)
	case *Map:
		m := make(map[string]Value, len(x.M))
		for k, e := range x.M {
			m[k] = in.deepCopy(e, depth+1)
		}
		return NewMap(m, false)
	case *Err:
		return &Err{V: in.deepCopy(x.V, depth+1)}
	case *Bytes:
		return &Bytes{B: append([]byte{}, x.B...)}
	case *Time:
		return &Time{T: x.T}
	case *Closure:
		return &Closure{Fn: x.Fn, env: x.env, mod: x.mod} // shares the captured variables
	case *Builtin:
		return &Builtin{Name: x.Name}
	case *HostFn:
		return &HostFn{Name: x.Name, F: x.F}
	}
	return v
}

func (in *Interp) freeze(v Value, memo map[interface{}]Value, depth int) Value {
	in.step()
	if depth > 200 {
		in.unspec("freeze too deep")
	}
	switch x := v.(type) {
	case *Arr:
		if !x.Imm {
			if c, ok := memo[x]; ok {
				return c
			}
			els := make([]Value, x.n)
			out := NewArr(els, true)
			memo[x] = out
			for i, e := range x.Els() {
				out.st.el[i] = in.freeze(e, memo, depth+1)
			}
			return out
		}
		changed := false
		els := make([]Value, x.n)
		for i, e := range x.Els() {
			els[i] = in.freeze(e, memo, depth+1)
			if !identical(els[i], e) {
				changed = true
			}
		}
		if !changed {
			return x
		}
		return NewArr(els, true)
	case *Map:
		if !x.Imm {
			if c, ok := memo[x]; ok {
				return c
			}
			out := NewMap(make(map[string]Value, len(x.M)), true)
			memo[x] = out
			for k, e := range x.M {
				out.M[k] = in.freeze(e, memo, depth+1)
			}
			return out
		}
		changed := false
		m := make(map[string]Value, len(x.M))
		for k, e := range x.M {
			m[k] = in.freeze(e, memo, depth+1)
			if !identical(m[k], e) {
				changed = true
			}
		}
		if !changed {
			return x
		}
		return NewMap(m, true)
	}
	return v
}

func identical(a, b Value) bool {
	switch x := a.(type) {
	case *Arr:
		y, ok := b.(*Arr)
		return ok && x == y
	case *Map:
		y, ok := b.(*Map)
		return ok && x == y
	}
	return true // scalars and other objects are returned unchanged by freeze
}

func (in *Interp) splice(f *Builtin, a []Value) Value {
	n := len(a)
	if n == 0 {
		in.wrongArgs(f)
	}
	arr, ok := a[0].(*Arr)
	if !ok || arr.Imm {
		in.argType(f, "first", "array", a[0])
	}
	start := 0
	if n > 1 {
		x, ok := a[1].(Int)
		if !ok {
			in.argType(f, "second", "int", a[1])
		}
		if x < 0 || int64(x) > int64(arr.n) {
			in.fail("index out of bounds")
		}
		start = int(x)
	}
	del := arr.n
	if n > 2 {
		x, ok := a[2].(Int)
		if !ok {
			in.argType(f, "third", "int", a[2])
		}
		if x < 0 {
			in.fail("index out of bounds")
		}
		if int64(x) > int64(arr.n) {
			del = arr.n
		} else {
			del = int(x)
		}
	}
	if del > arr.n-start {
		del = arr.n - start
	}
	end := start + del
	els := arr.Els()
	deleted := append([]Value{}, els[start:end]...)
	var items []Value
	if n > 3 {
		items = append(items, a[3:]...)
		for _, it := range items {
			if reaches(it, arr, 0) {
				in.unspec("cyclic container")
			}
		}
	}
	items = append(items, els[end:]...)
	// array.Value = append(head, items...) where head = array.Value[:start]
	st, off, m := in.appendTo(arr.st, arr.off, start, items)
	arr.st, arr.off, arr.n = st, off, m
	return NewArr(deleted, false)
}

// format supports the directive subset the generators use: flags, width,
// precision and the verbs d s v q x X f g e t c on matching operand types,
// plus %% — implemented with Go's fmt on the corresponding Go values.
func (in *Interp) format(f *Builtin, a []Value) Value {
	if len(a) == 0 {
		in.wrongArgs(f)
	}
	fs, ok := a[0].(Str)
	if !ok {
		in.argType(f, "format", "string", a[0])
	}
	goArgs := make([]interface{}, 0, len(a)-1)
	for _, v := range a[1:] {
		switch x := v.(type) {
		case Int:
			goArgs = append(goArgs, int64(x))
		case Float:
			goArgs = append(goArgs, float64(x))
		case Str:
			goArgs = append(goArgs, string(x))
		case Bool:
			goArgs = append(goArgs, bool(x))
		case *Bytes:
			// %v of bytes keeps the engine's text rendering; other verbs are not generated
			goArgs = append(goArgs, string(x.B))
		default:
			goArgs = append(goArgs, in.render(v, true, 0))
		}
	}
	s := fmt.Sprintf(string(fs), goArgs...)
	if strings.Contains(s, "%!") {
		// a verb that does not fit its operand, a missing or a surplus operand:
		// the rendering names Go types here; formatting is judged by C17
		in.unspec("format directive does not match its operand")
	}
	if len(s) > in.cfg.MaxStringLen {
		in.fail("exceeding string size limit")
	}
	return Str(s)
}
