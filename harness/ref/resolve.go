package ref

import (
	"fmt"

	"github.com/d5/tengo/v2/parser"
	"github.com/d5/tengo/v2/token"
)

// CompileError is a static (compile-time) rejection of the program.
type CompileError struct {
	Msg   string
	Parse bool // reported by the parser (of a module)
}

func (e *CompileError) Error() string { return e.Msg }

// scope is one lexical block of the static resolver.
type scope struct {
	names  map[string]bool
	parent *scope
	fn     bool            // function boundary
	free   map[string]bool // names captured from enclosing functions (kept on the function scope)
	root   bool            // root scope of main or of a module
	module bool
}

type resolver struct {
	in        *Interp
	sc        *scope
	loopDepth []int // per function: loop nesting
	modName   string
	chain     []string // modules being compiled (cycle detection); "" is main
	inFunc    int
}

func (r *resolver) errorf(format string, a ...interface{}) {
	panic(&CompileError{Msg: fmt.Sprintf(format, a...)})
}

func (r *resolver) push(fn bool) {
	r.sc = &scope{names: map[string]bool{}, parent: r.sc, fn: fn}
	if fn {
		r.sc.free = map[string]bool{}
	}
}
func (r *resolver) pop() { r.sc = r.sc.parent }

// lookup reports whether name is visible and how: depth 0 means "declared in
// the current block".
func (r *resolver) lookup(name string) (found bool, depth0 bool) {
	crossedFn := false
	var fnScopes []*scope
	for s, first := r.sc, true; s != nil; s, first = s.parent, false {
		if s.names[name] {
			if crossedFn && !(s.root && !s.module) {
				// captured from an enclosing function (or module body): remember on every crossed function scope
				for _, fs := range fnScopes {
					fs.free[name] = true
				}
			}
			return true, first
		}
		if s.fn {
			if s.free[name] && first {
				return true, true
			}
			crossedFn = true
			fnScopes = append(fnScopes, s)
		}
	}
	if _, ok := r.in.builtins[name]; ok {
		// a builtin is visible everywhere and is never a declaration of the current block
		return true, false
	}
	return false, false
}

func (r *resolver) define(name string) {
	if r.sc.fn && r.sc.free[name] {
		// the engine's symbol table keeps captured names in the function's own
		// table; re-declaring one is rejected there. Undocumented: do not judge.
		r.in.unspec("':=' of a name already captured from an enclosing function")
	}
	r.sc.names[name] = true
}

func (r *resolver) stmts(list []parser.Stmt) {
	for _, s := range list {
		r.stmt(s)
	}
}

func (r *resolver) stmt(s parser.Stmt) {
	switch st := s.(type) {
	case *parser.EmptyStmt:
	case *parser.ExprStmt:
		r.expr(st.Expr)
	case *parser.IncDecStmt:
		r.assign(st.Expr, &parser.IntLit{Value: 1}, token.AddAssign, 1, 1)
	case *parser.AssignStmt:
		r.assign(st.LHS[0], st.RHS[0], st.Token, len(st.LHS), len(st.RHS))
	case *parser.BlockStmt:
		if len(st.Stmts) == 0 {
			return
		}
		r.push(false)
		r.stmts(st.Stmts)
		r.pop()
	case *parser.IfStmt:
		r.push(false)
		if st.Init != nil {
			r.stmt(st.Init)
		}
		r.expr(st.Cond)
		r.stmt(st.Body)
		if st.Else != nil {
			r.stmt(st.Else)
		}
		r.pop()
	case *parser.ForStmt:
		r.push(false)
		if st.Init != nil {
			r.stmt(st.Init)
		}
		if st.Cond != nil {
			r.expr(st.Cond)
		}
		r.loopDepth[len(r.loopDepth)-1]++
		r.stmt(st.Body)
		r.loopDepth[len(r.loopDepth)-1]--
		if st.Post != nil {
			r.stmt(st.Post)
		}
		r.pop()
	case *parser.ForInStmt:
		r.push(false)
		r.expr(st.Iterable)
		r.loopDepth[len(r.loopDepth)-1]++
		if st.Key.Name != "_" {
			r.sc.names[st.Key.Name] = true
		}
		if st.Value.Name != "_" {
			r.sc.names[st.Value.Name] = true
		}
		r.stmt(st.Body)
		r.loopDepth[len(r.loopDepth)-1]--
		r.pop()
	case *parser.BranchStmt:
		if r.loopDepth[len(r.loopDepth)-1] == 0 {
			if st.Token == token.Break {
				r.errorf("break not allowed outside loop")
			}
			r.errorf("continue not allowed outside loop")
		}
	case *parser.ReturnStmt:
		if r.inFunc == 0 && r.modName == "" {
			r.errorf("return not allowed outside function")
		}
		if st.Result != nil {
			r.expr(st.Result)
		}
	case *parser.ExportStmt:
		if r.inFunc > 0 {
			r.errorf("export not allowed inside function")
		}
		if r.modName == "" {
			return // ignored in main
		}
		r.expr(st.Result)
	default:
		r.in.unspec(fmt.Sprintf("resolver: unsupported statement %T", s))
	}
}

func (r *resolver) assign(lhs, rhs parser.Expr, op token.Token, nl, nr int) {
	if nl > 1 || nr > 1 {
		r.errorf("tuple assignment not allowed")
	}
	name, sels := splitLHS(lhs)
	if op == token.Define && len(sels) > 0 {
		r.errorf("operator ':=' not allowed with selector")
	}
	found, depth0 := r.lookup(name)
	_, isFn := rhs.(*parser.FuncLit)
	if op == token.Define {
		if found && depth0 {
			r.errorf("'%s' redeclared in this block", name)
		}
		if isFn {
			r.define(name)
		}
	} else {
		if !found {
			r.errorf("unresolved reference '%s'", name)
		}
		if r.isBuiltinRef(name) {
			r.errorf("cannot assign to builtin function '%s'", name)
		}
	}
	if op != token.Assign && op != token.Define {
		r.expr(lhs)
	}
	r.expr(rhs)
	if op == token.Define && !isFn {
		r.define(name)
	}
	for i := len(sels) - 1; i >= 0; i-- {
		r.expr(sels[i])
	}
}

// isBuiltinRef: name resolves to a builtin (not shadowed by a variable).
func (r *resolver) isBuiltinRef(name string) bool {
	for s := r.sc; s != nil; s = s.parent {
		if s.names[name] || (s.fn && s.free[name]) {
			return false
		}
	}
	_, ok := r.in.builtins[name]
	return ok
}

func (r *resolver) expr(e parser.Expr) {
	switch x := e.(type) {
	case nil:
	case *parser.Ident:
		if found, _ := r.lookup(x.Name); !found {
			r.errorf("unresolved reference '%s'", x.Name)
		}
	case *parser.IntLit, *parser.FloatLit, *parser.BoolLit, *parser.CharLit, *parser.StringLit, *parser.UndefinedLit:
	case *parser.ParenExpr:
		r.expr(x.Expr)
	case *parser.UnaryExpr:
		r.expr(x.Expr)
	case *parser.BinaryExpr:
		r.expr(x.LHS)
		r.expr(x.RHS)
	case *parser.CondExpr:
		r.expr(x.Cond)
		r.expr(x.True)
		r.expr(x.False)
	case *parser.ArrayLit:
		for _, el := range x.Elements {
			r.expr(el)
		}
	case *parser.MapLit:
		for _, el := range x.Elements {
			r.expr(el.Value)
		}
	case *parser.SelectorExpr:
		r.expr(x.Expr)
	case *parser.IndexExpr:
		r.expr(x.Expr)
		r.expr(x.Index)
	case *parser.SliceExpr:
		r.expr(x.Expr)
		if x.Low != nil {
			r.expr(x.Low)
		}
		if x.High != nil {
			r.expr(x.High)
		}
	case *parser.FuncLit:
		r.push(true)
		r.inFunc++
		r.loopDepth = append(r.loopDepth, 0)
		for _, p := range x.Type.Params.List {
			r.sc.names[p.Name] = true
		}
		// the body block shares the parameter scope (a BlockStmt with
		// statements opens a nested block scope in the engine as well)
		r.stmt(x.Body)
		r.loopDepth = r.loopDepth[:len(r.loopDepth)-1]
		r.inFunc--
		r.pop()
	case *parser.CallExpr:
		r.expr(x.Func)
		for _, a := range x.Args {
			r.expr(a)
		}
	case *parser.ErrorExpr:
		r.expr(x.Expr)
	case *parser.ImmutableExpr:
		r.expr(x.Expr)
	case *parser.ImportExpr:
		r.importExpr(x)
	default:
		r.in.unspec(fmt.Sprintf("resolver: unsupported expression %T", e))
	}
}

func (r *resolver) importExpr(x *parser.ImportExpr) {
	name := x.ModuleName
	if name == "" {
		r.errorf("empty module name")
	}
	m := r.in.mods[name]
	if m == nil {
		r.errorf("module '%s' not found", name)
	}
	if m.Table != nil {
		return
	}
	for _, c := range r.chain {
		if c == name {
			r.errorf("cyclic module import: %s", name)
		}
	}
	if _, done := r.in.modAST[name]; done {
		return
	}
	sf := r.in.fset.AddFile(name, -1, len(m.Src))
	p := parser.NewParser(sf, m.Src, nil)
	file, err := p.ParseFile()
	if err != nil {
		panic(&CompileError{Msg: err.Error(), Parse: true})
	}
	mr := &resolver{in: r.in, modName: name, chain: append(append([]string{}, r.chain...), name), loopDepth: []int{0}}
	mr.sc = &scope{names: map[string]bool{}, root: true, module: true, fn: true, free: map[string]bool{}}
	mr.stmts(file.Stmts)
	r.in.modAST[name] = file
	r.in.modCtxs[name] = &modCtx{name: name, file: sf}
}
