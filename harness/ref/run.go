package ref

import (
	"fmt"
	"math/rand"
	"sort"

	"github.com/d5/tengo/v2/parser"
)

// Program is one case for the model.
type Program struct {
	Src    []byte
	Inputs func() map[string]Value // fresh host input values for every run
	Mods   map[string]*Module
	Cfg    Config
}

// Span is a source range of a statement.
type Span struct {
	File                       string
	Line, Col, EndLine, EndCol int
}

// Outcome of a model run.
type Outcome struct {
	Kind      string            // ok | runtime-error | compile-error | parse-error | unspecified
	Globals   map[string]string // canonical values of the main program's top-level variables
	Values    map[string]Value  // the values themselves (single-policy runs)
	Err       string
	GoPanic   bool
	Stack     []Span // innermost first (runtime-error only)
	Why       string // unspecified: reason
	OrderUses int
	MaxDepth  int
	Steps     int64
}

// DefaultConfig returns limits matching an unconfigured engine.
func DefaultConfig() Config {
	return Config{MaxStringLen: 2147483647, MaxBytesLen: 2147483647, MaxCallDepth: 400, MaxSteps: 1_000_000}
}

// RunOnce runs the program under one policy.
func RunOnce(p Program, pol Policy) (out Outcome) {
	pol.rng = rand.New(rand.NewSource(pol.Seed))
	in := &Interp{cfg: p.Cfg, pol: pol, mods: p.Mods, fset: parser.NewFileSet(),
		modAST: map[string]*parser.File{}, modCtxs: map[string]*modCtx{}, builtins: map[string]*Builtin{}}
	if in.cfg.MaxSteps == 0 {
		in.cfg = DefaultConfig()
	}
	for _, n := range BuiltinNames {
		in.builtins[n] = &Builtin{Name: n}
	}
	var root *Env
	defer func() {
		out.OrderUses = in.orderUses
		out.MaxDepth = in.maxDepthSeen
		out.Steps = in.steps
		if r := recover(); r != nil {
			switch e := r.(type) {
			case unspecified:
				out.Kind, out.Why = "unspecified", e.why
			case *CompileError:
				out.Kind, out.Err = "compile-error", e.Msg
				if e.Parse {
					out.Kind = "parse-error"
				}
			case *RuntimeError:
				out.Kind, out.Err, out.GoPanic = "runtime-error", e.Msg, e.GoPanic
				for _, f := range in.frames() {
					out.Stack = append(out.Stack, in.span(f))
				}
				out.Globals, out.Values = in.globals(root)
			default:
				panic(r)
			}
		}
	}()
	sf := in.fset.AddFile("(main)", -1, len(p.Src))
	ps := parser.NewParser(sf, p.Src, nil)
	file, err := ps.ParseFile()
	if err != nil {
		return Outcome{Kind: "parse-error", Err: err.Error()}
	}
	var inputs map[string]Value
	if p.Inputs != nil {
		inputs = p.Inputs()
	}
	// static phase
	r := &resolver{in: in, chain: []string{""}, loopDepth: []int{0}}
	r.sc = &scope{names: map[string]bool{}, root: true}
	for n := range inputs {
		r.sc.names[n] = true
	}
	r.stmts(file.Stmts)
	// dynamic phase
	root = newEnv(nil)
	for n, v := range inputs {
		root.vars[n] = &binding{v: v}
	}
	in.stack = []*activation{{mod: &modCtx{name: "", file: sf}}}
	in.execBlock(file.Stmts, root)
	out.Kind = "ok"
	out.Globals, out.Values = in.globals(root)
	return out
}

func (in *Interp) globals(root *Env) (map[string]string, map[string]Value) {
	g := map[string]string{}
	vals := map[string]Value{}
	if root == nil {
		return g, vals
	}
	for n, b := range root.vars {
		g[n] = Canon(b.v)
		vals[n] = b.v
	}
	return g, vals
}

func (in *Interp) span(f Frame) Span {
	s := Span{File: f.File}
	if f.Pos > 0 {
		a := in.fset.Position(parser.Pos(f.Pos))
		b := in.fset.Position(parser.Pos(f.End))
		s.Line, s.Col, s.EndLine, s.EndCol = a.Line, a.Column, b.Line, b.Column
		if !b.IsValid() {
			s.EndLine, s.EndCol = a.Line+100000, 0
		}
	}
	return s
}

// Run runs the program under several policies (map iteration order and
// append capacity). If the outcomes differ, the program's result depends on
// behaviour the language leaves open and the outcome is "unspecified".
func Run(p Program, seed int64) Outcome {
	pols := []Policy{
		{MapOrder: 0, Append: 0, Seed: seed},
		{MapOrder: 1, Append: 1, Seed: seed + 1},
		{MapOrder: 2, Append: 2, Seed: seed + 2},
		{MapOrder: 2, Append: 2, Seed: seed + 3},
	}
	first := RunOnce(p, pols[0])
	if first.Kind == "unspecified" || first.Kind == "parse-error" || first.Kind == "compile-error" {
		return first
	}
	if first.OrderUses == 0 {
		return first // no open choice was ever consulted
	}
	sig := outcomeSig(first)
	for _, pol := range pols[1:] {
		o := RunOnce(p, pol)
		if o.Kind == "unspecified" {
			return o
		}
		if outcomeSig(o) != sig {
			return Outcome{Kind: "unspecified", Why: "outcome depends on map iteration order or on append capacity"}
		}
	}
	return first
}

func outcomeSig(o Outcome) string {
	keys := make([]string, 0, len(o.Globals))
	for k := range o.Globals {
		keys = append(keys, k)
	}
	sort.Strings(keys)
	s := o.Kind + "|" + o.Err + "|"
	for _, k := range keys {
		s += k + "=" + o.Globals[k] + ";"
	}
	for _, f := range o.Stack {
		s += fmt.Sprintf("@%s:%d:%d", f.File, f.Line, f.Col)
	}
	return s
}
