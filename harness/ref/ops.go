package ref

import (
	"fmt"
	"time"
)

// RuntimeError is a run-time failure of the modelled program.
type RuntimeError struct {
	Msg string
	// GoPanic marks failures that the engine reports as a recovered Go
	// run-time panic (no "Runtime Error:" prefix, no trace).
	GoPanic bool
	Stack   []Frame // innermost first
}

func (e *RuntimeError) Error() string { return e.Msg }

// Frame is one entry of the model's call stack at the time of a failure.
type Frame struct {
	File string
	Pos  int // parser.Pos of the statement
	End  int
}

type unspecified struct{ why string }

func (in *Interp) unspec(why string) { panic(unspecified{why}) }

func (in *Interp) fail(format string, a ...interface{}) {
	panic(&RuntimeError{Msg: fmt.Sprintf(format, a...)})
}

func (in *Interp) goPanic(msg string) {
	panic(&RuntimeError{Msg: msg, GoPanic: true})
}

func cmpBool(op string, lt, eq bool) Value {
	switch op {
	case "<":
		return Bool(lt)
	case "<=":
		return Bool(lt || eq)
	case ">":
		return Bool(!lt && !eq)
	default: // >=
		return Bool(!lt)
	}
}

func isCmp(op string) bool { return op == "<" || op == "<=" || op == ">" || op == ">=" }

// Binary implements all binary operators except ==, !=, && and ||.
func (in *Interp) Binary(op string, l, r Value) Value {
	invalid := func() Value {
		in.fail("invalid operation: %s %s %s", TypeName(l), op, TypeName(r))
		return nil
	}
	switch x := l.(type) {
	case Int:
		switch y := r.(type) {
		case Int:
			switch op {
			case "+":
				return x + y
			case "-":
				return x - y
			case "*":
				return x * y
			case "/":
				if y == 0 {
					in.goPanic("runtime error: integer divide by zero")
				}
				if y == -1 {
					return -x // wraps for MinInt64
				}
				return x / y
			case "%":
				if y == 0 {
					in.goPanic("runtime error: integer divide by zero")
				}
				if y == -1 {
					return Int(0)
				}
				return x % y
			case "&":
				return x & y
			case "|":
				return x | y
			case "^":
				return x ^ y
			case "&^":
				return x &^ y
			case "<<":
				if y < 0 || y >= 64 {
					return Int(0)
				}
				return x << uint(y)
			case ">>":
				if y < 0 || y >= 64 {
					if x < 0 {
						return Int(-1)
					}
					return Int(0)
				}
				return x >> uint(y)
			}
			if isCmp(op) {
				return cmpBool(op, x < y, x == y)
			}
		case Float:
			a, b := float64(x), float64(y)
			switch op {
			case "+":
				return Float(a + b)
			case "-":
				return Float(a - b)
			case "*":
				return Float(a * b)
			case "/":
				return Float(a / b)
			case "<":
				return Bool(a < b)
			case "<=":
				return Bool(a <= b)
			case ">":
				return Bool(a > b)
			case ">=":
				return Bool(a >= b)
			}
		case Char:
			switch op {
			case "+":
				return Char(rune(int64(x)) + rune(y))
			case "-":
				return Char(rune(int64(x)) - rune(y))
			}
			if isCmp(op) {
				return cmpBool(op, int64(x) < int64(y), int64(x) == int64(y))
			}
		}
	case Float:
		var b float64
		switch y := r.(type) {
		case Float:
			b = float64(y)
		case Int:
			b = float64(y)
		default:
			return invalid()
		}
		a := float64(x)
		switch op {
		case "+":
			return Float(a + b)
		case "-":
			return Float(a - b)
		case "*":
			return Float(a * b)
		case "/":
			return Float(a / b)
		case "<":
			return Bool(a < b)
		case "<=":
			return Bool(a <= b)
		case ">":
			return Bool(a > b)
		case ">=":
			return Bool(a >= b)
		}
	case Char:
		switch y := r.(type) {
		case Char:
			switch op {
			case "+":
				return x + y
			case "-":
				return x - y
			}
			if isCmp(op) {
				return cmpBool(op, x < y, x == y)
			}
		case Int:
			switch op {
			case "+":
				return Char(rune(x) + rune(int64(y)))
			case "-":
				return Char(rune(x) - rune(int64(y)))
			}
			if isCmp(op) {
				return cmpBool(op, int64(x) < int64(y), int64(x) == int64(y))
			}
		}
	case Str:
		if op == "+" {
			var rs string
			if y, ok := r.(Str); ok {
				rs = string(y)
			} else {
				rs = in.render(r, true, 0)
			}
			if len(x)+len(rs) > in.cfg.MaxStringLen {
				in.fail("exceeding string size limit")
			}
			return Str(string(x) + rs)
		}
		if y, ok := r.(Str); ok && isCmp(op) {
			return cmpBool(op, x < y, x == y)
		}
	case *Bytes:
		if y, ok := r.(*Bytes); ok && op == "+" {
			if len(x.B)+len(y.B) > in.cfg.MaxBytesLen {
				in.fail("exceeding bytes size limit")
			}
			return &Bytes{B: append(append([]byte{}, x.B...), y.B...)}
		}
	case *Time:
		switch y := r.(type) {
		case Int:
			switch op {
			case "+":
				return &Time{T: x.T.Add(time.Duration(y))}
			case "-":
				return &Time{T: x.T.Add(time.Duration(-y))}
			}
		case *Time:
			switch op {
			case "-":
				return Int(x.T.Sub(y.T))
			case "<":
				return Bool(x.T.Before(y.T))
			case ">":
				return Bool(x.T.After(y.T))
			case "<=":
				return Bool(x.T.Equal(y.T) || x.T.Before(y.T))
			case ">=":
				return Bool(x.T.Equal(y.T) || x.T.After(y.T))
			}
		}
	case *Arr:
		if y, ok := r.(*Arr); ok && op == "+" && x.Imm == y.Imm {
			in.stepN((x.n + y.n) / 8)
			els := append(append([]Value{}, x.Els()...), y.Els()...)
			return NewArr(els, false)
		}
	}
	return invalid()
}

// Unary implements - ^ ! and +.
func (in *Interp) Unary(op string, v Value) Value {
	switch op {
	case "!":
		return Bool(Falsy(v))
	case "+":
		return v
	case "-":
		switch x := v.(type) {
		case Int:
			return -x
		case Float:
			return -x
		}
		in.fail("invalid operation: -%s", TypeName(v))
	case "^":
		if x, ok := v.(Int); ok {
			return ^x
		}
		in.fail("invalid operation: ^%s", TypeName(v))
	}
	in.unspec("unknown unary operator " + op)
	return nil
}
