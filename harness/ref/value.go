// Package ref is the executable reference model of the Tengo language used by
// the differential monitors: a tree-walking interpreter over the parser's AST
// with its own value model and its own implementation of operators,
// coercions, scoping, calls, modules and builtins. It shares no code with the
// compiler, the VM, objects.go or builtins.go of the engine under test.
package ref

import (
	"fmt"
	"math"
	"sort"
	"strconv"
	"strings"
	"time"

	"github.com/d5/tengo/v2/parser"
)

// Value is a model value: Int, Float, Bool, Char, Str, Undef, *Bytes, *Time,
// *Err, *Arr, *Map, *Closure, *Builtin, *HostFn.
type Value interface{}

type (
	Int   int64
	Float float64
	Bool  bool
	Char  rune
	Str   string
	Undef struct{}
)

// Bytes is a byte string (contents never change once created).
type Bytes struct{ B []byte }

// Time is a time value.
type Time struct{ T time.Time }

// Err is an error value (compared by identity).
type Err struct{ V Value }

// store is the backing storage of arrays; el's length is the extent that is
// known to exist (capacity beyond it is policy-dependent).
type store struct{ el []Value }

// Arr is an array object: a view (off, n) of a store.
type Arr struct {
	st  *store
	off int
	n   int
	Imm bool
}

// mapHdr is the storage of a map; immutable(m) shares it with m.
type mapHdr struct {
	M         map[string]Value
	iterating int
}

// Map is a map object.
type Map struct {
	*mapHdr
	Imm bool
}

// Closure is a function value.
type Closure struct {
	Fn  *parser.FuncLit
	env *Env
	mod *modCtx
}

// Builtin is a builtin function value.
type Builtin struct{ Name string }

// HostFn is a function supplied by the host (user function).
type HostFn struct {
	Name string
	F    func(args []Value) (Value, error)
}

// NewArr creates an array with a fresh, exactly sized store.
func NewArr(els []Value, imm bool) *Arr {
	st := &store{el: append([]Value{}, els...)}
	return &Arr{st: st, off: 0, n: len(els), Imm: imm}
}

// Els returns the current elements (a view; do not modify).
func (a *Arr) Els() []Value { return a.st.el[a.off : a.off+a.n] }

// NewMap creates a map.
func NewMap(m map[string]Value, imm bool) *Map {
	if m == nil {
		m = map[string]Value{}
	}
	return &Map{mapHdr: &mapHdr{M: m}, Imm: imm}
}

// TypeName is the documented type name of a value.
func TypeName(v Value) string {
	switch x := v.(type) {
	case Int:
		return "int"
	case Float:
		return "float"
	case Bool:
		return "bool"
	case Char:
		return "char"
	case Str:
		return "string"
	case Undef:
		return "undefined"
	case *Bytes:
		return "bytes"
	case *Time:
		return "time"
	case *Err:
		return "error"
	case *Arr:
		if x.Imm {
			return "immutable-array"
		}
		return "array"
	case *Map:
		if x.Imm {
			return "immutable-map"
		}
		return "map"
	case *Closure:
		return "compiled-function"
	case *Builtin:
		return "builtin-function:" + x.Name
	case *HostFn:
		return "user-function:" + x.Name
	}
	return fmt.Sprintf("?%T", v)
}

// render is the display form of a value (what string(x) and string + x use).
// Strings are quoted only when nested (top==false).
func (in *Interp) render(v Value, top bool, depth int) string {
	in.step()
	if depth > 200 {
		in.unspec("rendering too deep")
	}
	switch x := v.(type) {
	case Int:
		return strconv.FormatInt(int64(x), 10)
	case Float:
		return strconv.FormatFloat(float64(x), 'f', -1, 64)
	case Bool:
		if x {
			return "true"
		}
		return "false"
	case Char:
		return string(rune(x))
	case Str:
		if top {
			return string(x)
		}
		return strconv.Quote(string(x))
	case Undef:
		return "<undefined>"
	case *Bytes:
		return string(x.B)
	case *Time:
		return x.T.String()
	case *Err:
		return "error: " + in.render(x.V, false, depth+1)
	case *Arr:
		parts := make([]string, 0, x.n)
		for _, e := range x.Els() {
			parts = append(parts, in.render(e, false, depth+1))
		}
		return "[" + strings.Join(parts, ", ") + "]"
	case *Map:
		if len(x.M) > 1 {
			in.unspec("rendering a map with several keys depends on map iteration order")
		}
		keys := in.mapKeys(x)
		parts := make([]string, 0, len(keys))
		for _, k := range keys {
			parts = append(parts, k+": "+in.render(x.M[k], false, depth+1))
		}
		return "{" + strings.Join(parts, ", ") + "}"
	case *Closure:
		return "<compiled-function>"
	case *Builtin:
		return "<builtin-function>"
	case *HostFn:
		return "<user-function>"
	}
	return "?"
}

// mapKeys returns the keys of m in the order dictated by the current policy.
// Any use of this order that can influence the outcome is order-dependent;
// the caller runs the model under several policies and compares.
func (in *Interp) mapKeys(m *Map) []string {
	keys := make([]string, 0, len(m.M))
	for k := range m.M {
		keys = append(keys, k)
	}
	sort.Strings(keys)
	if len(keys) > 1 {
		in.orderUses++
	}
	switch in.pol.MapOrder {
	case 1:
		for i, j := 0, len(keys)-1; i < j; i, j = i+1, j-1 {
			keys[i], keys[j] = keys[j], keys[i]
		}
	case 2:
		in.pol.rng.Shuffle(len(keys), func(i, j int) { keys[i], keys[j] = keys[j], keys[i] })
	}
	return keys
}

// Falsy implements the documented truthiness table.
func Falsy(v Value) bool {
	switch x := v.(type) {
	case Int:
		return x == 0
	case Float:
		return math.IsNaN(float64(x))
	case Bool:
		return !bool(x)
	case Char:
		return x == 0
	case Str:
		return len(x) == 0
	case Undef:
		return true
	case *Bytes:
		return len(x.B) == 0
	case *Time:
		return x.T.IsZero()
	case *Err:
		return true
	case *Arr:
		return x.n == 0
	case *Map:
		return len(x.M) == 0
	}
	return false // functions
}

// Equal implements ==.
func (in *Interp) Equal(a, b Value, depth int) bool {
	in.step()
	if depth > 200 {
		in.unspec("comparison too deep")
	}
	switch x := a.(type) {
	case Int:
		switch y := b.(type) {
		case Int:
			return x == y
		case Float:
			return float64(x) == float64(y)
		}
		return false
	case Float:
		switch y := b.(type) {
		case Float:
			return x == y
		case Int:
			return float64(x) == float64(y)
		}
		return false
	case Bool:
		y, ok := b.(Bool)
		return ok && x == y
	case Char:
		y, ok := b.(Char)
		return ok && x == y
	case Str:
		y, ok := b.(Str)
		return ok && x == y
	case Undef:
		_, ok := b.(Undef)
		return ok
	case *Bytes:
		y, ok := b.(*Bytes)
		return ok && string(x.B) == string(y.B)
	case *Time:
		y, ok := b.(*Time)
		return ok && x.T.Equal(y.T)
	case *Err:
		y, ok := b.(*Err)
		return ok && x == y
	case *Arr:
		y, ok := b.(*Arr)
		if !ok || x.n != y.n {
			return false
		}
		xe, ye := x.Els(), y.Els()
		for i := range xe {
			if !in.Equal(xe[i], ye[i], depth+1) {
				return false
			}
		}
		return true
	case *Map:
		y, ok := b.(*Map)
		if !ok || len(x.M) != len(y.M) {
			return false
		}
		for k, v := range x.M {
			w, ok := y.M[k]
			if !ok || !in.Equal(v, w, depth+1) {
				return false
			}
		}
		return true
	}
	return false // functions are never equal
}

// Canon renders a value in the canonical structural form shared with the
// harness's rendering of engine objects.
func Canon(v Value) string {
	var sb strings.Builder
	canonTo(&sb, v, 0)
	return sb.String()
}

func canonTo(sb *strings.Builder, v Value, depth int) {
	if depth > 64 {
		sb.WriteString("<deep>")
		return
	}
	switch x := v.(type) {
	case Int:
		fmt.Fprintf(sb, "i%d", int64(x))
	case Float:
		if math.IsNaN(float64(x)) {
			sb.WriteString("fNaN")
		} else {
			fmt.Fprintf(sb, "f%016x", math.Float64bits(float64(x)))
		}
	case Bool:
		if x {
			sb.WriteString("true")
		} else {
			sb.WriteString("false")
		}
	case Char:
		fmt.Fprintf(sb, "c%d", rune(x))
	case Str:
		fmt.Fprintf(sb, "s%q", string(x))
	case *Bytes:
		fmt.Fprintf(sb, "b%x", x.B)
	case *Time:
		fmt.Fprintf(sb, "t%d", x.T.UnixNano())
	case Undef:
		sb.WriteString("undef")
	case *Err:
		sb.WriteString("err(")
		canonTo(sb, x.V, depth+1)
		sb.WriteString(")")
	case *Arr:
		if x.Imm {
			sb.WriteString("I")
		}
		sb.WriteString("[")
		for i, e := range x.Els() {
			if i > 0 {
				sb.WriteString(",")
			}
			canonTo(sb, e, depth+1)
		}
		sb.WriteString("]")
	case *Map:
		if x.Imm {
			sb.WriteString("I")
		}
		keys := make([]string, 0, len(x.M))
		for k := range x.M {
			keys = append(keys, k)
		}
		sort.Strings(keys)
		sb.WriteString("{")
		for i, k := range keys {
			if i > 0 {
				sb.WriteString(",")
			}
			fmt.Fprintf(sb, "%q:", k)
			canonTo(sb, x.M[k], depth+1)
		}
		sb.WriteString("}")
	case *Closure, *Builtin, *HostFn:
		sb.WriteString("<fn>")
	default:
		fmt.Fprintf(sb, "<?%T>", v)
	}
}

// reaches reports whether target is reachable from v (cycle detection).
func reaches(v Value, target interface{}, depth int) bool {
	if depth > 300 {
		return true
	}
	switch x := v.(type) {
	case *Arr:
		if t, ok := target.(*Arr); ok && t.st == x.st {
			return true
		}
		for _, e := range x.Els() {
			if reaches(e, target, depth+1) {
				return true
			}
		}
	case *Map:
		if t, ok := target.(*Map); ok && sameMap(t, x) {
			return true
		}
		for _, e := range x.M {
			if reaches(e, target, depth+1) {
				return true
			}
		}
	case *Err:
		return reaches(x.V, target, depth+1)
	}
	return false
}

func sameMap(a, b *Map) bool {
	return a.mapHdr == b.mapHdr
}
