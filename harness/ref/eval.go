package ref

import (
	"fmt"
	"math/rand"
	"strings"

	"github.com/d5/tengo/v2/parser"
	"github.com/d5/tengo/v2/token"
)

// Config carries the engine limits the model needs to know.
type Config struct {
	MaxStringLen int
	MaxBytesLen  int
	MaxCallDepth int   // deeper => unspecified (the VM's frame limit is a static limit)
	MaxSteps     int64 // evaluation steps before the case is declared unspecified
}

// Policy fixes the choices the language leaves open.
type Policy struct {
	MapOrder int // 0 ascending, 1 descending, 2 shuffled
	Append   int // 0 never share beyond the known extent, 1 always, 2 coin flip
	Seed     int64
	rng      *rand.Rand
}

// Module is an importable module: Tengo source or a host-provided table.
type Module struct {
	Src   []byte
	Table map[string]Value // builtin module attributes (without __module_name__)
}

// Env is a lexical environment (one per block).
type Env struct {
	vars   map[string]*binding
	parent *Env
}

type binding struct{ v Value }

func newEnv(parent *Env) *Env { return &Env{vars: map[string]*binding{}, parent: parent} }

func (e *Env) lookup(name string) *binding {
	for ; e != nil; e = e.parent {
		if b, ok := e.vars[name]; ok {
			return b
		}
	}
	return nil
}

type modCtx struct {
	name string // "" for main
	file *parser.SourceFile
}

type activation struct {
	mod     *modCtx
	stmt    parser.Node // innermost statement being executed
	selfFn  *Closure
	tailPos bool
}

// Interp is one run of the model.
type Interp struct {
	cfg       Config
	pol       Policy
	orderUses int
	steps     int64
	mods      map[string]*Module
	fset      *parser.SourceFileSet
	modAST    map[string]*parser.File
	modCtxs   map[string]*modCtx
	stack     []*activation
	builtins  map[string]*Builtin
	// SelfTailCalls counts calls made in syntactic self-tail position.
	SelfTailCalls int
	maxDepthSeen  int
}

type ctlKind int

const (
	ctlNone ctlKind = iota
	ctlBreak
	ctlContinue
	ctlReturn
)

type ctl struct {
	kind ctlKind
	val  Value
}

func (in *Interp) step() {
	in.steps++
	if in.steps > in.cfg.MaxSteps {
		in.unspec("step budget exceeded")
	}
}

func (in *Interp) stepN(n int) {
	in.steps += int64(n)
	if in.steps > in.cfg.MaxSteps {
		in.unspec("step budget exceeded")
	}
}

func (in *Interp) cur() *activation { return in.stack[len(in.stack)-1] }

// frames builds the failure stack, innermost first.
func (in *Interp) frames() []Frame {
	var out []Frame
	for i := len(in.stack) - 1; i >= 0; i-- {
		a := in.stack[i]
		f := Frame{File: "(main)"}
		if a.mod != nil && a.mod.name != "" {
			f.File = a.mod.name
		}
		if a.stmt != nil {
			f.Pos, f.End = int(a.stmt.Pos()), int(a.stmt.End())
		}
		out = append(out, f)
	}
	return out
}

// ---------------------------------------------------------------- statements

func (in *Interp) execBlock(stmts []parser.Stmt, env *Env) ctl {
	for _, s := range stmts {
		if c := in.exec(s, env); c.kind != ctlNone {
			return c
		}
	}
	return ctl{}
}

func (in *Interp) exec(s parser.Stmt, env *Env) ctl {
	in.step()
	act := in.cur()
	switch st := s.(type) {
	case *parser.EmptyStmt:
		return ctl{}
	case *parser.ExprStmt:
		act.stmt = st
		in.eval(st.Expr, env)
		return ctl{}
	case *parser.AssignStmt:
		act.stmt = st
		in.assign(st, st.LHS[0], st.RHS[0], st.Token, env)
		return ctl{}
	case *parser.IncDecStmt:
		act.stmt = st
		op := token.AddAssign
		if st.Token == token.Dec {
			op = token.SubAssign
		}
		in.assign(st, st.Expr, &parser.IntLit{Value: 1}, op, env)
		return ctl{}
	case *parser.BlockStmt:
		if len(st.Stmts) == 0 {
			return ctl{}
		}
		return in.execBlock(st.Stmts, newEnv(env))
	case *parser.IfStmt:
		e := newEnv(env)
		if st.Init != nil {
			if c := in.exec(st.Init, e); c.kind != ctlNone {
				return c
			}
		}
		act.stmt = st
		cond := in.eval(st.Cond, e)
		if !Falsy(cond) {
			return in.exec(st.Body, e)
		}
		if st.Else != nil {
			return in.exec(st.Else, e)
		}
		return ctl{}
	case *parser.ForStmt:
		e := newEnv(env)
		if st.Init != nil {
			if c := in.exec(st.Init, e); c.kind != ctlNone {
				return c
			}
		}
		for {
			in.step()
			if st.Cond != nil {
				act.stmt = st
				if Falsy(in.eval(st.Cond, e)) {
					break
				}
			}
			c := in.exec(st.Body, e)
			if c.kind == ctlBreak {
				break
			}
			if c.kind == ctlReturn {
				return c
			}
			if st.Post != nil {
				if c := in.exec(st.Post, e); c.kind != ctlNone {
					return c
				}
			}
		}
		return ctl{}
	case *parser.ForInStmt:
		return in.execForIn(st, env)
	case *parser.BranchStmt:
		if st.Token == token.Break {
			return ctl{kind: ctlBreak}
		}
		return ctl{kind: ctlContinue}
	case *parser.ReturnStmt:
		act.stmt = st
		var v Value = Undef{}
		if st.Result != nil {
			act.tailPos = true
			v = in.evalTail(st.Result, env)
			act.tailPos = false
		}
		return ctl{kind: ctlReturn, val: v}
	case *parser.ExportStmt:
		if act.mod == nil || act.mod.name == "" {
			return ctl{} // ignored in the main program (not even evaluated)
		}
		act.stmt = st
		v := in.eval(st.Result, env)
		return ctl{kind: ctlReturn, val: in.makeImmutable(v)}
	}
	in.unspec(fmt.Sprintf("unsupported statement %T", s))
	return ctl{}
}

func (in *Interp) makeImmutable(v Value) Value {
	switch x := v.(type) {
	case *Arr:
		return &Arr{st: x.st, off: x.off, n: x.n, Imm: true}
	case *Map:
		return &Map{mapHdr: x.mapHdr, Imm: true}
	}
	return v
}

type iterState struct {
	keys []Value
	vals func(i int) Value
	n    int
}

func (in *Interp) execForIn(st *parser.ForInStmt, env *Env) ctl {
	act := in.cur()
	e := newEnv(env)
	act.stmt = st
	it := in.eval(st.Iterable, e)
	var n int
	var key func(i int) Value
	var val func(i int) Value
	var done func()
	switch x := it.(type) {
	case *Arr:
		// the iterator is a view of the array's storage taken now
		stv, off := x.st, x.off
		n = x.n
		key = func(i int) Value { return Int(i) }
		val = func(i int) Value {
			if off+i >= len(stv.el) {
				in.unspec("array iterator reads beyond the known extent")
			}
			return stv.el[off+i]
		}
	case *Map:
		if len(x.M) > 1 && !(strings.HasPrefix(st.Key.Name, "mk") || strings.HasPrefix(st.Value.Name, "me")) {
			// Only loops that the generator declares order-independent (by naming
			// their variables mk*/me*: commutative bodies) are judged; any other
			// iteration over a map with several keys depends on the order.
			in.unspec("iteration over a map with several keys depends on map iteration order")
		}
		keys := in.mapKeys(x)
		n = len(keys)
		x.iterating++
		done = func() { x.iterating-- }
		key = func(i int) Value { return Str(keys[i]) }
		val = func(i int) Value {
			v, ok := x.M[keys[i]]
			if !ok {
				return Undef{}
			}
			return v
		}
	case Str:
		rs := []rune(string(x))
		n = len(rs)
		key = func(i int) Value { return Int(i) }
		val = func(i int) Value { return Char(rs[i]) }
	case *Bytes:
		n = len(x.B)
		key = func(i int) Value { return Int(i) }
		val = func(i int) Value { return Int(x.B[i]) }
	case Undef:
		n = 0
	default:
		in.fail("not iterable: %s", TypeName(it))
	}
	if done != nil {
		defer done()
	}
	for i := 0; i < n; i++ {
		in.step()
		// key and value are fresh bindings in every iteration
		ie := newEnv(e)
		if st.Key.Name != "_" {
			ie.vars[st.Key.Name] = &binding{v: key(i)}
		}
		if st.Value.Name != "_" {
			ie.vars[st.Value.Name] = &binding{v: val(i)}
		}
		c := in.exec(st.Body, ie)
		if c.kind == ctlBreak {
			break
		}
		if c.kind == ctlReturn {
			return c
		}
	}
	return ctl{}
}

var assignOps = map[token.Token]string{
	token.AddAssign: "+", token.SubAssign: "-", token.MulAssign: "*", token.QuoAssign: "/", token.RemAssign: "%",
	token.AndAssign: "&", token.OrAssign: "|", token.AndNotAssign: "&^", token.XorAssign: "^", token.ShlAssign: "<<", token.ShrAssign: ">>",
}

func splitLHS(e parser.Expr) (name string, sels []parser.Expr) {
	switch t := e.(type) {
	case *parser.SelectorExpr:
		name, sels = splitLHS(t.Expr)
		sels = append(sels, t.Sel)
	case *parser.IndexExpr:
		name, sels = splitLHS(t.Expr)
		sels = append(sels, t.Index)
	case *parser.Ident:
		name = t.Name
	}
	return
}

func (in *Interp) assign(node parser.Node, lhs, rhs parser.Expr, op token.Token, env *Env) {
	name, sels := splitLHS(lhs)
	var val Value
	switch op {
	case token.Define:
		if _, isFn := rhs.(*parser.FuncLit); isFn {
			// the new variable is visible inside the function literal
			b := &binding{v: Undef{}}
			env.vars[name] = b
			b.v = in.eval(rhs, env)
			return
		}
		val = in.eval(rhs, env)
		env.vars[name] = &binding{v: val}
		return
	case token.Assign:
		val = in.eval(rhs, env)
	default:
		cur := in.eval(lhs, env)
		r := in.eval(rhs, env)
		val = in.Binary(assignOps[op], cur, r)
	}
	b := env.lookup(name)
	if b == nil {
		in.unspec("assignment to unresolved name (resolver should have rejected): " + name)
	}
	if len(sels) == 0 {
		b.v = val
		return
	}
	// selector expressions are evaluated right to left, after the right-hand side
	keys := make([]Value, len(sels))
	for i := len(sels) - 1; i >= 0; i-- {
		keys[i] = in.eval(sels[i], env)
	}
	dst := b.v
	for i := 0; i < len(keys)-1; i++ {
		dst = in.indexGetForAssign(dst, keys[i])
	}
	in.indexSet(dst, keys[len(keys)-1], val)
}

// ---------------------------------------------------------------- expressions

func (in *Interp) evalTail(e parser.Expr, env *Env) Value {
	// a call directly under return (also through right operands of && / ||)
	// is in tail position; this only matters for statistics (C16)
	return in.eval(e, env)
}

func (in *Interp) eval(e parser.Expr, env *Env) Value {
	in.step()
	switch x := e.(type) {
	case *parser.Ident:
		if b := env.lookup(x.Name); b != nil {
			return b.v
		}
		if bf, ok := in.builtins[x.Name]; ok {
			return bf
		}
		in.unspec("unresolved identifier at run time: " + x.Name)
	case *parser.IntLit:
		return Int(x.Value)
	case *parser.FloatLit:
		return Float(x.Value)
	case *parser.BoolLit:
		return Bool(x.Value)
	case *parser.CharLit:
		return Char(x.Value)
	case *parser.StringLit:
		return Str(x.Value)
	case *parser.UndefinedLit:
		return Undef{}
	case *parser.ParenExpr:
		return in.eval(x.Expr, env)
	case *parser.UnaryExpr:
		v := in.eval(x.Expr, env)
		return in.Unary(x.Token.String(), v)
	case *parser.BinaryExpr:
		switch x.Token {
		case token.LAnd:
			l := in.eval(x.LHS, env)
			if Falsy(l) {
				return l
			}
			return in.eval(x.RHS, env)
		case token.LOr:
			l := in.eval(x.LHS, env)
			if !Falsy(l) {
				return l
			}
			return in.eval(x.RHS, env)
		}
		l := in.eval(x.LHS, env)
		r := in.eval(x.RHS, env)
		switch x.Token {
		case token.Equal:
			return Bool(in.Equal(l, r, 0))
		case token.NotEqual:
			return Bool(!in.Equal(l, r, 0))
		}
		return in.Binary(x.Token.String(), l, r)
	case *parser.CondExpr:
		if !Falsy(in.eval(x.Cond, env)) {
			return in.eval(x.True, env)
		}
		return in.eval(x.False, env)
	case *parser.ArrayLit:
		els := make([]Value, len(x.Elements))
		for i, el := range x.Elements {
			els[i] = in.eval(el, env)
		}
		return NewArr(els, false)
	case *parser.MapLit:
		m := make(map[string]Value, len(x.Elements))
		for _, el := range x.Elements {
			m[el.Key] = in.eval(el.Value, env)
		}
		return NewMap(m, false)
	case *parser.SelectorExpr:
		l := in.eval(x.Expr, env)
		k := in.eval(x.Sel, env)
		return in.indexGet(l, k)
	case *parser.IndexExpr:
		l := in.eval(x.Expr, env)
		k := in.eval(x.Index, env)
		return in.indexGet(l, k)
	case *parser.SliceExpr:
		l := in.eval(x.Expr, env)
		var lo, hi Value = Undef{}, Undef{}
		if x.Low != nil {
			lo = in.eval(x.Low, env)
		}
		if x.High != nil {
			hi = in.eval(x.High, env)
		}
		return in.slice(l, lo, hi)
	case *parser.FuncLit:
		return &Closure{Fn: x, env: env, mod: in.cur().mod}
	case *parser.CallExpr:
		fn := in.eval(x.Func, env)
		args := make([]Value, 0, len(x.Args))
		for _, a := range x.Args {
			args = append(args, in.eval(a, env))
		}
		return in.call(fn, args, x.Ellipsis.IsValid())
	case *parser.ErrorExpr:
		return &Err{V: in.eval(x.Expr, env)}
	case *parser.ImmutableExpr:
		return in.makeImmutable(in.eval(x.Expr, env))
	case *parser.ImportExpr:
		return in.importModule(x.ModuleName)
	}
	in.unspec(fmt.Sprintf("unsupported expression %T", e))
	return nil
}

func (in *Interp) call(fn Value, args []Value, spread bool) Value {
	switch fn.(type) {
	case *Closure, *Builtin, *HostFn:
	default:
		in.fail("not callable: %s", TypeName(fn))
	}
	if spread {
		last := args[len(args)-1]
		arr, ok := last.(*Arr)
		if !ok {
			in.fail("not an array: %s", TypeName(last))
		}
		args = append(append([]Value{}, args[:len(args)-1]...), arr.Els()...)
	}
	switch f := fn.(type) {
	case *Closure:
		return in.callClosure(f, args)
	case *Builtin:
		return in.callBuiltin(f, args)
	case *HostFn:
		v, err := f.F(args)
		if err != nil {
			switch e := err.(type) {
			case ErrWrongArgs:
				in.fail("wrong number of arguments in call to '%s'", TypeName(f))
			case ErrArgType:
				in.fail("invalid type for argument '%s' in call to '%s': expected %s, found %s", e.Name, TypeName(f), e.Expected, e.Found)
			}
			panic(&RuntimeError{Msg: err.Error()})
		}
		if v == nil {
			return Undef{}
		}
		return v
	}
	return nil
}

func (in *Interp) callClosure(f *Closure, args []Value) Value {
	params := f.Fn.Type.Params
	np := len(params.List)
	if params.VarArgs {
		if len(args) < np-1 {
			in.fail("wrong number of arguments: want>=%d, got=%d", np-1, len(args))
		}
		rest := NewArr(args[np-1:], false)
		args = append(append([]Value{}, args[:np-1]...), rest)
	} else if len(args) != np {
		in.fail("wrong number of arguments: want=%d, got=%d", np, len(args))
	}
	if len(in.stack) > in.maxDepthSeen {
		in.maxDepthSeen = len(in.stack)
	}
	if len(in.stack) >= in.cfg.MaxCallDepth {
		in.unspec("call depth beyond the modelled static limit")
	}
	env := newEnv(f.env)
	for i, p := range params.List {
		env.vars[p.Name] = &binding{v: args[i]}
	}
	in.stack = append(in.stack, &activation{mod: f.mod, selfFn: f})
	c := in.execBlock(f.Fn.Body.Stmts, env)
	in.stack = in.stack[:len(in.stack)-1]
	if c.kind == ctlReturn {
		return c.val
	}
	return Undef{}
}

func (in *Interp) importModule(name string) Value {
	m := in.mods[name]
	if m == nil {
		in.unspec("import of unknown module at run time: " + name)
	}
	if m.Table != nil {
		t := make(map[string]Value, len(m.Table)+1)
		for k, v := range m.Table {
			t[k] = v
		}
		t["__module_name__"] = Str(name)
		return NewMap(t, true)
	}
	file := in.modAST[name]
	if file == nil {
		in.unspec("module not parsed: " + name)
	}
	if len(in.stack) >= in.cfg.MaxCallDepth {
		in.unspec("call depth beyond the modelled static limit")
	}
	in.stack = append(in.stack, &activation{mod: in.modCtxs[name]})
	c := in.execBlock(file.Stmts, newEnv(nil))
	in.stack = in.stack[:len(in.stack)-1]
	if c.kind == ctlReturn {
		return c.val
	}
	return Undef{}
}
