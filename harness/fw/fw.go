// Package fw is the driver/worker plumbing shared by all property checks:
// deterministic case lists, worker child processes (one crash cannot take the
// monitors down), result merging, known-findings handling, evidence files.
package fw

import (
	"encoding/json"
	"fmt"
	"hash/fnv"
	"math/rand"
	"os"
	"os/exec"
	"path/filepath"
	"runtime"
	"runtime/debug"
	"sort"
	"strconv"
	"strings"
	"syscall"
	"time"
)

// Root is the /verif directory.
var Root = func() string {
	if r := os.Getenv("VERIF_ROOT"); r != "" {
		return r
	}
	return "/verif"
}()

// Check is one property check.
type Check interface {
	ID() string
	Level() string // evidence level category
	// NumCases is the length of the deterministic case list for a tier.
	NumCases(tier string) int
	// RunCase runs case i of the list derived from seed. It must report
	// everything through r and must not exit the process on a violation.
	RunCase(r *Rec, c Case)
	// Rule describes case generation / non-triviality (for the evidence file).
	Rule() string
	Assumptions() []string
}

// Optional interfaces.
type (
	// Finisher lets a check add whole-run assertions (coverage thresholds)
	// after all workers were merged. Runs in the driver.
	Finisher interface{ Finish(m *Merged, tier string) }
	// Configurer lets a check choose worker count / per-case watchdog.
	Configurer interface{ Config(tier string) Config }
	// Preparer runs once in the driver before workers start (e.g. build helpers).
	Preparer interface{ Prepare(tier string) error }
)

// Config tunes the driver for one check.
type Config struct {
	Workers     int           // 0 = NumCPU
	CaseTimeout time.Duration // watchdog per case (0 = 120s); firing => inconclusive unless check says otherwise
	Env         []string      // extra env for workers
	Race        bool          // informational
	MemLimitMB  int           // GOMEMLIMIT for workers (0 = 3000)
	// CrashIsViolation: unexpected child death counts as a violation (default true).
	CrashInconclusive bool
}

// Case identifies one deterministic case.
type Case struct {
	Seed  int64
	Index int
	Tier  string
	// Replay is true when the case is re-run from a replay file (verbose).
	Replay bool
}

// Rng returns the PRNG of this case (depends only on seed, index and salt).
func (c Case) Rng(salt string) *rand.Rand {
	h := fnv.New64a()
	fmt.Fprintf(h, "%d/%d/%s", c.Seed, c.Index, salt)
	return rand.New(rand.NewSource(int64(h.Sum64())))
}

// Violation is one refuting observation.
type Violation struct {
	Property string      `json:"property"`
	Sig      string      `json:"sig"` // witness signature used for known-finding matching
	What     string      `json:"what"`
	Seed     int64       `json:"seed"`
	Case     int         `json:"case"`
	Tier     string      `json:"tier"`
	Detail   interface{} `json:"detail,omitempty"`
}

// Rec collects what one worker observed.
type Rec struct {
	ID           string            `json:"id"`
	Evaluations  int64             `json:"evaluations"`
	Nontrivial   []uint64          `json:"nontrivial_hashes"`
	Counters     map[string]int64  `json:"counters"`
	Samples      []interface{}     `json:"samples"`
	Violations   []Violation       `json:"violations"`
	Inconclusive int64             `json:"inconclusive"`
	InconcWhy    map[string]int64  `json:"inconclusive_why"`
	Notes        map[string]string `json:"notes"`
	SlowCase     int               `json:"slow_case"`   // case with the largest CPU cost in this worker
	SlowCPUms    int64             `json:"slow_cpu_ms"` // its CPU cost (user+system, whole worker process)
	seen         map[uint64]struct{}
	cur          Case
	maxSamples   int
	Verbose      bool `json:"-"`
}

func newRec(id string) *Rec {
	return &Rec{ID: id, Counters: map[string]int64{}, InconcWhy: map[string]int64{},
		Notes: map[string]string{}, seen: map[uint64]struct{}{}, maxSamples: 4}
}

// Eval counts one evaluation (an execution of the real code judged by an oracle).
func (r *Rec) Eval() { r.Evaluations++ }

// EvalN counts n evaluations.
func (r *Rec) EvalN(n int) { r.Evaluations += int64(n) }

// Hash64 hashes strings for the distinct set.
func Hash64(parts ...string) uint64 {
	h := fnv.New64a()
	for _, p := range parts {
		h.Write([]byte(p))
		h.Write([]byte{0})
	}
	return h.Sum64()
}

// Distinct records a non-trivial case by its normalised text.
func (r *Rec) Distinct(parts ...string) {
	k := Hash64(parts...)
	if _, ok := r.seen[k]; !ok {
		r.seen[k] = struct{}{}
		r.Nontrivial = append(r.Nontrivial, k)
	}
}

// Count adds to a named counter.
func (r *Rec) Count(name string, n int64) { r.Counters[name] += n }

// Inc increments a named counter.
func (r *Rec) Inc(name string) { r.Counters[name]++ }

// Sample stores an example case (a few per worker).
func (r *Rec) Sample(s interface{}) {
	if len(r.Samples) < r.maxSamples {
		r.Samples = append(r.Samples, clip(s))
	}
}

// WantSample reports whether another sample would be kept.
func (r *Rec) WantSample() bool { return len(r.Samples) < r.maxSamples }

// Inconc counts an inconclusive case.
func (r *Rec) Inconc(why string) {
	r.Inconclusive++
	r.InconcWhy[why]++
}

// Violate records a violation of the current case.
func (r *Rec) Violate(sig, what string, detail interface{}) {
	r.Counters["violations_raised"]++
	if len(r.Violations) >= 60 {
		r.Counters["violations_not_stored"]++
		return
	}
	detail = clip(detail)
	r.Violations = append(r.Violations, Violation{Property: r.ID, Sig: sig, What: what,
		Seed: r.cur.Seed, Case: r.cur.Index, Tier: r.cur.Tier, Detail: detail})
	if r.Verbose {
		b, _ := json.MarshalIndent(detail, "", " ")
		fmt.Printf("VIOLATED sig=%s what=%s\n%s\n", sig, what, b)
	}
}

// clip bounds the size of strings inside a violation detail.
func clip(d interface{}) interface{} {
	switch v := d.(type) {
	case string:
		if len(v) > 1500 {
			return v[:700] + fmt.Sprintf("…[%d bytes]…", len(v)) + v[len(v)-700:]
		}
		return v
	case map[string]interface{}:
		for k, x := range v {
			v[k] = clip(x)
		}
		return v
	case []string:
		out := make([]string, len(v))
		for i, x := range v {
			out[i] = clip(x).(string)
		}
		return out
	case []interface{}:
		for i, x := range v {
			v[i] = clip(x)
		}
		return v
	}
	return d
}

// Logf prints in replay mode only.
func (r *Rec) Logf(f string, a ...interface{}) {
	if r.Verbose {
		fmt.Printf(f+"\n", a...)
	}
}

// ---------------------------------------------------------------------------

// Known finding entry.
type Known struct {
	Status   string `json:"status"` // "known" or "fixed"
	Property string `json:"property"`
	Sig      string `json:"sig"`
	What     string `json:"what"`
	Commit   string `json:"commit,omitempty"`
}

// LoadKnown reads /verif/known_findings.jsonl.
func LoadKnown() []Known {
	b, err := os.ReadFile(filepath.Join(Root, "known_findings.jsonl"))
	if err != nil {
		return nil
	}
	var out []Known
	for _, l := range strings.Split(string(b), "\n") {
		l = strings.TrimSpace(l)
		if l == "" || strings.HasPrefix(l, "#") {
			continue
		}
		var k Known
		if json.Unmarshal([]byte(l), &k) == nil {
			out = append(out, k)
		}
	}
	return out
}

// Merged is the union of all worker records.
type Merged struct {
	*Rec
	Distinct int
	Crashes  int
	FailMsgs []string // coverage failures added by Finish (=> check is broken, reported as violation of harness? no: exit 2)
}

// Fail records a harness-level failure (observed nothing / coverage below threshold).
func (m *Merged) Fail(msg string) { m.FailMsgs = append(m.FailMsgs, msg) }

// ---------------------------------------------------------------------------

var registry = map[string]Check{}

// Register adds a check.
func Register(c Check) { registry[c.ID()] = c }

// Get returns a registered check.
func Get(id string) Check { return registry[id] }

// IDs lists registered checks.
func IDs() []string {
	var s []string
	for k := range registry {
		s = append(s, k)
	}
	sort.Strings(s)
	return s
}

func seedFromEnv() int64 {
	if s := os.Getenv("VERIF_SEED"); s != "" {
		if v, err := strconv.ParseInt(s, 10, 64); err == nil {
			return v
		}
	}
	return 1
}

func workDir(id string) string {
	d := filepath.Join(Root, "work", id)
	os.MkdirAll(d, 0o755)
	return d
}

// Main is the entry point used by cmd/verif.
func Main(args []string) int {
	if len(args) < 1 {
		fmt.Println("usage: verif run <ID> <quick|thorough> | worker ... | replay <ID> <path> | list")
		return 2
	}
	switch args[0] {
	case "list":
		for _, id := range IDs() {
			fmt.Println(id)
		}
		return 0
	case "run":
		if len(args) < 3 {
			return 2
		}
		return drive(args[1], args[2])
	case "worker":
		// worker <ID> <tier> <seed> <shard> <nshards> <startAfter> <outfile>
		return work(args[1:])
	case "replay":
		if len(args) < 3 {
			return 2
		}
		return replay(args[1], args[2])
	}
	return 2
}

func replay(id, path string) int {
	c := Get(id)
	if c == nil {
		fmt.Println("unknown check", id)
		return 2
	}
	b, err := os.ReadFile(path)
	if err != nil {
		fmt.Println(err)
		return 2
	}
	var v Violation
	if err := json.Unmarshal(b, &v); err != nil {
		fmt.Println(err)
		return 2
	}
	r := newRec(id)
	r.Verbose = true
	cs := Case{Seed: v.Seed, Index: v.Case, Tier: v.Tier, Replay: true}
	r.cur = cs
	fmt.Printf("replaying %s seed=%d case=%d tier=%s (recorded: %s)\n", id, v.Seed, v.Case, v.Tier, v.What)
	c.RunCase(r, cs)
	if len(r.Violations) > 0 {
		fmt.Printf("VIOLATION property=%s replay=%s\n", id, path)
		return 1
	}
	fmt.Println("no violation reproduced")
	return 0
}

func work(a []string) int {
	if len(a) < 7 {
		return 2
	}
	id, tier := a[0], a[1]
	seed, _ := strconv.ParseInt(a[2], 10, 64)
	shard, _ := strconv.Atoi(a[3])
	nshards, _ := strconv.Atoi(a[4])
	startAfter, _ := strconv.Atoi(a[5])
	out := a[6]
	c := Get(id)
	if c == nil {
		return 2
	}
	// runaway recursion in the code under test must die quickly (fatal error:
	// stack overflow) instead of eating gigabytes first
	debug.SetMaxStack(64 << 20)
	// memory sentinel: GOMEMLIMIT is only a soft limit and the sandbox has no hard one, so a case
	// that grows without bound would take the machine down; end the worker instead (the driver
	// reports the case it died on).
	if capMB, _ := strconv.Atoi(os.Getenv("VERIF_MEMCAP_MB")); capMB > 0 {
		go func() {
			var ms runtime.MemStats
			for {
				time.Sleep(250 * time.Millisecond)
				runtime.ReadMemStats(&ms)
				if ms.HeapAlloc>>20 > uint64(capMB) {
					fmt.Fprintf(os.Stderr, "fatal error: verif memory cap exceeded: live heap %d MiB > %d MiB while running one case\n", ms.HeapAlloc>>20, capMB)
					os.Exit(7)
				}
			}
		}()
	}
	r := newRec(id)
	// merge an earlier partial record of this shard (after a crash restart)
	if b, err := os.ReadFile(out + ".partial"); err == nil {
		var old Rec
		if json.Unmarshal(b, &old) == nil {
			mergeInto(r, &old)
		}
	}
	cur, _ := os.OpenFile(out+".cur", os.O_CREATE|os.O_WRONLY, 0o644)
	n := c.NumCases(tier)
	var buf [24]byte
	lastFlush := time.Now()
	for i := shard; i < n; i += nshards {
		if i <= startAfter {
			continue
		}
		s := strconv.AppendInt(buf[:0], int64(i), 10)
		s = append(s, '\n', ' ', ' ', ' ', ' ', ' ', ' ', ' ', ' ')
		cur.WriteAt(s, 0)
		cs := Case{Seed: seed, Index: i, Tier: tier}
		r.cur = cs
		cpu0 := selfCPUms()
		c.RunCase(r, cs)
		if d := selfCPUms() - cpu0; d > r.SlowCPUms {
			r.SlowCPUms, r.SlowCase = d, i
		}
		if time.Since(lastFlush) > 5*time.Second {
			writeRec(out+".partial", r)
			lastFlush = time.Now()
		}
	}
	writeRec(out, r)
	os.Remove(out + ".partial")
	return 0
}

func writeRec(path string, r *Rec) {
	b, _ := json.Marshal(r)
	tmp := path + ".tmp"
	os.WriteFile(tmp, b, 0o644)
	os.Rename(tmp, path)
}

func mergeInto(dst, src *Rec) {
	dst.Evaluations += src.Evaluations
	for _, h := range src.Nontrivial {
		if _, ok := dst.seen[h]; !ok {
			dst.seen[h] = struct{}{}
			dst.Nontrivial = append(dst.Nontrivial, h)
		}
	}
	for k, v := range src.Counters {
		dst.Counters[k] += v
	}
	for k, v := range src.InconcWhy {
		dst.InconcWhy[k] += v
	}
	for k, v := range src.Notes {
		dst.Notes[k] = v
	}
	dst.Inconclusive += src.Inconclusive
	if src.SlowCPUms > dst.SlowCPUms {
		dst.SlowCPUms, dst.SlowCase = src.SlowCPUms, src.SlowCase
	}
	for _, s := range src.Samples {
		if len(dst.Samples) < 6 {
			dst.Samples = append(dst.Samples, s)
		}
	}
	dst.Violations = append(dst.Violations, src.Violations...)
}

// CrashSig extracts a stable signature from a dead worker's stderr.
func CrashSig(stderr string) (sig, head string) {
	lines := strings.Split(stderr, "\n")
	kind := ""
	for _, l := range lines {
		if strings.HasPrefix(l, "fatal error:") || strings.HasPrefix(l, "panic:") ||
			strings.HasPrefix(l, "runtime: goroutine stack exceeds") || strings.Contains(l, "WARNING: DATA RACE") {
			kind = strings.TrimSpace(l)
			break
		}
	}
	if kind == "" {
		kind = "worker died"
	}
	// first tengo frames
	var frames []string
	for _, l := range lines {
		l = strings.TrimSpace(l)
		if strings.HasPrefix(l, "github.com/d5/tengo/v2") {
			f := l
			if i := strings.Index(f, "("); i > 0 {
				// keep function name incl. receiver; cut arguments
				j := strings.LastIndex(f, "(")
				if j > 0 {
					f = f[:j]
				}
			}
			f = strings.TrimPrefix(f, "github.com/d5/tengo/v2")
			if len(frames) == 0 || frames[len(frames)-1] != f {
				frames = append(frames, f)
			}
			if len(frames) >= 3 {
				break
			}
		}
	}
	k := kind
	if i := strings.Index(k, "goroutine stack exceeds"); i >= 0 {
		k = "fatal error: stack overflow"
	}
	return "crash:" + k + "@" + strings.Join(frames, "<"), kind
}

func drive(id, tier string) int {
	c := Get(id)
	if c == nil {
		fmt.Println("unknown check", id)
		return 2
	}
	if tier != "quick" && tier != "thorough" {
		fmt.Println("tier must be quick or thorough")
		return 2
	}
	t0 := time.Now()
	seed := seedFromEnv()
	cfg := Config{}
	if cc, ok := c.(Configurer); ok {
		cfg = cc.Config(tier)
	}
	if cfg.Workers <= 0 {
		cfg.Workers = runtime.NumCPU()
	}
	if cfg.CaseTimeout <= 0 {
		cfg.CaseTimeout = 120 * time.Second
	}
	if cfg.MemLimitMB <= 0 {
		cfg.MemLimitMB = 3000
	}
	n := c.NumCases(tier)
	if n < cfg.Workers {
		cfg.Workers = n
	}
	if cfg.Workers < 1 {
		cfg.Workers = 1
	}
	evPath := filepath.Join(evidenceDir(), id+".json")
	os.Remove(evPath)
	if p, ok := c.(Preparer); ok {
		if err := p.Prepare(tier); err != nil {
			fmt.Println("prepare failed:", err)
			return 2
		}
	}
	wd := workDir(id)
	// clean old worker files
	if ents, err := os.ReadDir(wd); err == nil {
		for _, e := range ents {
			if strings.HasPrefix(e.Name(), "w") {
				os.Remove(filepath.Join(wd, e.Name()))
			}
		}
	}
	self, _ := os.Executable()
	merged := &Merged{Rec: newRec(id)}
	type res struct {
		shard   int
		crashes []Violation
		inconc  int
	}
	ch := make(chan res, cfg.Workers)
	for s := 0; s < cfg.Workers; s++ {
		go func(s int) {
			out := filepath.Join(wd, fmt.Sprintf("w%d.json", s))
			var rs res
			rs.shard = s
			startAfter := -1
			for attempt := 0; attempt < 50; attempt++ {
				errf, _ := os.Create(out + ".stderr")
				cmd := exec.Command(self, "worker", id, tier, strconv.FormatInt(seed, 10),
					strconv.Itoa(s), strconv.Itoa(cfg.Workers), strconv.Itoa(startAfter), out)
				cmd.Stdout = errf
				cmd.Stderr = errf
				cmd.Env = append(os.Environ(), "GOMEMLIMIT="+strconv.Itoa(cfg.MemLimitMB)+"MiB", "VERIF_MEMCAP_MB="+strconv.Itoa(cfg.MemLimitMB+500), "GOTRACEBACK=all")
				cmd.Env = append(cmd.Env, cfg.Env...)
				cmd.SysProcAttr = &syscall.SysProcAttr{Setpgid: true}
				if err := cmd.Start(); err != nil {
					errf.Close()
					rs.inconc++
					break
				}
				done := make(chan error, 1)
				go func() { done <- cmd.Wait() }()
				// watchdog: the .cur file must change. Verdicts are not taken from the wall clock alone
				// (a loaded machine stretches it arbitrarily): a case "hangs" when the worker has burnt
				// CaseTimeout of CPU time on it (spinning), or when CaseTimeout of wall time passed and
				// the worker is blocked (no runnable thread, no CPU used). A worker that is merely slow
				// is given 20x the time and then counted as inconclusive.
				var werr error
				timedOut := false
				slowKill := false
				lastCur, lastChange := "", time.Now()
				cpuAtChange := procCPU(cmd.Process.Pid)
				idleSince, cpuAtIdle := time.Now(), cpuAtChange
			loop:
				for {
					select {
					case werr = <-done:
						break loop
					case <-time.After(500 * time.Millisecond):
						b, _ := os.ReadFile(out + ".cur")
						cpu := procCPU(cmd.Process.Pid)
						if string(b) != lastCur {
							lastCur, lastChange, cpuAtChange = string(b), time.Now(), cpu
							idleSince, cpuAtIdle = time.Now(), cpu
							continue
						}
						if cpu-cpuAtIdle > 0.5 {
							idleSince, cpuAtIdle = time.Now(), cpu
						}
						wall := time.Since(lastChange)
						spinning := wall > cfg.CaseTimeout && cpu-cpuAtChange >= cfg.CaseTimeout.Seconds()
						blocked := wall > cfg.CaseTimeout && time.Since(idleSince) > cfg.CaseTimeout/2 && noRunnableThread(cmd.Process.Pid)
						tooSlow := wall > 20*cfg.CaseTimeout
						if spinning || blocked || tooSlow {
							timedOut = spinning || blocked
							slowKill = !timedOut
							syscall.Kill(-cmd.Process.Pid, syscall.SIGQUIT)
							time.Sleep(300 * time.Millisecond)
							syscall.Kill(-cmd.Process.Pid, syscall.SIGKILL)
							werr = <-done
							break loop
						}
					}
				}
				errf.Close()
				if werr == nil && !timedOut && !slowKill {
					break // finished
				}
				if slowKill {
					// neither spinning nor blocked, just starved of CPU: no verdict on this case
					b, _ := os.ReadFile(out + ".cur")
					ci, _ := strconv.Atoi(strings.TrimSpace(strings.SplitN(string(b), "\n", 2)[0]))
					os.Rename(out+".stderr", fmt.Sprintf("%s.stderr.%d", out, attempt))
					rs.inconc++
					startAfter = ci
					continue
				}
				// died: find the case
				b, _ := os.ReadFile(out + ".cur")
				ci, _ := strconv.Atoi(strings.TrimSpace(strings.SplitN(string(b), "\n", 2)[0]))
				se, _ := os.ReadFile(out + ".stderr")
				stderr := string(se)
				if len(stderr) > 200000 {
					stderr = stderr[:100000] + "\n...\n" + stderr[len(stderr)-100000:]
				}
				if !timedOut && strings.Contains(stderr, "VERIF-INCONCLUSIVE:") {
					// the worker gave up on a case without a verdict (starved of CPU) and left
					os.Rename(out+".stderr", fmt.Sprintf("%s.stderr.%d", out, attempt))
					rs.inconc++
					startAfter = ci
					continue
				}
				if timedOut {
					sig := "hang:case"
					rs.crashes = append(rs.crashes, Violation{Property: id, Sig: sig,
						What: fmt.Sprintf("worker made no progress on one case (watchdog: %s of CPU time spent on it, or blocked without a runnable thread for that long)", cfg.CaseTimeout),
						Seed: seed, Case: ci, Tier: tier, Detail: map[string]interface{}{"watchdog": true, "stderr_tail": tail(stderr, 6000)}})
				} else {
					sig, head := CrashSig(stderr)
					rs.crashes = append(rs.crashes, Violation{Property: id, Sig: sig,
						What: "worker process died while running this case: " + head,
						Seed: seed, Case: ci, Tier: tier, Detail: map[string]interface{}{"stderr_tail": tail(stderr, 8000)}})
				}
				os.Rename(out+".stderr", fmt.Sprintf("%s.stderr.%d", out, attempt))
				startAfter = ci
				if len(rs.crashes) >= 3 {
					// enough witnesses from this shard: do not spend the watchdog budget again and again
					break
				}
			}
			ch <- rs
		}(s)
	}
	var crashes []Violation
	for i := 0; i < cfg.Workers; i++ {
		rs := <-ch
		crashes = append(crashes, rs.crashes...)
		for k := 0; k < rs.inconc; k++ {
			merged.Inconc("worker could not be started or was too slow to judge (no verdict on its case)")
		}
		out := filepath.Join(wd, fmt.Sprintf("w%d.json", rs.shard))
		b, err := os.ReadFile(out)
		if err != nil {
			b, err = os.ReadFile(out + ".partial")
		}
		if err == nil {
			var r Rec
			if json.Unmarshal(b, &r) == nil {
				mergeInto(merged.Rec, &r)
			}
		}
	}
	merged.Crashes = len(crashes)
	for _, v := range crashes {
		if wd, ok := v.Detail.(map[string]interface{}); ok && wd["watchdog"] == true && cfg.CrashInconclusive {
			merged.Inconc("watchdog")
			continue
		}
		merged.Violations = append(merged.Violations, v)
	}
	merged.Distinct = len(merged.Nontrivial)
	if f, ok := c.(Finisher); ok {
		f.Finish(merged, tier)
	}
	// known findings
	known := LoadKnown()
	var real []Violation
	knownHit := map[string]int{}
	for _, v := range merged.Violations {
		matched := false
		for _, k := range known {
			if k.Status == "known" && k.Property == id && k.Sig == v.Sig {
				matched = true
				knownHit[k.Sig+"\x00"+k.What]++
				break
			}
		}
		if !matched {
			real = append(real, v)
		}
	}
	var khKeys []string
	for k := range knownHit {
		khKeys = append(khKeys, k)
	}
	sort.Strings(khKeys)
	for _, k := range khKeys {
		p := strings.SplitN(k, "\x00", 2)
		fmt.Printf("KNOWN-FINDING: property=%s %s [sig=%s, seen %d times]\n", id, p[1], p[0], knownHit[k])
	}
	// write replay files (dedupe by sig, max 10)
	rdir := filepath.Join(Root, "replay", id)
	os.MkdirAll(rdir, 0o755)
	seenSig := map[string]int{}
	var lines []string
	for _, v := range real {
		seenSig[v.Sig]++
		if seenSig[v.Sig] > 1 || len(lines) >= 10 {
			continue
		}
		p := filepath.Join(rdir, fmt.Sprintf("s%d-c%d-%x.json", v.Seed, v.Case, Hash64(v.Sig)&0xffffff))
		b, _ := json.MarshalIndent(v, "", " ")
		os.WriteFile(p, b, 0o644)
		lines = append(lines, fmt.Sprintf("VIOLATION property=%s replay=%s", id, p))
		fmt.Printf("violation: %s [sig=%s]\n", v.What, v.Sig)
	}
	wall := time.Since(t0).Seconds()
	writeEvidence(c, merged, tier, seed, wall, len(real), len(knownHit))
	fmt.Printf("%s %s seed=%d: cases=%d evaluations=%d distinct_nontrivial=%d inconclusive=%d violations=%d known=%d crashes=%d wall=%.1fs\n",
		id, tier, seed, n, merged.Evaluations, merged.Distinct, merged.Inconclusive, len(real), len(knownHit), merged.Crashes, wall)
	for _, l := range lines {
		fmt.Println(l)
	}
	if len(real) > 0 {
		return 1
	}
	if len(merged.FailMsgs) > 0 {
		for _, m := range merged.FailMsgs {
			fmt.Println("HARNESS-FAILURE (observed too little, verdict inconclusive):", m)
		}
		return 3
	}
	return 0
}

func tail(s string, n int) string {
	if len(s) <= n {
		return s
	}
	return s[len(s)-n:]
}

func writeEvidence(c Check, m *Merged, tier string, seed int64, wall float64, nviol, nknown int) {
	cov := map[string]interface{}{
		"evaluations":         m.Evaluations,
		"distinct_nontrivial": m.Distinct,
		"rule":                c.Rule(),
		"samples":             m.Samples,
		"cases":               c.NumCases(tier),
		"inconclusive":        m.Inconclusive,
		"inconclusive_why":    m.InconcWhy,
		"observed":            m.Counters,
		"worker_crashes":      m.Crashes,
		"known_findings_seen": nknown,
	}
	cov["slowest_case"] = map[string]interface{}{"case": m.SlowCase, "cpu_ms": m.SlowCPUms}
	if len(m.Notes) > 0 {
		cov["notes"] = m.Notes
	}
	if len(m.FailMsgs) > 0 {
		cov["harness_failures"] = m.FailMsgs
	}
	if c.Level() == "translation_validation" {
		cov["programs"] = m.Counters["programs"]
		cov["disagreements_checked"] = m.Counters["disagreements_checked"]
	}
	if len(m.Samples) == 0 {
		cov["samples"] = []interface{}{"(no sample recorded)"}
	}
	ev := map[string]interface{}{
		"property_id": c.ID(),
		"tier":        tier,
		"seed":        seed,
		"level":       c.Level(),
		"coverage":    cov,
		"assumptions": c.Assumptions(),
		"wall_s":      wall,
		"violations":  nviol,
	}
	b, _ := json.MarshalIndent(ev, "", " ")
	os.MkdirAll(evidenceDir(), 0o755)
	os.WriteFile(filepath.Join(evidenceDir(), c.ID()+".json"), b, 0o644)
}

// evidenceDir is /verif/evidence; runs against a deliberately broken tree (seedtest.sh, selftest.sh) set
// VERIF_EVIDENCE_DIR so that they never overwrite the evidence of the unchanged tree.
func evidenceDir() string {
	if d := os.Getenv("VERIF_EVIDENCE_DIR"); d != "" {
		return d
	}
	return filepath.Join(Root, "evidence")
}

// NewRecForTest creates a record for unit tests of checks.
func NewRecForTest(id string) *Rec { return newRec(id) }

// groupPids lists the processes of the process group led by pid (the worker and the helper
// children it started: workers are started with Setpgid).
func groupPids(pid int) []int {
	out := []int{pid}
	ents, err := os.ReadDir("/proc")
	if err != nil {
		return out
	}
	for _, e := range ents {
		p, err := strconv.Atoi(e.Name())
		if err != nil || p == pid {
			continue
		}
		b, err := os.ReadFile("/proc/" + e.Name() + "/stat")
		if err != nil {
			continue
		}
		t := string(b)
		i := strings.LastIndexByte(t, ')')
		if i < 0 {
			continue
		}
		f := strings.Fields(t[i+1:])
		// f[0] = state, f[1] = ppid, f[2] = pgrp
		if len(f) > 2 && f[2] == strconv.Itoa(pid) {
			out = append(out, p)
		}
	}
	return out
}

// procCPU returns the CPU seconds (user+system, including reaped children) consumed by the
// process group led by pid.
func procCPU(pid int) float64 {
	var ticks int64
	for _, p := range groupPids(pid) {
		b, err := os.ReadFile(fmt.Sprintf("/proc/%d/stat", p))
		if err != nil {
			continue
		}
		t := string(b)
		i := strings.LastIndexByte(t, ')')
		if i < 0 {
			continue
		}
		f := strings.Fields(t[i+1:])
		// f[0] = state (field 3); utime, stime, cutime, cstime are fields 14..17
		if len(f) < 15 {
			continue
		}
		for _, k := range []int{11, 12, 13, 14} {
			v, _ := strconv.ParseInt(f[k], 10, 64)
			ticks += v
		}
	}
	return float64(ticks) / 100
}

// noRunnableThread samples the scheduler state of every thread of every process in the worker's
// process group a few times; true if none was ever running, runnable or in uninterruptible I/O
// (the worker and its helpers are blocked, not starved or busy).
func noRunnableThread(pid int) bool {
	for sample := 0; sample < 8; sample++ {
		for _, p := range groupPids(pid) {
			ents, err := os.ReadDir(fmt.Sprintf("/proc/%d/task", p))
			if err != nil {
				if p == pid {
					return false
				}
				continue
			}
			for _, e := range ents {
				b, err := os.ReadFile(fmt.Sprintf("/proc/%d/task/%s/stat", p, e.Name()))
				if err != nil {
					continue
				}
				t := string(b)
				i := strings.LastIndexByte(t, ')')
				if i < 0 || i+2 >= len(t) {
					return false
				}
				if st := t[i+2]; st == 'R' || st == 'D' {
					return false
				}
			}
		}
		time.Sleep(120 * time.Millisecond)
	}
	return true
}

// selfCPUms is the CPU time (user+system) this process has consumed so far, in milliseconds.
func selfCPUms() int64 {
	var ru syscall.Rusage
	if syscall.Getrusage(syscall.RUSAGE_SELF, &ru) != nil {
		return 0
	}
	return (ru.Utime.Sec+ru.Stime.Sec)*1000 + int64(ru.Utime.Usec+ru.Stime.Usec)/1000
}

// WaitOrHang waits for done. It is the in-worker counterpart of the driver's watchdog and, like
// it, does not take a verdict from the wall clock alone: "hang" is returned once at least T of
// wall time has passed AND either this process has burnt T of CPU time since the call (something
// spins) or no other thread of the process was runnable over a second of sampling (everything is
// blocked). A process that is merely starved by other load keeps waiting, up to 20*T
// ("inconclusive").
func WaitOrHang(done <-chan struct{}, T time.Duration) string {
	start, cpu0 := time.Now(), selfCPUms()
	tick := time.NewTicker(200 * time.Millisecond)
	defer tick.Stop()
	for {
		select {
		case <-done:
			return "done"
		case <-tick.C:
		}
		wall := time.Since(start)
		if wall < T {
			continue
		}
		if time.Duration(selfCPUms()-cpu0)*time.Millisecond >= T {
			return "hang"
		}
		if noOtherRunnableThread() {
			return "hang"
		}
		if wall > 20*T {
			return "inconclusive"
		}
	}
}

// noOtherRunnableThread: over ~1 s of sampling no thread of this process other than the sampling
// one was running, runnable or in uninterruptible I/O.
func noOtherRunnableThread() bool {
	runtime.LockOSThread()
	defer runtime.UnlockOSThread()
	self := strconv.Itoa(syscall.Gettid())
	for sample := 0; sample < 10; sample++ {
		ents, err := os.ReadDir("/proc/self/task")
		if err != nil || len(ents) == 0 {
			return false
		}
		for _, e := range ents {
			if e.Name() == self {
				continue
			}
			b, err := os.ReadFile("/proc/self/task/" + e.Name() + "/stat")
			if err != nil {
				continue
			}
			t := string(b)
			i := strings.LastIndexByte(t, ')')
			if i < 0 || i+2 >= len(t) {
				return false
			}
			if st := t[i+2]; st == 'R' || st == 'D' {
				return false
			}
		}
		time.Sleep(100 * time.Millisecond)
	}
	return true
}

// AbandonInconclusive ends a worker that cannot go on (a call it is waiting for never came back)
// but has no verdict either; the driver counts the case as inconclusive and restarts after it.
func AbandonInconclusive(why string) {
	fmt.Fprintln(os.Stderr, "VERIF-INCONCLUSIVE: "+why)
	os.Exit(9)
}

// WorkDir returns (and creates) the scratch directory of a check under <root>/work.
func WorkDir(id string) string { return workDir(id) }
