package props

import (
	"errors"
	"fmt"
	"math/rand"
	"strings"

	"github.com/d5/tengo/v2"

	"verif/fw"
	"verif/gen"
	"verif/ref"
)

// C14 — run-time errors point at the statement that failed.
type c14 struct{}

func init() { fw.Register(&c14{}) }

func (*c14) ID() string    { return "C14" }
func (*c14) Level() string { return "exploration" }

// termination is not this property's claim (C04/C05 decide it): a case that exhausts the watchdog's
// CPU allowance is a generated program that is too expensive, counted as inconclusive
func (*c14) Config(tier string) fw.Config { return fw.Config{CrashInconclusive: true} }
func (*c14) NumCases(tier string) int {
	if tier == "thorough" {
		return 250000
	}
	return 40000
}
func (*c14) Rule() string {
	return "each case = one failing program: (a) a call chain of depth 0..12 built from functions with dead code before the call (so optimizer-shifted offsets are exercised), in main or in a source module, ending in one planted failing operation of a known kind " +
		"(ill-typed binary/unary, index assignment out of bounds, not callable, wrong arity, not indexable, invalid index type, not iterable, immutable write, builtin misuse, user-function error, limits), laid out over several lines or sharing a line with other statements; " +
		"or (b) a generated program with a 5% ill-typed rate. The reference interpreter supplies the stack of executing statements (innermost first); every 'at file:line:col' of the real error must lie inside the span of the corresponding statement, and the frame count must match. " +
		"Sentinel errors and a host error type are provoked at random depth and checked with errors.Is/As. distinct = distinct source; non-trivial = the trace has at least 2 frames"
}
func (*c14) Assumptions() []string {
	return []string{
		"ground truth for the executing statements comes from the reference interpreter (harness/ref)",
		"self tail calls (which legitimately collapse frames) are not generated here; C16 covers them",
		"failures the engine reports as recovered Go panics (integer division by zero) carry no position and are not judged",
	}
}

type c14Fail struct {
	kind string
	stmt func(arg string) string // statement using the int parameter arg; must fail at run time
	msg  string                  // substring of the expected message
}

var c14Fails = []c14Fail{
	{"binary", func(a string) string { return "t := " + a + " + \"s\"" }, "invalid operation: int + string"},
	{"binary-multiline", func(a string) string { return "t := [" + a + ",\n   2,\n   " + a + " - \"x\",\n   4]" }, "invalid operation: int - string"},
	{"unary", func(a string) string { return "t := -string(" + a + ")" }, "invalid operation: -string"},
	{"complement", func(a string) string { return "t := ^(" + a + " + 0.5)" }, "invalid operation: ^float"},
	{"index-assign-oob", func(a string) string { return "arr := [" + a + "]; arr[10] = 1" }, "index out of bounds"},
	{"not-callable", func(a string) string { return "t := " + a + "(1)" }, "not callable: int"},
	{"wrong-arity", func(a string) string { return "g := func(x, y) { return x }; t := g(" + a + ")" }, "wrong number of arguments: want=2, got=1"},
	{"wrong-arity-variadic", func(a string) string { return "g := func(x, y, ...z) { return x }; t := g(" + a + ")" }, "wrong number of arguments: want>=2, got=1"},
	{"not-indexable", func(a string) string { return "t := " + a + "[0]" }, "not indexable"},
	{"invalid-index-type", func(a string) string { return "t := [" + a + "][\"x\"]" }, "invalid index type: string"},
	{"not-iterable", func(a string) string { return "for x in " + a + " { t := x }" }, "not iterable: int"},
	{"immutable-write", func(a string) string { return "im := immutable([" + a + "]); im[0] = 2" }, "not index-assignable: immutable-array"},
	{"immutable-map-write", func(a string) string { return "im := immutable({k: " + a + "}); im.k = 2" }, "not index-assignable: immutable-map"},
	{"builtin-arg-type", func(a string) string { return "t := len(" + a + ")" }, "invalid type for argument 'first' in call to 'builtin-function:len'"},
	{"builtin-arg-count", func(a string) string { return "t := append([" + a + "])" }, "wrong number of arguments in call to 'builtin-function:append'"},
	{"slice-order", func(a string) string { return "t := [" + a + ", 2, 3][2:1]" }, "invalid slice index: 2 > 1"},
	{"slice-type", func(a string) string { return "t := [" + a + "][\"a\":]" }, "invalid slice index type: string"},
	{"spread-non-array", func(a string) string { return "g := func(...z) { return z }; t := g(" + a + "...)" }, "not an array: int"},
	{"selector-assign-nonmap", func(a string) string { return "q := " + a + "; q.field = 1" }, "not index-assignable: int"},
	{"nested-selector-assign", func(a string) string { return "q := {a: " + a + "}; q.a.b.c = 1" }, "not indexable: int"},
	{"if-cond", func(a string) string { return "if " + a + " < \"s\" {\n  t := 1\n}" }, "invalid operation: int < string"},
	{"for-cond", func(a string) string { return "for i := 0; i < [" + a + "]; i++ {\n  t := i\n}" }, "invalid operation: int < array"},
	{"call-arg", func(a string) string { return "g := func(x) { return x }; t := g(g(" + a + ") * \"z\")" }, "invalid operation: int * string"},
	{"error-index", func(a string) string { return "e := error(" + a + "); t := e.other" }, "invalid index on error"},
	{"compound-assign", func(a string) string { return "q := [" + a + "]; q[0] += {}" }, "invalid operation: int + map"},
	{"range-step", func(a string) string { return "t := range(0, " + a + " + 5, 0)" }, "range step must be greater than 0"},
	{"splice-oob", func(a string) string { return "t := splice([" + a + "], 5)" }, "index out of bounds"},
	{"delete-nonmap", func(a string) string { return "delete([" + a + "], \"k\")" }, "invalid type for argument 'first' in call to 'builtin-function:delete'"},
	{"userfn-error", func(a string) string { return "t := hostfail(" + a + ")" }, "host failure"},
	{"userfn-argtype", func(a string) string { return "t := hostfail(\"s\")" }, "invalid type for argument 'first' in call to 'user-function:hostfail'"},
	{"userfn-wrongargs", func(a string) string { return "t := hostfail(" + a + ", 2)" }, "wrong number of arguments in call to 'user-function:hostfail'"},
}

type c14HostErr struct{ Code int }

func (e *c14HostErr) Error() string { return fmt.Sprintf("host failure %d", e.Code) }

func c14HostFns() (map[string]ref.Value, map[string]tengo.Object) {
	hf := &ref.HostFn{Name: "hostfail", F: func(a []ref.Value) (ref.Value, error) {
		if len(a) != 1 {
			return nil, ref.ErrWrongArgs{}
		}
		i, ok := a[0].(ref.Int)
		if !ok {
			return nil, ref.ErrArgType{Name: "first", Expected: "int", Found: ref.TypeName(a[0])}
		}
		return nil, &c14HostErr{Code: int(i)}
	}}
	return map[string]ref.Value{"hostfail": hf}, map[string]tengo.Object{"hostfail": toTengo(hf, nil)}
}

// deadShapes are bodies that contain removable dead code before the live call.
var c14DeadShapes = []string{
	"if § < -100 { return 0; z := 1 }\n",
	"if § < -100 { return 0 } else if § < -200 { return 1 }\n",
	"for i := 0; i < 1; i++ { if i > 5 { return i; i = 3 }; continue; z := i }\n",
	"w := § > 0 || § < 0 || true\n",
	"g := func() { return 1; return 2 }\n",
	"",
	"",
}

// build constructs a failing program with a call chain of the given depth.
func c14Build(rng *rand.Rand, f c14Fail, depth int, inModule bool) (main string, mod string) {
	var sb strings.Builder
	// innermost
	name := func(i int) string { return fmt.Sprintf("fn%d", i) }
	body := func(i int, inner string) string {
		var b strings.Builder
		b.WriteString(fmt.Sprintf("%s := func(a) {\n", name(i)))
		b.WriteString("  " + strings.ReplaceAll(pick(rng, c14DeadShapes), "§", "a"))
		if rng.Intn(3) == 0 {
			b.WriteString("  u := a * 2; v := u + 1\n")
		}
		b.WriteString("  " + strings.ReplaceAll(inner, "\n", "\n  ") + "\n")
		b.WriteString("  return a\n  a = a + 1\n}\n")
		return b.String()
	}
	sb.WriteString(body(depth, f.stmt("a")))
	for i := depth - 1; i >= 0; i-- {
		call := pick(rng, []string{
			"r := " + name(i+1) + "(a + 1)",
			"r := [1, " + name(i+1) + "(a)][1]",
			"r := 1 +\n    " + name(i+1) + "(a)",
			"x := 1; r := " + name(i+1) + "(a); y := 2",
			"r := {k: " + name(i+1) + "(a)}.k",
			"if " + name(i+1) + "(a) > 0 {\n  r := 1\n}",
			"r := (func() { return " + name(i+1) + "(a) })() + 0",
		})
		sb.WriteString(body(i, call))
	}
	defs := sb.String()
	if !inModule {
		pre := gen.Generate(gen.New(rng, gen.Options{MaxStmts: 1 + rng.Intn(5), MaxDepth: 2})).Src
		return pre + defs + pick(rng, []string{"res := fn0(3)\n", "p := 1; res := fn0(3); q := 2\n", "res := [fn0(3)]\n", "for k := 0; k < 2; k++ {\n  res := fn0(k)\n}\n"}), ""
	}
	mod = defs + "export {run: fn0}\n"
	// also: the calling statement is the very first byte of its file (main, or a module in between)
	main = pick(rng, []string{"m := import(\"pmod\")\nres := m.run(3)\n", "m := import(\"pmod\")\np := 1; res := m.run(3)\n", "import(\"pmod\").run(3)\n", "import(\"pmod2\")\n", "q := import(\"pmod2\")\n"})
	return
}

// a module whose first statement, at offset 0 of its file, calls into pmod
const c14Mod2 = "import(\"pmod\").run(3)\nexport 1\n"

func (c *c14) RunCase(r *fw.Rec, cs fw.Case) {
	rng := cs.Rng("c14")
	hostM, hostE := c14HostFns()
	var src, mod string
	kind := ""
	wantMsg := ""
	family := cs.Index % 4
	switch {
	case family <= 1:
		f := c14Fails[(cs.Index/4)%len(c14Fails)]
		if rng.Intn(3) == 0 {
			f = pick(rng, c14Fails)
		}
		for family == 1 && strings.HasPrefix(f.kind, "userfn") {
			f = pick(rng, c14Fails) // host functions are not visible inside a module
		}
		depth := rng.Intn(13)
		src, mod = c14Build(rng, f, depth, family == 1)
		kind, wantMsg = "planted:"+f.kind, f.msg
	case family == 2:
		opts := gen.Options{MaxStmts: 4 + rng.Intn(14), MaxDepth: 2 + rng.Intn(3), ErrRate: 0.05, ControlHeavy: rng.Intn(2) == 0, CallDefined: true}
		src = gen.Generate(gen.New(rng, opts)).Src
		kind = "generated"
	default:
		c.sentinels(r, rng)
		return
	}
	r.Logf("---- source ----\n%s\n---- module ----\n%s", src, mod)
	var mmods map[string]*ref.Module
	var emods *tengo.ModuleMap
	if mod != "" {
		mmods = map[string]*ref.Module{"pmod": {Src: []byte(mod)}, "pmod2": {Src: []byte(c14Mod2)}}
		emods = tengo.NewModuleMap()
		emods.AddSourceModule("pmod", []byte(mod))
		emods.AddSourceModule("pmod2", []byte(c14Mod2))
	}
	mkIn := func() map[string]ref.Value { return map[string]ref.Value{"hostfail": hostM["hostfail"]} }
	model := ref.Run(ref.Program{Src: []byte(src), Inputs: mkIn, Mods: mmods, Cfg: ref.DefaultConfig()}, cs.Seed+int64(cs.Index))
	if model.Kind == "unspecified" {
		r.Inc("discarded(unspecified)")
		return
	}
	eng := runEngine([]byte(src), engineOpts{Inputs: map[string]tengo.Object{"hostfail": hostE["hostfail"]}, Mods: emods, Budget: 5_000_000, MaxAllocs: 3_000_000})
	r.Eval()
	r.Inc("kind:" + strings.SplitN(kind, ":", 2)[0])
	if strings.HasPrefix(kind, "planted") {
		r.Inc("planted-outcome:" + eng.Phase + ":" + trunc(eng.Err, 40))
	}
	detail := map[string]interface{}{"source": src, "module": mod, "kind": kind, "engine_error": eng.FullErr, "model": map[string]interface{}{"kind": model.Kind, "error": model.Err, "stack": model.Stack}}
	if eng.Phase == "aborted" || strings.Contains(eng.Err, "allocation limit") {
		r.Inconc("budget")
		return
	}
	if eng.Phase == "panic" {
		detail["stack"] = trunc(eng.FullErr, 2500)
		r.Violate("panic", "engine panicked", detail)
		return
	}
	if strings.HasPrefix(kind, "planted") {
		if eng.Phase == "ok" && model.Kind == "ok" {
			r.Violate("planted-not-failing:"+kind, "the planted failing operation did not fail (harness defect)", detail)
			return
		}
		if eng.Phase == "runtime-error" && strings.Contains(eng.Err, wantMsg) {
			r.Inc("planted-reached")
		}
	}
	if eng.Phase != model.Kind {
		r.Violate("kind-differs", fmt.Sprintf("engine %s, model %s", eng.Phase, model.Kind), detail)
		return
	}
	if eng.Phase != "runtime-error" {
		r.Inc("no-failure")
		return
	}
	if model.GoPanic {
		r.Inc("go-panic(no position)")
		return
	}
	if normRuntimeErr(eng.Err) != normRuntimeErr(model.Err) {
		r.Violate("message-differs", "engine and model fail with different errors", detail)
		return
	}
	if !strings.HasPrefix(eng.FullErr, "Runtime Error: ") {
		r.Violate("prefix-missing", "a VM-reported failure lacks the 'Runtime Error:' prefix", detail)
		return
	}
	pos := errPositions(eng.FullErr)
	r.Inc(fmt.Sprintf("trace-frames:%02d", len(pos)))
	if len(pos) != len(model.Stack) {
		detail["engine_frames"] = len(pos)
		detail["model_frames"] = len(model.Stack)
		r.Violate("frame-count", "the trace does not list one location per active call", detail)
		return
	}
	for i, p := range pos {
		sp := model.Stack[i]
		inside := p.file == sp.File && within(p.line, p.col, sp)
		if !inside {
			detail["frame"] = i
			detail["reported"] = fmt.Sprintf("%s:%d:%d", p.file, p.line, p.col)
			detail["statement_span"] = fmt.Sprintf("%s:%d:%d - %d:%d", sp.File, sp.Line, sp.Col, sp.EndLine, sp.EndCol)
			sig := "position:outer-frame"
			if i == 0 {
				sig = "position:innermost"
			}
			r.Violate(sig, "a reported location lies outside the statement that was executing", detail)
			return
		}
	}
	r.Inc("traces-checked")
	if len(pos) >= 2 {
		r.Distinct(src, mod)
	}
	// unwrapping of a host error through the decoration
	if strings.Contains(kind, "userfn-error") && strings.Contains(eng.Err, "host failure") {
		var he *c14HostErr
		if !errors.As(eng.ErrVal, &he) {
			r.Violate("unwrap:host-error", "a host function's error is not recognisable through errors.As", detail)
			return
		}
		r.Inc("unwrap-checked:host")
	}
	// the two argument errors a host function may return are reworded by the VM but must stay reachable
	if strings.Contains(kind, "userfn-argtype") && strings.Contains(eng.Err, "invalid type for argument") {
		var at tengo.ErrInvalidArgumentType
		if !errors.As(eng.ErrVal, &at) || at.Name != "first" {
			r.Violate("unwrap:host-ErrInvalidArgumentType", "the ErrInvalidArgumentType a host function returned is not recognisable through errors.As", detail)
			return
		}
		r.Inc("unwrap-checked:host-argtype")
	}
	if strings.Contains(kind, "userfn-wrongargs") && strings.Contains(eng.Err, "wrong number of arguments") {
		if !errors.Is(eng.ErrVal, tengo.ErrWrongNumArguments) {
			r.Violate("unwrap:host-ErrWrongNumArguments", "the ErrWrongNumArguments a host function returned is not recognisable through errors.Is", detail)
			return
		}
		r.Inc("unwrap-checked:host-wrongargs")
	}
	if strings.Contains(eng.Err, "index out of bounds") {
		if !errors.Is(eng.ErrVal, tengo.ErrIndexOutOfBounds) {
			r.Violate("unwrap:ErrIndexOutOfBounds", "ErrIndexOutOfBounds is not recognisable through errors.Is", detail)
			return
		}
		r.Inc("unwrap-checked:ErrIndexOutOfBounds")
	}
	if r.WantSample() && len(pos) >= 3 && len(src) < 900 {
		r.Sample(map[string]interface{}{"source": src, "module": mod, "error": eng.FullErr})
	}
}

func within(line, col int, sp ref.Span) bool {
	if line < sp.Line || (line == sp.Line && col < sp.Col) {
		return false
	}
	if line > sp.EndLine || (line == sp.EndLine && col > sp.EndCol) {
		return false
	}
	return true
}

// sentinels provokes the engine's sentinel errors at random call depth.
// allocLimitPositions: a program whose allocating statements (even lines) alternate with statements
// that allocate nothing (odd lines) is run under every small allocation budget; whenever the budget
// runs out, the innermost reported location must be on an allocating line, in main and in a function.
func (c *c14) allocLimitPositions(r *fw.Rec, rng *rand.Rand) {
	lits := []string{"{}", "[]", "{k: 1}", "[1, 2]", "{}", "[]", "immutable([])", "func() { return 1 }"}
	var sb strings.Builder
	inFn := rng.Intn(2) == 0
	ind := ""
	first := 1
	if inFn {
		sb.WriteString("f := func(p) {\n")
		ind = "  "
		first = 2
	}
	n := 3 + rng.Intn(4)
	for i := 0; i < n; i++ {
		sb.WriteString(fmt.Sprintf("%sa%d := %d\n", ind, i, i))               // allocates nothing
		sb.WriteString(fmt.Sprintf("%sv%d := %s\n", ind, i, pick(rng, lits))) // allocates
	}
	if inFn {
		sb.WriteString("  return 0\n}\nr := f(1)\n")
	}
	src := sb.String()
	for budget := int64(1); budget <= int64(n)+2; budget++ {
		eng := runEngine([]byte(src), engineOpts{Budget: 1_000_000, MaxAllocs: budget})
		r.Eval()
		if eng.Phase != "runtime-error" || !errors.Is(eng.ErrVal, tengo.ErrObjectAllocLimit) {
			continue
		}
		r.Inc("alloc-limit-positions-checked")
		pos := errPositions(eng.FullErr)
		detail := map[string]interface{}{"source": src, "MaxAllocs": budget, "engine_error": eng.FullErr}
		if len(pos) == 0 {
			r.Violate("alloc-limit-position:missing", "an allocation-limit failure carries no location", detail)
			return
		}
		line := pos[0].line
		allocLine := line >= first+1 && line <= first+2*n-1+1 && (line-first)%2 == 1
		if inFn && line == 2*n+4 {
			allocLine = true // the call r := f(1) itself
		}
		if !allocLine {
			detail["innermost"] = fmt.Sprintf("%d:%d", pos[0].line, pos[0].col)
			r.Violate("alloc-limit-position:wrong-statement", "an allocation-limit failure is reported at a statement that allocates nothing", detail)
			return
		}
	}
	r.Distinct(src)
}

// c14WrapErr is an embedder's own error type that wraps a cause (possibly one of the engine's own error values).
type c14WrapErr struct {
	Code  int
	Inner error
}

func (e *c14WrapErr) Error() string { return fmt.Sprintf("host wrapper %d: %v", e.Code, e.Inner) }
func (e *c14WrapErr) Unwrap() error { return e.Inner }

// hostErrorChains: a host function fails with an error chain of its own making — its own type, its own type around an
// engine error value, fmt.Errorf("%w") around either — at some call depth. Every link must stay reachable through
// errors.Is / errors.As in the error the run returns.
func (c *c14) hostErrorChains(r *fw.Rec, rng *rand.Rand) {
	argT := tengo.ErrInvalidArgumentType{Name: "first", Expected: "int", Found: "string"}
	plain := &c14HostErr{Code: 7}
	type shape struct {
		name   string
		err    error
		isAll  []error // errors.Is targets
		asHost bool    // errors.As(*c14HostErr)
		asWrap bool    // errors.As(*c14WrapErr)
		asArgT bool    // errors.As(ErrInvalidArgumentType)
	}
	shapes := []shape{
		{"own type", plain, nil, true, false, false},
		{"own type around ErrWrongNumArguments", &c14WrapErr{1, tengo.ErrWrongNumArguments}, []error{tengo.ErrWrongNumArguments}, false, true, false},
		{"own type around ErrInvalidArgumentType", &c14WrapErr{2, argT}, nil, false, true, true},
		{"own type around ErrIndexOutOfBounds", &c14WrapErr{3, tengo.ErrIndexOutOfBounds}, []error{tengo.ErrIndexOutOfBounds}, false, true, false},
		{"own type around ErrStringLimit", &c14WrapErr{4, tengo.ErrStringLimit}, []error{tengo.ErrStringLimit}, false, true, false},
		{"own type around ErrObjectAllocLimit", &c14WrapErr{5, tengo.ErrObjectAllocLimit}, []error{tengo.ErrObjectAllocLimit}, false, true, false},
		{"own type around own type", &c14WrapErr{6, plain}, []error{plain}, true, true, false},
		{"%w around own type", fmt.Errorf("ctx: %w", plain), []error{plain}, true, false, false},
		{"%w around ErrInvalidArgumentType", fmt.Errorf("ctx: %w", argT), nil, false, false, true},
		{"%w around ErrWrongNumArguments", fmt.Errorf("ctx: %w", tengo.ErrWrongNumArguments), []error{tengo.ErrWrongNumArguments}, false, false, false},
		{"own type around %w around ErrInvalidArgumentType", &c14WrapErr{7, fmt.Errorf("deep: %w", argT)}, nil, false, true, true},
		{"bare ErrWrongNumArguments", tengo.ErrWrongNumArguments, []error{tengo.ErrWrongNumArguments}, false, false, false},
		{"bare ErrInvalidArgumentType", argT, nil, false, false, true},
	}
	sh := pick(rng, shapes)
	depth := rng.Intn(6)
	var sb strings.Builder
	sb.WriteString("f0 := func(a) {\n  r := hostchain(a)\n  return r\n}\n")
	for i := 1; i <= depth; i++ {
		sb.WriteString(fmt.Sprintf("f%d := func(a) { if a < -5 { return 0 }; r := f%d(a); return r }\n", i, i-1))
	}
	sb.WriteString(fmt.Sprintf("res := f%d(1)\n", depth))
	src := sb.String()
	fn := &tengo.UserFunction{Name: "hostchain", Value: func(args ...tengo.Object) (tengo.Object, error) { return nil, sh.err }}
	eng := runEngine([]byte(src), engineOpts{Budget: 1_000_000, Inputs: map[string]tengo.Object{"hostchain": fn}})
	r.Eval()
	r.Inc("kind:host-error-chain")
	detail := map[string]interface{}{"source": src, "host_error_shape": sh.name, "host_error": sh.err.Error(), "engine_error": eng.FullErr, "depth": depth}
	if eng.Phase != "runtime-error" || eng.ErrVal == nil {
		detail["phase"] = eng.Phase
		r.Violate("host-chain-no-error", "a failing host function did not fail the run", detail)
		return
	}
	for _, t := range sh.isAll {
		if !errors.Is(eng.ErrVal, t) {
			detail["target"] = t.Error()
			r.Violate("unwrap:host-chain:is:"+sh.name, "a link of a host function's error chain is not recognisable through errors.Is", detail)
			return
		}
	}
	if sh.asHost {
		var he *c14HostErr
		if !errors.As(eng.ErrVal, &he) || he.Code != 7 {
			r.Violate("unwrap:host-chain:as-own:"+sh.name, "a host function's own error type is not recognisable through errors.As", detail)
			return
		}
	}
	if sh.asWrap {
		var we *c14WrapErr
		if !errors.As(eng.ErrVal, &we) {
			r.Violate("unwrap:host-chain:as-wrapper:"+sh.name, "a host function's own wrapping error type is not recognisable through errors.As", detail)
			return
		}
	}
	if sh.asArgT {
		var at tengo.ErrInvalidArgumentType
		if !errors.As(eng.ErrVal, &at) || at.Name != "first" {
			r.Violate("unwrap:host-chain:as-argtype:"+sh.name, "the ErrInvalidArgumentType inside a host function's error chain is not recognisable through errors.As", detail)
			return
		}
	}
	r.Inc("unwrap-checked:host-chain")
	r.Distinct(src, sh.name)
}

func (c *c14) sentinels(r *fw.Rec, rng *rand.Rand) {
	if rng.Intn(5) == 0 {
		c.allocLimitPositions(r, rng)
		return
	}
	if rng.Intn(3) == 0 {
		c.hostErrorChains(r, rng)
		return
	}
	depth := rng.Intn(8)
	wrap := func(inner string) string {
		var sb strings.Builder
		sb.WriteString("f0 := func(a) {\n  " + inner + "\n  return a\n}\n")
		for i := 1; i <= depth; i++ {
			sb.WriteString(fmt.Sprintf("f%d := func(a) { if a < -5 { return 0 }; r := f%d(a); return r }\n", i, i-1))
		}
		sb.WriteString(fmt.Sprintf("res := f%d(1)\n", depth))
		return sb.String()
	}
	type probe struct {
		name     string
		src      string
		sentinel error
		allocs   int64
		strLimit int
		bytLimit int
	}
	probes := []probe{
		{"ErrObjectAllocLimit", wrap("x := []; for i := 0; i < 1000; i++ { x = [i, a + i] }"), tengo.ErrObjectAllocLimit, 50, 0, 0},
		{"ErrStackOverflow", wrap("g := func() { g(); return 1 }; t := g()"), tengo.ErrStackOverflow, 0, 0, 0},
		{"ErrIndexOutOfBounds", wrap("q := [a]; q[5] = 1"), tengo.ErrIndexOutOfBounds, 0, 0, 0},
		{"ErrIndexOutOfBounds(splice)", wrap("t := splice([a], 9)"), tengo.ErrIndexOutOfBounds, 0, 0, 0},
		{"ErrStringLimit", wrap("s := \"abcdefgh\"; for i := 0; i < 10; i++ { s += s }"), tengo.ErrStringLimit, 0, 64, 0},
		{"ErrStringLimit(format)", wrap("s := format(\"%100d\", a)"), tengo.ErrStringLimit, 0, 64, 0},
		{"ErrBytesLimit", wrap("b := bytes(\"abcdefgh\"); for i := 0; i < 10; i++ { b += b }"), tengo.ErrBytesLimit, 0, 0, 64},
		{"ErrBytesLimit(bytes(n))", wrap("b := bytes(1000)"), tengo.ErrBytesLimit, 0, 0, 64},
	}
	p := pick(rng, probes)
	oldS, oldB := tengo.MaxStringLen, tengo.MaxBytesLen
	if p.strLimit > 0 {
		tengo.MaxStringLen = p.strLimit
	}
	if p.bytLimit > 0 {
		tengo.MaxBytesLen = p.bytLimit
	}
	defer func() { tengo.MaxStringLen, tengo.MaxBytesLen = oldS, oldB }()
	eng := runEngine([]byte(p.src), engineOpts{Budget: 20_000_000, MaxAllocs: p.allocs})
	r.Eval()
	r.Inc("kind:sentinel")
	detail := map[string]interface{}{"source": p.src, "sentinel": p.name, "engine_error": eng.FullErr, "depth": depth}
	if eng.Phase != "runtime-error" {
		detail["phase"] = eng.Phase
		r.Violate("sentinel-no-error:"+p.name, "a limit was exceeded but the run did not end with an error", detail)
		return
	}
	if !errors.Is(eng.ErrVal, p.sentinel) {
		r.Violate("unwrap:"+p.name, "a sentinel error is not recognisable through errors.Is", detail)
		return
	}
	r.Inc("unwrap-checked:" + strings.SplitN(p.name, "(", 2)[0])
	// the trace has depth+... frames: main + (depth+1) functions (+ the recursion for stack overflow)
	pos := errPositions(eng.FullErr)
	if p.name != "ErrStackOverflow" && len(pos) != depth+2 {
		detail["frames"] = len(pos)
		detail["want_frames"] = depth + 2
		r.Violate("sentinel-frames:"+p.name, "the trace of a sentinel failure does not list one location per active call", detail)
		return
	}
	// innermost position must be on the line of the failing statement (line 2 of f0)
	if len(pos) > 0 && p.name != "ErrStackOverflow" && pos[0].line != 2 {
		detail["innermost"] = fmt.Sprintf("%d:%d", pos[0].line, pos[0].col)
		r.Violate("sentinel-position:"+p.name, "a sentinel failure is reported away from the failing statement", detail)
		return
	}
	r.Distinct(p.src)
}

func (c *c14) Finish(m *fw.Merged, tier string) {
	for _, k := range []string{"planted-reached", "kind:planted", "kind:generated", "kind:sentinel", "traces-checked", "unwrap-checked:host", "unwrap-checked:host-chain", "unwrap-checked:ErrIndexOutOfBounds", "unwrap-checked:ErrObjectAllocLimit",
		"unwrap-checked:ErrStackOverflow", "unwrap-checked:ErrStringLimit", "unwrap-checked:ErrBytesLimit", "trace-frames:01", "trace-frames:05", "trace-frames:10"} {
		if m.Counters[k] == 0 {
			m.Fail("never observed: " + k)
		}
	}
}
