package props

import (
	"context"
	"fmt"
	"math/rand"
	"os"
	"os/exec"
	"runtime"
	"runtime/debug"
	"sort"
	"strings"
	"syscall"
	"time"

	"github.com/d5/tengo/v2"
	"github.com/d5/tengo/v2/stdlib"

	"verif/fw"
	"verif/gen"
)

// C05 — no script can take the host down through the context-aware run path.
type c05 struct{}

func init() { fw.Register(&c05{}) }

func (*c05) ID() string    { return "C05" }
func (*c05) Level() string { return "exploration" }
func (*c05) NumCases(tier string) int {
	if tier == "thorough" {
		return 400000
	}
	return 20000
}
func (*c05) Config(tier string) fw.Config { return fw.Config{CaseTimeout: 60 * time.Second} }
func (*c05) Rule() string {
	return "each case = one hostile program: a generated skeleton into which a failure atom is planted at a random place (top level, inside a closure, a loop, a for-in body, a call argument, a module function): every binary operator on every ordered pair of the 16 runtime types, every unary operator on every type, " +
		"index/slice/selector reads and writes on every type with every index type and extreme indices, calls of non-callables, wrong arity, spread of non-arrays and of 5000-element arrays, thin/fat/mutual runaway recursion, operand-stack exhaustion, mutation of arrays/maps while iterating them, every builtin with every argument type and arity 0..4, " +
		"extreme bytes()/range()/splice()/format() arguments, immutable writes; plus generated programs with a 15% ill-typed rate. Each runs through Compiled.RunContext under recover with instruction and allocation budgets; afterwards the monitor walks all globals for Go-nil objects, exercises Get/GetAll/IsDefined/Set/Clone/Variable.String/Value and a second RunContext under a watchdog. " +
		"Process-fatal outcomes are caught by the driver (worker death) or, for the recorded cyclic-container probes, by a dedicated child process. distinct = distinct source; non-trivial = the run ended with an error"
}
func (*c05) Assumptions() []string {
	return []string{
		"unbounded single allocations (bytes(2^31-1)) and memory bombs are outside the claim and not generated; every run has an instruction budget and an allocation budget",
		"cyclic containers are a recorded finding (fatal Go stack overflow in String/Equals/Copy): probed by exact inputs in a child process, never produced by the generator",
	}
}

var c05Vals = []string{"1", "-3", "2.5", "true", "'c'", "\"str\"", "bytes(\"by\")", "[1, 2]", "{k: 1}", "immutable([1])", "immutable({k: 1})", "error(\"e\")", "undefined", "time(5)", "func(x) { return x }", "len", "[]", "{}", "\"\"", "0", "9223372036854775807", "-9223372036854775808"}

var c05BinOps = []string{"+", "-", "*", "/", "%", "&", "|", "^", "&^", "<<", ">>", "<", "<=", ">", ">=", "==", "!=", "&&", "||"}

var c05Builtins = []string{"len", "copy", "append", "delete", "splice", "string", "int", "bool", "float", "char", "bytes", "time", "is_int", "is_float", "is_string", "is_bool", "is_char", "is_bytes", "is_array",
	"is_immutable_array", "is_map", "is_immutable_map", "is_iterable", "is_time", "is_error", "is_undefined", "is_function", "is_callable", "type_name", "format", "range", "freeze"}

// atom returns one hostile statement (possibly several joined by ';').
func c05Atom(r *rand.Rand, idx int) string {
	v := func() string { return pick(r, c05Vals) }
	switch k := idx % 24; k {
	case 0, 1, 2:
		// systematic operator x type x type sweep
		n := idx / 24
		a := c05Vals[n%len(c05Vals)]
		b := c05Vals[(n/len(c05Vals))%len(c05Vals)]
		op := c05BinOps[(n/(len(c05Vals)*len(c05Vals))+k)%len(c05BinOps)]
		return fmt.Sprintf("h := (%s) %s (%s)", a, op, b)
	case 3:
		return fmt.Sprintf("h := %s(%s)", pick(r, []string{"-", "^", "!", "+"}), v())
	case 4:
		return fmt.Sprintf("h := (%s)[%s]", v(), pick(r, []string{v(), "0", "-1", "99999999999", "-9223372036854775808", "\"k\"", "\"value\"", "1.5"}))
	case 5:
		return fmt.Sprintf("h := (%s)[%s:%s]", v(), pick(r, []string{"", "0", "-5", "9223372036854775807", v()}), pick(r, []string{"", "1", "-9223372036854775808", "99", v()}))
	case 6:
		return fmt.Sprintf("t := %s; t%s = %s", v(), pick(r, []string{"[0]", "[-1]", "[9223372036854775807]", ".k", "[\"k\"][0]", ".a.b.c", "[1.5]", "[\"1\"]", "[true]", "[undefined]", "[[1]]"}), v())
	case 7:
		return fmt.Sprintf("t := %s; t%s %s %s", v(), pick(r, []string{"[0]", ".k", ""}), pick(r, []string{"+=", "-=", "*=", "/=", "%=", "<<=", ">>=", "&^="}), v())
	case 8:
		return fmt.Sprintf("h := (%s)(%s)", v(), pick(r, []string{"", v(), v() + ", " + v(), v() + "..."}))
	case 9:
		return fmt.Sprintf("g := func(a, b) { return a }; h := g(%s)", pick(r, []string{"", "1", "1, 2, 3", "[1, 2]...", "[1]...", v() + "...", "1, [2, 3, 4]..."}))
	case 10:
		return pick(r, []string{
			"g := func(...a) { return len(a) }; h := g(range(0, 5000)...)",
			"g := func(a, ...b) { return b }; h := g([]...)",
			"g := func(...a) { return g(append(a, 1, 2, 3)...) }; h := g()",
			"h := [range(0, 3000)...]",
		})
	case 11:
		return pick(r, []string{
			"f := func() { f(); return 1 }; h := f()",
			"f := func(n) { return 1 + f(n + 1) }; h := f(0)",
			"f := func(a, b, c, d, e, g) { return [a, b, c, d, e, g, f(a, b, c, d, e, g)] }; h := f(1, 2, 3, 4, 5, 6)",
			"p := undefined; q := func() { p(); return 0 }; p = func() { q(); return 0 }; h := p()",
			"f := func(n) { return [n, [n, [n, [n, [n, f(n + 1)]]]]] }; h := f(0)",
			"f := func(n) { x := {a: n}; return x.a + f(n + 1) }; h := f(0)",
			"mk := func() { r := func(n) { return n && r(n) + 1 }; return r }; h := mk()(1)",
			"f := func(x) { return f(x) }; h := f(0)",
			"f := func() { f() }; f()",
			"f := func(x) { return x && f(x) }; h := f(1)",
			"f := func(x) { return f(x + 1) }; h := f(0)",
		})
	case 12:
		return pick(r, []string{
			"m := {a: 1, b: 2, c: 3, d: 4}; acc := []; for k, v in m { delete(m, \"a\"); delete(m, \"b\"); delete(m, \"c\"); delete(m, \"d\"); acc = append(acc, v) }; h := string(acc)",
			"m := {a: 1, b: 2}; for k, v in m { m[k + \"x\"] = v; m = {} }",
			"a := [1, 2, 3, 4]; for i, v in a { splice(a, 0); a = append(a, v) }; h := a",
			"a := [1, 2, 3]; for v in a { a = a[:0]; splice(a) }; h := string(a)",
			"a := [1, 2, 3]; n := 0; for v in a { if n < 50 { a = append(a, v); n++ } }; h := len(a)",
			"m := {a: [1]}; for k, v in m { v[0] = m; delete(m, k) }",
			"b := bytes(\"abc\"); for i, v in b { b = bytes(0) }; s := \"héllo\"; for i, c in s { s = \"\" }",
			"m := {a: 1, b: 2, c: 3}; out := {}; for k, v in m { delete(m, \"c\"); delete(m, \"b\"); delete(m, \"a\"); out[k] = v }; h := out",
		})
	case 13, 14, 15:
		// every builtin with every argument type, arity 0..4
		b := c05Builtins[(idx/24)%len(c05Builtins)]
		n := r.Intn(5)
		var args []string
		for i := 0; i < n; i++ {
			args = append(args, v())
		}
		if b == "range" && len(args) >= 2 {
			// astronomically long ranges are the recorded finding (probed separately): keep the others
			for i, a := range args {
				if i < 2 && (a == "9223372036854775807" || a == "-9223372036854775808") {
					args[i] = "77"
				}
			}
		}
		return fmt.Sprintf("h := %s(%s)", b, strings.Join(args, ", "))
	case 16:
		return pick(r, []string{"h := bytes(-1)", "h := bytes(-9223372036854775808)", "h := range(0, 100000)", "h := range(9223372036854775807, 9223372036854775800)", "h := range(-9223372036854775808, -9223372036854775800, 3)",
			"h := range(0, 10, 9223372036854775807)", "h := range(0, 9223372036854775807, 9223372036854775806)", "h := range(1, 9223372036854775807, 9223372036854775807)", "h := range(0, -9223372036854775807 - 1, 9223372036854775807)", "h := range(5, -9223372036854775807 - 1, 9223372036854775806)", "h := range(-9223372036854775807, -9223372036854775807 - 1, 3)", "h := range(9223372036854775806, 9223372036854775807, 5)", "h := range(-9223372036854775800, -9223372036854775807 - 1, 5)", "h := range(9223372036854775800, 9223372036854775807)", "h := splice([1, 2, 3], 9223372036854775807)", "h := splice([1, 2, 3], 1, 9223372036854775807)",
			"h := splice([1, 2, 3], 3, 1, 1)", "h := splice([1, 2, 3], -1)", "h := char(9223372036854775807)", "h := char(-1) + 1", "h := time(9223372036854775807)", "h := string(time(-9223372036854775808))", "h := int(1e300)", "h := int(\"9223372036854775808\", 1)",
			"h := 1 << 9223372036854775807", "h := -9223372036854775808 / -1", "h := -9223372036854775808 % -1", "h := 1 / 0", "h := 1 % 0", "h := 1.0 / 0", "h := 'a' - 9223372036854775807"})
	case 17:
		return fmt.Sprintf("h := format(%s, %s)", pick(r, []string{"\"%d\"", "\"%*d\"", "\"%.*f\"", "\"%[5]d\"", "\"%!\"", "\"%\"", "\"%9999999d\"", "\"%1000001d\"", "\"%-1000000d\"", "\"%v %v %v\"", "\"%T %q %x %X %U %c\"", "\"%[2]*[1]d\"", "\"%.1000000f\"", "\"%#v %+v\"", "\"%s\""}), pick(r, []string{v(), v() + ", " + v(), "-1, 5", "1000000, 1"}))
	case 18:
		return pick(r, []string{"t := immutable([1, [2]]); t[0] = 1", "t := immutable({a: 1}); t.a = 2", "t := immutable({a: 1}); delete(t, \"a\")", "t := immutable([1]); splice(t)", "t := freeze({a: [1]}); t.a[0] = 1", "t := error(1); t.value = 2", "t := error(1); h := t.nope",
			"t := error(error(error(1))); h := t.value.value.value.value", "t := \"str\"; t[0] = 'x'", "t := bytes(\"ab\"); t[0] = 1", "t := 5; t.x.y = 1", "t := undefined; t.x = 1", "t := len; t.x = 1"})
	case 19:
		return pick(r, []string{"for x in 5 { }", "for x in true { }", "for k, v in func() {} { }", "for x in undefined { h := x }", "for x in error(1) { }", "for i := 0; i < \"s\"; i++ { }", "for i := 0; [1] ; i++ { break }", "if func() {} { h := 1 }",
			"h := undefined.a.b.c.d[1][2][\"x\"]", "h := [[[[1]]]][0][0][0][0][0]", "h := {a: {b: {}}}.a.b.c.d.e", "h := true ? undefined() : 1", "h := false || undefined.x()", "x := 1; x = x(x)"})
	case 20:
		// deep but finite structures
		return pick(r, []string{
			"a := []; for i := 0; i < 200; i++ { a = [a] }; h := string(a); c := copy(a); e := a == c",
			"m := {}; for i := 0; i < 200; i++ { m = {k: m} }; h := string(m); c := copy(m); e := m == c; fz := freeze(m)",
			"s := \"\"; for i := 0; i < 3000; i++ { s += \"ab\" }; h := len(s); t := s[1:5000]; u := bytes(s)",
			"a := range(0, 1000); b := a + a + a; splice(b, 10, 2000); h := len(b)",
		})
	case 21, 22:
		// every function of the standard-library modules with hostile arguments (wrong types, wrong arity, arguments
		// outside the domain of the wrapped Go function, which then panics — with a runtime.Error or with a plain string)
		mod := c05StdMods[(idx/24)%len(c05StdMods)]
		fns := c05ModuleFuncs(mod)
		fn := fns[(idx/24/len(c05StdMods)+r.Intn(len(fns)))%len(fns)]
		n := r.Intn(5)
		var args []string
		for i := 0; i < n; i++ {
			if r.Intn(2) == 0 {
				args = append(args, pick(r, []string{"-1", "0", "1", "2", "37", "64", "-9223372036854775808", "9223372036854775807", "4611686018427387904", "3000000000", "\"\"", "\"(\"", "\"%\"", "\"ab\"", "\"x\"", "'f'", "1.5e308", "-0.0"}))
			} else {
				args = append(args, v())
			}
		}
		if mod == "rand" && (fn == "perm" || fn == "read") || mod == "times" && fn == "sleep" {
			// a huge but legal permutation / a long sleep is unbounded allocation / a long native call, outside the claim
			for i := range args {
				args[i] = pick(r, []string{"-1", "0", "3", "\"x\"", "[]", "undefined"})
			}
		}
		return fmt.Sprintf("md := import(%q); h := md.%s(%s)", mod, fn, strings.Join(args, ", "))
	default:
		return fmt.Sprintf("h := %s %s %s %s %s", v(), pick(r, c05BinOps), v(), pick(r, c05BinOps), v())
	}
}

var c05StdMods = []string{"text", "math", "times", "rand", "fmt", "json", "base64", "hex", "text", "times"}

var c05ModFuncsCache = map[string][]string{}

// c05ModuleFuncs lists the callable attributes of a builtin module (fmt's printing functions left out: they write to
// the worker's stdout).
func c05ModuleFuncs(mod string) []string {
	if f, ok := c05ModFuncsCache[mod]; ok {
		return f
	}
	var out []string
	for name, o := range stdlib.BuiltinModules[mod] {
		if !o.CanCall() || (mod == "fmt" && name != "sprintf") {
			continue
		}
		out = append(out, name)
	}
	sort.Strings(out)
	c05ModFuncsCache[mod] = out
	return out
}

func c05Wrap(r *rand.Rand, atom string) (main string, mod string) {
	switch r.Intn(11) {
	case 0:
		return "w := func() {\n  " + atom + "\n  return 1\n}\nres := w()\n", ""
	case 1:
		return "for i := 0; i < 2; i++ {\n  " + atom + "\n}\n", ""
	case 2:
		return "for k, v in {a: 1} {\n  w := func() { " + atom + " }\n  w()\n}\n", ""
	case 3:
		return "g := func(x) { return x }\nres := g((func() { " + atom + "; return 0 })())\n", ""
	case 4:
		return "m := import(\"hostile\")\nres := m.run()\n", "export {run: func() {\n  " + atom + "\n  return 1\n}}\n"
	case 5:
		return "m := import(\"hostile\")\n", atom + "\nexport 1\n"
	case 6:
		return "if true { if true { for v in [1] {\n  " + atom + "\n} } }\n", ""
	case 7:
		// the failing code sits in one of several module files (its positions are looked up among them)
		imp := []string{"f0 := import(\"fill0\")", "f1 := import(\"fill1\")", "f2 := import(\"fill2\")", "f3 := import(\"fill3\")", "f4 := import(\"fill4\")"}
		at := r.Intn(len(imp) + 1)
		lines := append(append(append([]string{}, imp[:at]...), "m := import(\"hostile\")"), imp[at:]...)
		if r.Intn(2) == 0 {
			return strings.Join(lines, "\n") + "\nres := m.run()\n", "export {run: func() {\n  " + atom + "\n  return 1\n}}\n"
		}
		return strings.Join(lines, "\n") + "\n", atom + "\nexport 1\n"
	default:
		return atom + "\n", ""
	}
}

// nilReachable finds a Go-nil Object reachable from a value.
func nilReachable(o tengo.Object, path string, depth int, seen map[tengo.Object]bool) string {
	if o == nil {
		return path + " is a Go nil Object"
	}
	if depth > 400 || seen[o] {
		return ""
	}
	switch v := o.(type) {
	case *tengo.Array:
		seen[o] = true
		for i, e := range v.Value {
			if p := nilReachable(e, fmt.Sprintf("%s[%d]", path, i), depth+1, seen); p != "" {
				return p
			}
		}
	case *tengo.ImmutableArray:
		seen[o] = true
		for i, e := range v.Value {
			if p := nilReachable(e, fmt.Sprintf("%s[%d]", path, i), depth+1, seen); p != "" {
				return p
			}
		}
	case *tengo.Map:
		seen[o] = true
		for k, e := range v.Value {
			if p := nilReachable(e, path+"."+k, depth+1, seen); p != "" {
				return p
			}
		}
	case *tengo.ImmutableMap:
		seen[o] = true
		for k, e := range v.Value {
			if p := nilReachable(e, path+"."+k, depth+1, seen); p != "" {
				return p
			}
		}
	case *tengo.Error:
		return nilReachable(v.Value, path+".value", depth+1, seen)
	}
	return ""
}

func hasCycle(o tengo.Object, stack map[tengo.Object]bool, depth int) bool {
	if o == nil || depth > 500 {
		return depth > 500
	}
	switch v := o.(type) {
	case *tengo.Array:
		if stack[o] {
			return true
		}
		stack[o] = true
		defer delete(stack, o)
		for _, e := range v.Value {
			if hasCycle(e, stack, depth+1) {
				return true
			}
		}
	case *tengo.Map:
		if stack[o] {
			return true
		}
		stack[o] = true
		defer delete(stack, o)
		for _, e := range v.Value {
			if hasCycle(e, stack, depth+1) {
				return true
			}
		}
	case *tengo.ImmutableArray:
		for _, e := range v.Value {
			if hasCycle(e, stack, depth+1) {
				return true
			}
		}
	case *tengo.ImmutableMap:
		for _, e := range v.Value {
			if hasCycle(e, stack, depth+1) {
				return true
			}
		}
	case *tengo.Error:
		return hasCycle(v.Value, stack, depth+1)
	}
	return false
}

// neverEndingWithDeadContext: a script that never ends by itself, run with a context that is already cancelled or
// expired when the call is made. The call must return (the only thing that can end this run is the cancellation), and the
// object must stay usable. The instruction budget of the probe is what keeps the harness itself from hanging: a run that
// uses it up although the context was dead from the start is re-run twice before it counts (the first instructions of a
// run may legitimately be dispatched before the caller's goroutine delivers the abort).
func (c *c05) neverEndingWithDeadContext(r *fw.Rec, rng *rand.Rand) {
	src := pick(rng, []string{"for { }", "n := 0; for { n++ }", "f := func(x) { return f(x + 1) }; h := f(0)", "f := func() { f() }; f()", "a := [1, 2, 3]; for { for v in a { a[0] = v } }",
		"g := func() { for { } }; g()", "m := import(\"hostile\"); m.spin()"})
	exhausted := 0
	var lastErr error
	for attempt := 0; attempt < 3; attempt++ {
		s := tengo.NewScript([]byte(src))
		mm := stdModules()
		mm.AddSourceModule("hostile", []byte("export {spin: func() { for { } }}\n"))
		s.SetImports(mm)
		cp, err := s.Compile()
		if err != nil {
			r.Inc("harness-compile-error")
			return
		}
		ctx, cancel := context.WithCancel(context.Background())
		cancel()
		if rng.Intn(2) == 0 {
			ctx, cancel = context.WithDeadline(context.Background(), time.Now().Add(-time.Hour))
			defer cancel()
		}
		ps := &probeState{budget: 30_000_000}
		installProbe(ps)
		done := make(chan struct{})
		viaScript := rng.Intn(3) == 0
		go func() {
			lastErr = safely(func() error {
				if viaScript {
					_, e := s.RunContext(ctx)
					return e
				}
				return cp.RunContext(ctx)
			})
			close(done)
		}()
		detail := map[string]interface{}{"source": src, "context": "cancelled / expired before the call", "via_Script.RunContext": viaScript}
		switch fw.WaitOrHang(done, 50*time.Second) {
		case "hang":
			removeProbe()
			r.Violate("no-return:dead-context", "RunContext with an already cancelled context did not return", detail)
			panic("verif: worker abandoned after a hang")
		case "inconclusive":
			fw.AbandonInconclusive("RunContext had not returned after 1000 s on a loaded machine")
		}
		removeProbe()
		r.Eval()
		if p, ok := isPanic(lastErr); ok && !ps.aborted {
			detail["stack"] = trunc(p.stack, 2500)
			r.Violate("panic-reached-host:"+firstWord(p.Error()), "a panic reached the caller of RunContext: "+p.Error(), detail)
			return
		}
		if !ps.aborted {
			// it came back on its own: usable afterwards?
			live := make(chan struct{})
			go func() { _ = cp.Get("n"); _ = cp.GetAll(); _ = cp.Clone(); close(live) }()
			if fw.WaitOrHang(live, 50*time.Second) == "hang" {
				r.Violate("unusable-after-run:deadlock", "Get/GetAll/Clone after a cancelled run did not return (lock left held?)", detail)
				panic("verif: worker abandoned after a hang")
			}
			r.Inc("dead-context-returned")
			r.Distinct("dead-context", src)
			return
		}
		exhausted++
	}
	r.Violate("no-return:dead-context", fmt.Sprintf("a never-ending script run with an already cancelled context was not stopped: %d of 3 attempts used up the whole budget of 3*10^7 instructions (only the harness's own budget ended them)", exhausted),
		map[string]interface{}{"source": src, "last_error": fmt.Sprint(lastErr)})
}

func (c *c05) RunCase(r *fw.Rec, cs fw.Case) {
	rng := cs.Rng("c05")
	if cs.Index < len(c05CyclicProbes) {
		c.cyclicProbe(r, cs.Index)
		return
	}
	if cs.Index%50 == 33 {
		c.neverEndingWithDeadContext(r, rng)
		return
	}
	var src, mod string
	kind := "atom"
	if cs.Index%5 == 4 {
		opts := gen.Options{MaxStmts: 4 + rng.Intn(14), MaxDepth: 2 + rng.Intn(3), ErrRate: 0.15, ClosureHeavy: rng.Intn(3) == 0, ControlHeavy: rng.Intn(3) == 0, CallDefined: true}
		src = gen.Generate(gen.New(rng, opts)).Src
		kind = "generated"
	} else {
		atom := c05Atom(rng, cs.Index)
		var pre string
		if rng.Intn(3) == 0 {
			pre = gen.Generate(gen.New(rng, gen.Options{MaxStmts: 1 + rng.Intn(4), MaxDepth: 2})).Src
		}
		m, md := c05Wrap(rng, atom)
		src, mod = pre+m, md
	}
	// half of the programs sit behind a host switch: after the hostile run the switch is turned off
	// and the same Compiled must run to completion (no state of the failed run may survive)
	switched := rng.Intn(2) == 0
	if switched {
		src = "if hostile_on {\n" + src + "\n}\nsurvivor := 41 + 1\n"
	}
	r.Logf("---- source ----\n%s\n---- module ----\n%s", src, mod)
	s := tengo.NewScript([]byte(src))
	_ = s.Add("hostile_on", true)
	mm := stdModules()
	if mod != "" {
		mm.AddSourceModule("hostile", []byte(mod))
	}
	for i := 0; i < 5; i++ {
		mm.AddSourceModule(fmt.Sprintf("fill%d", i), []byte(fmt.Sprintf("v := %d\nf := func(x) {\n  return x + v\n}\nexport {v: v, f: f}\n", i)))
	}
	s.SetImports(mm)
	s.SetMaxAllocs(2_000_000)
	detail := map[string]interface{}{"source": src, "module": mod}
	var cp *tengo.Compiled
	err := safely(func() error {
		var e error
		cp, e = s.Compile()
		return e
	})
	r.Eval()
	if p, ok := isPanic(err); ok {
		detail["stack"] = trunc(p.stack, 2500)
		r.Violate("compile-panic", "Script.Compile panicked: "+p.Error(), detail)
		return
	}
	if err != nil {
		r.Inc("compile-error")
		return
	}
	r.Inc("kind:" + kind)
	// run with budgets
	ps := &probeState{budget: 30_000_000}
	installProbe(ps)
	var runErr error
	done := make(chan struct{})
	// every context-aware entry point, with a context that can and one that cannot be cancelled
	entry := pick(rng, []string{"Compiled.RunContext(Background)", "Compiled.RunContext(WithCancel)", "Script.RunContext(Background)", "Script.RunContext(WithCancel)"})
	r.Inc("entry:" + entry)
	detail["entry_point"] = entry
	go func() {
		runErr = safely(func() error {
			ctx := bg
			if strings.HasSuffix(entry, "(WithCancel)") {
				var cancel context.CancelFunc
				ctx, cancel = context.WithCancel(bg)
				defer cancel()
			}
			if strings.HasPrefix(entry, "Script.") {
				cp2, e := s.RunContext(ctx)
				if cp2 != nil {
					cp = cp2
				}
				return e
			}
			return cp.RunContext(ctx)
		})
		close(done)
	}()
	switch fw.WaitOrHang(done, 50*time.Second) {
	case "hang":
		removeProbe()
		r.Violate("no-return", "RunContext did not return (50 s of CPU time spent, or blocked for 50 s; instruction budget 3*10^7)", detail)
		panic("verif: worker abandoned after a hang")
	case "inconclusive":
		fw.AbandonInconclusive("RunContext had not returned after 1000 s on a loaded machine")
	}
	removeProbe()
	r.Eval()
	if p, ok := isPanic(runErr); ok {
		detail["stack"] = trunc(p.stack, 2500)
		r.Violate("panic-reached-host:"+firstWord(p.Error()), "a panic reached the caller of RunContext: "+p.Error(), detail)
		return
	}
	if ps.aborted {
		r.Inc("outcome:budget")
	} else if runErr != nil {
		r.Inc("outcome:error")
		r.Distinct(src, mod)
	} else {
		r.Inc("outcome:ok")
	}
	detail["run_error"] = fmt.Sprint(runErr)
	// post-run invariants: the compiled object remains usable
	usable := safely(func() error {
		globals := cp.VerifGlobals()
		cyclic := false
		for i, g := range globals {
			if g == nil {
				continue // a never-assigned slot reads as undefined
			}
			if hasCycle(g, map[tengo.Object]bool{}, 0) {
				cyclic = true
				continue
			}
			if p := nilReachable(g, fmt.Sprintf("global#%d", i), 0, map[tengo.Object]bool{}); p != "" {
				return fmt.Errorf("invariant: %s", p)
			}
		}
		if cyclic {
			// a cyclic container reached the globals: reading it is the recorded finding; skip the host-side reads
			return nil
		}
		for _, v := range cp.GetAll() {
			_ = v.String()
			_ = v.Value()
			_ = v.ValueType()
			_ = cp.IsDefined(v.Name())
			_ = cp.Get(v.Name()).Object()
		}
		// every declared name, also those the failed run never reached (their slot was never assigned)
		for name := range cp.VerifGlobalIndexes() {
			v := cp.Get(name)
			if v.Object() == nil {
				return fmt.Errorf("invariant: Get(%q).Object() is a Go nil Object", name)
			}
			_, _, _, _ = v.String(), v.ValueType(), v.IsUndefined(), v.Bool()
			_, _, _, _ = v.Int(), v.Float(), v.Value(), v.Error()
			_ = cp.IsDefined(name)
		}
		_ = cp.Get("no_such_name").String()
		cl := cp.Clone()
		_ = cl.GetAll()
		return nil
	})
	r.Eval()
	if usable != nil {
		detail["post_run"] = usable.Error()
		if p, ok := isPanic(usable); ok {
			detail["stack"] = trunc(p.stack, 2500)
			r.Violate("unusable-after-run:panic:"+firstWord(p.Error()), "after the run, reading the compiled object's variables panics in the host", detail)
		} else {
			r.Violate("unusable-after-run:nil-object", "after the run a Go-nil Object is reachable from the globals", detail)
		}
		return
	}
	// lock liveness + second run
	recovered := false
	var liveErr error
	liveDone := make(chan struct{})
	go func() {
		defer close(liveDone)
		liveErr = safely(func() error {
			_ = cp.Get("res")
			if e := cp.Set("nosuch_variable", 1); e == nil {
				return fmt.Errorf("Set of an undeclared name succeeded")
			}
			ctx, cancel := context.WithTimeout(context.Background(), 20*time.Second)
			defer cancel()
			if switched {
				if e := cp.Set("hostile_on", false); e != nil {
					return fmt.Errorf("Set(hostile_on, false): %v", e)
				}
			}
			ps2 := &probeState{budget: 30_000_000}
			installProbe(ps2)
			e2 := cp.RunContext(ctx)
			removeProbe()
			if switched {
				if e2 != nil {
					return fmt.Errorf("with the hostile part switched off the second run still failed: %v", e2)
				}
				if got := canon(cp.Get("survivor").Object()); got != "i42" {
					return fmt.Errorf("with the hostile part switched off the second run left survivor = %s, want 42", got)
				}
				recovered = true
			}
			return nil
		})
	}()
	switch fw.WaitOrHang(liveDone, 45*time.Second) {
	case "done":
		if e := liveErr; e != nil {
			detail["second_use"] = e.Error()
			if p, ok := isPanic(e); ok {
				detail["stack"] = trunc(p.stack, 2500)
			}
			r.Violate("unusable-after-run:second-use", "the compiled object is not usable for further Get/Set/Run calls", detail)
			return
		}
	case "hang":
		r.Violate("unusable-after-run:deadlock", "Get/Set/RunContext after the run did not return (lock left held?)", detail)
		panic("verif: worker abandoned after a hang")
	default:
		fw.AbandonInconclusive("Get/Set/RunContext after the run had not returned after 900 s on a loaded machine")
	}
	r.Inc("post-run-checks")
	if recovered {
		r.Inc("recovered-after-hostile-run")
		if runErr != nil {
			r.Inc("recovered-after-failed-run")
		}
	}
	if r.WantSample() && runErr != nil && len(src) < 300 {
		r.Sample(map[string]interface{}{"source": src, "module": mod, "returned": firstLine(runErr.Error())})
	}
}

// ---- recorded finding: cyclic containers

var c05CyclicProbes = []struct{ name, src string }{
	{"survive: freeze(self-referential array)", "a := [0]; a[0] = a; f := freeze(a); n := len(f)"},
	{"survive: freeze(map cycle of two)", "a := {}; b := {p: a}; a.p = b; f := freeze(a); t := type_name(f.p.p)"},
	{"survive: freeze(mixed cycle of three)", "a := {}; b := [a]; c := {q: b}; a.r = c; f := freeze(c); g := freeze(b)"},
	{"survive: freeze(immutable array that contains itself)", "a := [0]; i := immutable(a); a[0] = i; f := freeze(i); n := len(f[0][0])"},
	{"survive: freeze(cycle through an immutable wrapper)", "a := [1, 2]; w := immutable([a]); a[1] = w; f := freeze(w); g := freeze(a); t := is_immutable_array(f[0][1][0])"},
	{"survive: freeze(cycle through an immutable map)", "m := {}; w := immutable({m: m}); m.w = w; f := freeze(w); g := freeze(m); t := is_immutable_map(f.m.w.m)"},
	{"survive: cyclic value only stored and indexed", "a := [0]; a[0] = a; x := a[0][0][0]; n := len(a); m := {k: a}; t := is_array(m.k[0])"},
	{"string(a)", "a := [0]; a[0] = a; s := string(a)"},
	{"string(m)", "m := {}; m.self = m; s := string(m)"},
	{"copy(a)", "a := [0]; a[0] = a; b := copy(a)"},
	{"a == b", "a := [0]; a[0] = a; b := [0]; b[0] = b; e := a == b"},
	{"\"\" + a", "a := [0]; a[0] = a; s := \"\" + a"},
	{"format(\"%v\", a)", "a := [0]; a[0] = a; s := format(\"%v\", a)"},
	{"host: Variable.String()", "a := [0]; a[0] = a"},
	{"host: Compiled.Clone()", "m := {}; m.self = m"},
	// an astronomically long range: the builtin neither returns nor can be interrupted, and grows without bound
	{"huge-range: range(0, 9223372036854775807)", "h := range(0, 9223372036854775807)"},
	{"huge-range: range(9223372036854775807, 0, 1)", "h := range(9223372036854775807, 0, 1)"},
	{"survive: range(0, 300000)", "h := range(0, 300000); n := len(h)"},
}

// C05Helper runs one cyclic probe in its own process.
func C05Helper(i int) int {
	// a small stack cap: unbounded recursion is recognised after 32 MiB instead of 1 GiB (the garbage
	// collector scanning a gigabyte of stack made one probe cost a minute of CPU time)
	debug.SetMaxStack(32 << 20)
	p := c05CyclicProbes[i]
	s := tengo.NewScript([]byte(p.src))
	cp, err := s.Compile()
	if err != nil {
		fmt.Println("COMPILE-ERROR", err)
		return 3
	}
	if strings.HasPrefix(p.name, "huge-range:") || strings.HasPrefix(p.name, "survive: range") {
		// the child judges itself on its own CPU time and heap, not on the wall clock
		go func() {
			var ms runtime.MemStats
			var ru syscall.Rusage
			for {
				time.Sleep(50 * time.Millisecond)
				runtime.ReadMemStats(&ms)
				_ = syscall.Getrusage(syscall.RUSAGE_SELF, &ru)
				cpu := ru.Utime.Sec + ru.Stime.Sec
				if ms.HeapAlloc > 1<<30 || cpu > 30 {
					fmt.Printf("NO-RETURN after cancellation: live heap %d MiB, cpu %d s\n", ms.HeapAlloc>>20, cpu)
					os.Exit(5)
				}
			}
		}()
		ctx, cancel := context.WithTimeout(bg, 200*time.Millisecond)
		defer cancel()
		err = cp.RunContext(ctx)
		fmt.Println("SURVIVED", err)
		return 0
	}
	err = cp.RunContext(bg)
	switch p.name {
	case "host: Variable.String()":
		_ = cp.Get("a").String()
	case "host: Compiled.Clone()":
		_ = cp.Clone()
	}
	fmt.Println("SURVIVED", err)
	return 0
}

func (c *c05) cyclicProbe(r *fw.Rec, i int) {
	p := c05CyclicProbes[i]
	self, _ := os.Executable()
	cmd := exec.Command(self, "c05helper", fmt.Sprint(i), "x")
	cmd.Env = append(os.Environ(), "GOTRACEBACK=single")
	out, err := cmd.CombinedOutput()
	r.Eval()
	r.Inc("cyclic-probes")
	r.Distinct("cyclic", p.name)
	if err == nil && strings.Contains(string(out), "SURVIVED") {
		return
	}
	if strings.HasPrefix(p.name, "survive:") {
		r.Violate("fatal:"+p.name, "a script that handles a cyclic container without rendering, comparing or copying it took the host process down", map[string]interface{}{"source": p.src, "child_output_head": trunc(string(out), 600)})
		return
	}
	o := string(out)
	if strings.HasPrefix(p.name, "huge-range:") {
		r.Violate("fatal:"+p.name, "a script asking for an astronomically long range makes RunContext neither return nor honour its context, while memory grows without bound",
			map[string]interface{}{"source": p.src, "child_output_head": trunc(o, 600)})
		return
	}
	what := "process died"
	if strings.Contains(o, "stack overflow") || strings.Contains(o, "stack exceeds") {
		what = "fatal error: stack overflow"
	}
	r.Violate("fatal:cyclic-container:"+p.name, "a script building a self-referential container takes the host process down ("+what+") when the container is rendered, compared or copied: "+p.name,
		map[string]interface{}{"source": p.src, "operation": p.name, "child_output_head": trunc(o, 600)})
}

func (c *c05) Finish(m *fw.Merged, tier string) {
	for _, k := range []string{"kind:atom", "kind:generated", "outcome:error", "outcome:ok", "post-run-checks", "cyclic-probes", "dead-context-returned", "recovered-after-failed-run", "entry:Compiled.RunContext(Background)", "entry:Compiled.RunContext(WithCancel)", "entry:Script.RunContext(Background)", "entry:Script.RunContext(WithCancel)"} {
		if m.Counters[k] == 0 {
			m.Fail("never observed: " + k)
		}
	}
}
