package props

import (
	"fmt"
	"math"
	"math/rand"
	"strconv"
	"strings"
	"time"

	"github.com/d5/tengo/v2"

	"verif/fw"
)

// C10 — value equality, ordering, truthiness, copy and conversion laws.
type c10 struct {
	compiled *tengo.Compiled
}

func init() { fw.Register(&c10{}) }

func (*c10) ID() string    { return "C10" }
func (*c10) Level() string { return "exploration" }
func (*c10) NumCases(tier string) int {
	if tier == "thorough" {
		return 24000
	}
	return 1500
}
func (*c10) Rule() string {
	return "each case = 40 ordered pairs (a, b) drawn from a pool of ~140 boundary values of every runtime type (min/max int, ±0, NaN, ±Inf, 2^53±1, chars 0..max rune, empty/non-ASCII/invalid-UTF-8 strings, bytes, times in different zones, errors, undefined, nested and shared containers, immutable variants, functions) plus random nested values; " +
		"one compiled probe script evaluates ==, !=, <, <=, >, >=, !a, copy(a) and the conversion builtins through the real VM (Set a/b/op, RunContext); the monitor checks symmetry, negation, converse, trichotomy/totality for same-ordered-type and int/float pairs, int/char ordering without equality, " +
		"the documented falsiness table, structural equality and independence of copy (write into every mutable position of the copy and of the original), and the documented conversion table. distinct = distinct (a,b) canonical forms; non-trivial = all"
}
func (*c10) Assumptions() []string {
	return []string{
		"falsiness and conversion expectations are an independent table written from docs/runtime-types.md and docs/builtins.md",
		"for types whose == is identity (error) or never true (functions) the generic copy law compares payloads; the literal claim 'copy(x) == x' is probed on four exact inputs, which are listed as known findings",
		"float to int conversions outside the int64 range and of NaN are platform dependent and not judged",
	}
}

const c10Script = `
r := undefined
r2 := undefined
if op == 0 { r = a == b
} else if op == 1 { r = a != b
} else if op == 2 { r = a < b
} else if op == 3 { r = a <= b
} else if op == 4 { r = a > b
} else if op == 5 { r = a >= b
} else if op == 6 { r = !a
} else if op == 7 { r = copy(a); r2 = r == a
} else if op == 8 { r = string(a)
} else if op == 9 { r = int(a)
} else if op == 10 { r = float(a)
} else if op == 11 { r = char(a)
} else if op == 12 { r = bool(a)
} else if op == 13 { r = bytes(a)
} else if op == 14 { r = time(a)
} else if op == 15 { r = string(a, b)
} else if op == 16 { r = int(a, b)
} else if op == 17 { r = float(a, b)
} else if op == 18 { r = char(a, b)
} else if op == 19 { r = bytes(a, b)
} else if op == 20 { r = time(a, b)
} else if op == 21 { r = a ? 1 : 0
} else if op == 22 { r = (a && true) == true ? 1 : 0
} else if op == 23 { r = (a || false) == false ? 0 : 1
} else if op == 24 { r = 0; if a { r = 1 }
}
`

func (c *c10) script() *tengo.Compiled {
	if c.compiled != nil {
		return c.compiled
	}
	s := tengo.NewScript([]byte(c10Script))
	_ = s.Add("a", 0)
	_ = s.Add("b", 0)
	_ = s.Add("op", 0)
	cp, err := s.Compile()
	if err != nil {
		panic(err)
	}
	c.compiled = cp
	return cp
}

type c10Res struct {
	err  string
	obj  tengo.Object
	obj2 tengo.Object
}

func (c *c10) eval(op int, a, b tengo.Object) c10Res {
	cp := c.script()
	_ = cp.Set("a", a)
	_ = cp.Set("b", b)
	_ = cp.Set("op", op)
	err := safely(func() error { return cp.RunContext(bg) })
	if err != nil {
		return c10Res{err: firstLine(err.Error())}
	}
	return c10Res{obj: cp.Get("r").Object(), obj2: cp.Get("r2").Object()}
}

func boolOf(r c10Res) (val, ok bool) {
	if r.err != "" {
		return false, false
	}
	b, isB := r.obj.(*tengo.Bool)
	if !isB {
		return false, false
	}
	return !b.IsFalsy(), true
}

// ---- value pool

type c10Val struct {
	desc string
	mk   func() tengo.Object // fresh object each time
	kind string              // int float char string bytes time bool undefined error array map immarray immmap fn
}

func c10Pool() []c10Val {
	var p []c10Val
	add := func(kind, desc string, mk func() tengo.Object) { p = append(p, c10Val{desc, mk, kind}) }
	for _, v := range []int64{0, 1, -1, 2, 7, 65, 97, 255, 1 << 31, -(1 << 31), 1<<53 - 1, 1 << 53, 1<<53 + 1, math.MaxInt64, math.MinInt64, math.MaxInt64 - 1, 0x10FFFF, 0x110000, 4294967393} {
		v := v
		add("int", fmt.Sprintf("int(%d)", v), func() tengo.Object { return &tengo.Int{Value: v} })
	}
	for _, v := range []float64{0, math.Copysign(0, -1), 1, -1, 0.5, 2.5, 65, 97, 1 << 53, 1<<53 + 2, 9.223372036854775807e18, -9.223372036854775808e18, 1e21, math.NaN(), math.Inf(1), math.Inf(-1), 5e-324, math.MaxFloat64, 1e-7} {
		v := v
		add("float", fmt.Sprintf("float(%v)", v), func() tengo.Object { return &tengo.Float{Value: v} })
	}
	for _, v := range []rune{0, 1, 'A', 'a', 'b', 'é', '日', 0xD7FF, 0xFFFD, 0x10FFFF, math.MaxInt32, -1} {
		v := v
		add("char", fmt.Sprintf("char(%d)", v), func() tengo.Object { return &tengo.Char{Value: v} })
	}
	for _, v := range []string{"", "a", "A", "b", "ab", "abc", "héllo", "日本語", "\xff\xfe", "a\x00", "1", "12", "-3", "2.5", "1e3", " 1", "true", "0", "9223372036854775808", "0x10", "NaN", "inf", "010", "0123", "08", "-007", "+5", "0b11", "0o17", "1_000", "7 ", ".5", "5.", "0x1p4", "1_0.5", "-0", "T", "1", "t", "FALSE"} {
		v := v
		add("string", fmt.Sprintf("string(%q)", v), func() tengo.Object { return &tengo.String{Value: v} })
	}
	for _, v := range []string{"", "a", "ab", "\x00", "héllo", "\xff"} {
		v := v
		add("bytes", fmt.Sprintf("bytes(%q)", v), func() tengo.Object { return &tengo.Bytes{Value: []byte(v)} })
	}
	est := time.FixedZone("EST", -5*3600)
	for i, v := range []time.Time{{}, time.Unix(0, 0).UTC(), time.Unix(1700000000, 0).UTC(), time.Unix(1700000000, 0).In(est), time.Unix(1700000000, 1).UTC(), time.Unix(-1, 0).UTC()} {
		v := v
		add("time", fmt.Sprintf("time#%d(%s)", i, v.Format(time.RFC3339Nano)), func() tengo.Object { return &tengo.Time{Value: v} })
	}
	add("bool", "true", func() tengo.Object { return tengo.TrueValue })
	add("bool", "false", func() tengo.Object { return tengo.FalseValue })
	add("undefined", "undefined", func() tengo.Object { return tengo.UndefinedValue })
	add("error", "error(\"e\")", func() tengo.Object { return &tengo.Error{Value: &tengo.String{Value: "e"}} })
	add("error", "error([1])", func() tengo.Object {
		return &tengo.Error{Value: &tengo.Array{Value: []tengo.Object{&tengo.Int{Value: 1}}}}
	})
	add("error", "error(undefined)", func() tengo.Object { return &tengo.Error{Value: tengo.UndefinedValue} })
	arr := func(imm bool, els ...func() tengo.Object) func() tengo.Object {
		return func() tengo.Object {
			out := make([]tengo.Object, len(els))
			for i, e := range els {
				out[i] = e()
			}
			if imm {
				return &tengo.ImmutableArray{Value: out}
			}
			return &tengo.Array{Value: out}
		}
	}
	mp := func(imm bool, kv map[string]func() tengo.Object) func() tengo.Object {
		return func() tengo.Object {
			out := map[string]tengo.Object{}
			for k, e := range kv {
				out[k] = e()
			}
			if imm {
				return &tengo.ImmutableMap{Value: out}
			}
			return &tengo.Map{Value: out}
		}
	}
	i1 := func() tengo.Object { return &tengo.Int{Value: 1} }
	f1 := func() tengo.Object { return &tengo.Float{Value: 1} }
	s1 := func() tengo.Object { return &tengo.String{Value: "s"} }
	nan := func() tengo.Object { return &tengo.Float{Value: math.NaN()} }
	for _, imm := range []bool{false, true} {
		k, km := "array", "map"
		if imm {
			k, km = "immarray", "immmap"
		}
		add(k, k+"[]", arr(imm))
		add(k, k+"[1]", arr(imm, i1))
		add(k, k+"[1.0]", arr(imm, f1))
		add(k, k+"[1,\"s\"]", arr(imm, i1, s1))
		add(k, k+"[[1],{a:1}]", arr(imm, arr(false, i1), mp(false, map[string]func() tengo.Object{"a": i1})))
		add(k, k+"[I[1]]", arr(imm, arr(true, i1)))
		add(k, k+"[NaN]", arr(imm, nan))
		add(k, k+"[bytes,error,time]", arr(imm, func() tengo.Object { return &tengo.Bytes{Value: []byte("b")} }, func() tengo.Object { return &tengo.Error{Value: &tengo.Int{Value: 3}} }, func() tengo.Object { return &tengo.Time{Value: time.Unix(5, 0).UTC()} }))
		add(km, km+"{}", mp(imm, nil))
		add(km, km+"{a:1}", mp(imm, map[string]func() tengo.Object{"a": i1}))
		add(km, km+"{a:1.0}", mp(imm, map[string]func() tengo.Object{"a": f1}))
		add(km, km+"{b:1}", mp(imm, map[string]func() tengo.Object{"b": i1}))
		add(km, km+"{a:[1],b:{c:\"s\"}}", mp(imm, map[string]func() tengo.Object{"a": arr(false, i1), "b": mp(false, map[string]func() tengo.Object{"c": s1})}))
		add(km, km+"{a:undefined}", mp(imm, map[string]func() tengo.Object{"a": func() tengo.Object { return tengo.UndefinedValue }}))
	}
	// shared sub-structure
	add("array", "array[x,x] (shared)", func() tengo.Object {
		x := &tengo.Array{Value: []tengo.Object{&tengo.Int{Value: 5}}}
		return &tengo.Array{Value: []tengo.Object{x, x}}
	})
	add("fn", "user-function", func() tengo.Object {
		return &tengo.UserFunction{Name: "u", Value: func(...tengo.Object) (tengo.Object, error) { return nil, nil }}
	})
	add("fn", "builtin len", func() tengo.Object { return tengo.GetAllBuiltinFunctions()[0] })
	add("fn", "compiled function", func() tengo.Object {
		s := tengo.NewScript([]byte("f := func(x) { return x }"))
		cp, _ := s.Run()
		return cp.Get("f").Object()
	})
	return p
}

var c10PoolCache []c10Val

func c10RandVal(r *rand.Rand, depth int) c10Val {
	pool := c10PoolCache
	if depth <= 0 || r.Intn(3) != 0 {
		return pool[r.Intn(len(pool))]
	}
	n := r.Intn(3)
	kids := make([]c10Val, n)
	for i := range kids {
		kids[i] = c10RandVal(r, depth-1)
	}
	imm := r.Intn(3) == 0
	if r.Intn(2) == 0 {
		var ds []string
		for _, k := range kids {
			ds = append(ds, k.desc)
		}
		kind := "array"
		if imm {
			kind = "immarray"
		}
		return c10Val{kind + "[" + strings.Join(ds, ",") + "]", func() tengo.Object {
			out := make([]tengo.Object, n)
			for i, k := range kids {
				out[i] = k.mk()
			}
			if imm {
				return &tengo.ImmutableArray{Value: out}
			}
			return &tengo.Array{Value: out}
		}, kind}
	}
	keys := []string{"a", "b", "c"}
	var ds []string
	for i, k := range kids {
		ds = append(ds, keys[i]+":"+k.desc)
	}
	kind := "map"
	if imm {
		kind = "immmap"
	}
	return c10Val{kind + "{" + strings.Join(ds, ",") + "}", func() tengo.Object {
		out := map[string]tengo.Object{}
		for i, k := range kids {
			out[keys[i]] = k.mk()
		}
		if imm {
			return &tengo.ImmutableMap{Value: out}
		}
		return &tengo.Map{Value: out}
	}, kind}
}

// expected falsiness (docs/runtime-types.md: Object.IsFalsy)
func c10Falsy(o tengo.Object) (bool, bool) {
	switch v := o.(type) {
	case *tengo.Int:
		return v.Value == 0, true
	case *tengo.Float:
		return math.IsNaN(v.Value), true
	case *tengo.Bool:
		return v == tengo.FalseValue, true
	case *tengo.Char:
		return v.Value == 0, true
	case *tengo.String:
		return len(v.Value) == 0, true
	case *tengo.Bytes:
		return len(v.Value) == 0, true
	case *tengo.Time:
		return v.Value.IsZero(), true
	case *tengo.Undefined:
		return true, true
	case *tengo.Error:
		return true, true
	case *tengo.Array:
		return len(v.Value) == 0, true
	case *tengo.ImmutableArray:
		return len(v.Value) == 0, true
	case *tengo.Map:
		return len(v.Value) == 0, true
	case *tengo.ImmutableMap:
		return len(v.Value) == 0, true
	case *tengo.UserFunction, *tengo.BuiltinFunction, *tengo.CompiledFunction:
		return false, true
	}
	return false, false
}

func multiKeyMap(o tengo.Object) bool {
	switch v := o.(type) {
	case *tengo.Map:
		if len(v.Value) > 1 {
			return true
		}
		for _, e := range v.Value {
			if multiKeyMap(e) {
				return true
			}
		}
	case *tengo.ImmutableMap:
		if len(v.Value) > 1 {
			return true
		}
		for _, e := range v.Value {
			if multiKeyMap(e) {
				return true
			}
		}
	case *tengo.Array:
		for _, e := range v.Value {
			if multiKeyMap(e) {
				return true
			}
		}
	case *tengo.ImmutableArray:
		for _, e := range v.Value {
			if multiKeyMap(e) {
				return true
			}
		}
	case *tengo.Error:
		return multiKeyMap(v.Value)
	}
	return false
}

func orderedKind(k string) bool {
	return k == "int" || k == "char" || k == "string" || k == "time" || k == "float"
}

// values whose == is identity (errors) or never true (functions): "copy yields an equal value" as the
// property states it does not hold for them on the pinned tree; exact inputs, listed as known findings
var c10CopyEqProbes = []struct{ name, src string }{
	{"error", `e := error("x"); c := copy(e); r := c == e; n := c != e`},
	{"error-in-array", `e := [1, error("x")]; c := copy(e); r := c == e; n := c != e`},
	{"compiled-function", `f := func() { return 1 }; c := copy(f); r := c == f; n := c != f`},
	{"builtin-function", `c := copy(len); r := c == len; n := c != len`},
}

func (c *c10) copyEqProbes(r *fw.Rec) {
	for _, p := range c10CopyEqProbes {
		eng := runEngine([]byte(p.src), engineOpts{Budget: 100_000})
		r.Eval()
		r.Inc("copy-equality-probes")
		r.Distinct("copy-eq-probe", p.name)
		if eng.Phase == "ok" && eng.Globals["r"] == "true" && eng.Globals["n"] == "false" {
			continue
		}
		r.Violate("copy:not-equal:"+p.name, "copy() of this value is not equal (==) to the original",
			map[string]interface{}{"script": p.src, "outcome": eng.Phase + ": " + eng.Err, "r (copy == original)": eng.Globals["r"], "n (copy != original)": eng.Globals["n"]})
	}
}

func (c *c10) RunCase(r *fw.Rec, cs fw.Case) {
	if c10PoolCache == nil {
		c10PoolCache = c10Pool()
	}
	if cs.Index == 0 {
		c.copyEqProbes(r)
	}
	rng := cs.Rng("c10")
	pool := c10PoolCache
	for k := 0; k < 40; k++ {
		var av, bv c10Val
		idx := cs.Index*40 + k
		if idx < len(pool)*len(pool) {
			av, bv = pool[idx/len(pool)], pool[idx%len(pool)]
		} else {
			av, bv = c10RandVal(rng, 3), c10RandVal(rng, 3)
			if rng.Intn(5) == 0 {
				bv = av
			}
		}
		c.pair(r, av, bv)
	}
}

func (c *c10) pair(r *fw.Rec, av, bv c10Val) {
	a, b := av.mk(), bv.mk()
	if !strings.Contains(av.desc, "error") {
		// == must not depend on both operands being the same object: a == a agrees with a == (a value built the same way)
		same, twin, ne := c.eval(0, a, a), c.eval(0, a, av.mk()), c.eval(1, a, a)
		cv := func(x c10Res) string {
			if x.err != "" || x.obj == nil {
				return "error: " + x.err
			}
			return canon(x.obj)
		}
		r.Eval()
		if cv(same) != cv(twin) || (same.err == "" && ne.err == "" && cv(same) == cv(ne)) {
			r.Violate("eq:identity-dependent:"+av.kind, "a == a differs from a == (an identically built value), or a != a is not its negation",
				map[string]interface{}{"a": av.desc, "a == a": cv(same), "a == twin": cv(twin), "a != a": cv(ne)})
			return
		}
	}
	r.Distinct(av.desc, bv.desc)
	r.Inc("pair:" + av.kind + "/" + bv.kind)
	detail := map[string]interface{}{"a": av.desc, "b": bv.desc}
	res := map[string]c10Res{}
	names := []string{"a==b", "a!=b", "a<b", "a<=b", "a>b", "a>=b"}
	for op, n := range names {
		res[n] = c.eval(op, a, b)
		res["rev:"+n] = c.eval(op, b, a) // b op a
		r.EvalN(2)
	}
	show := func() map[string]string {
		out := map[string]string{}
		for k, v := range res {
			if v.err != "" {
				out[k] = "error: " + v.err
			} else {
				out[k] = v.obj.String()
			}
		}
		return out
	}
	viol := func(sig, what string) {
		detail["results"] = show()
		r.Violate(sig, what, detail)
	}
	for k, v := range res {
		if strings.HasPrefix(v.err, "panic") {
			viol("panic:"+k, "comparison panicked")
			return
		}
	}
	eqAB, ok1 := boolOf(res["a==b"])
	eqBA, ok2 := boolOf(res["rev:a==b"])
	neAB, ok3 := boolOf(res["a!=b"])
	if !ok1 || !ok2 || !ok3 {
		viol("eq-not-bool", "== or != did not yield a bool")
		return
	}
	if eqAB != eqBA {
		viol("eq-asymmetric:"+av.kind+"/"+bv.kind, "a == b differs from b == a")
		return
	}
	if neAB == eqAB {
		viol("ne-not-negation:"+av.kind+"/"+bv.kind, "a != b is not the negation of a == b")
		return
	}
	// converse: a < b  <=> b > a ; a <= b <=> b >= a (errors on both sides count as agreement)
	conv := [][2]string{{"a<b", "rev:a>b"}, {"a<=b", "rev:a>=b"}, {"a>b", "rev:a<b"}, {"a>=b", "rev:a<=b"}}
	for _, p := range conv {
		x, y := res[p[0]], res[p[1]]
		if (x.err != "") != (y.err != "") {
			viol("converse-error:"+av.kind+"/"+bv.kind, p[0]+" and its converse "+strings.TrimPrefix(p[1], "rev:")+" (operands swapped) do not both fail or both succeed")
			return
		}
		if x.err == "" {
			xb, okx := boolOf(x)
			yb, oky := boolOf(y)
			if !okx || !oky || xb != yb {
				viol("converse:"+av.kind+"/"+bv.kind, p[0]+" differs from its converse with swapped operands")
				return
			}
		}
	}
	// trichotomy / totality
	numeric := func(k string) bool { return k == "int" || k == "float" }
	isNaN := func(o tengo.Object) bool { f, ok := o.(*tengo.Float); return ok && math.IsNaN(f.Value) }
	sameOrdered := av.kind == bv.kind && orderedKind(av.kind)
	mixedNum := numeric(av.kind) && numeric(bv.kind)
	intChar := (av.kind == "int" && bv.kind == "char") || (av.kind == "char" && bv.kind == "int")
	if (sameOrdered || mixedNum) && !isNaN(a) && !isNaN(b) {
		lt, okl := boolOf(res["a<b"])
		gt, okg := boolOf(res["a>b"])
		le, okle := boolOf(res["a<=b"])
		ge, okge := boolOf(res["a>=b"])
		if !okl || !okg || !okle || !okge {
			viol("ordered-error:"+av.kind+"/"+bv.kind, "an ordering operator failed on two ordered values")
			return
		}
		n := 0
		for _, x := range []bool{lt, eqAB, gt} {
			if x {
				n++
			}
		}
		if n != 1 {
			viol("trichotomy:"+av.kind+"/"+bv.kind, "not exactly one of a < b, a == b, a > b holds")
			return
		}
		if le != (lt || eqAB) || ge != (gt || eqAB) {
			viol("le-ge:"+av.kind+"/"+bv.kind, "<= is not (< or ==), or >= is not (> or ==)")
			return
		}
		r.Inc("trichotomy-checked")
	}
	if intChar {
		lt, okl := boolOf(res["a<b"])
		gt, okg := boolOf(res["a>b"])
		le, okle := boolOf(res["a<=b"])
		ge, okge := boolOf(res["a>=b"])
		if !okl || !okg || !okle || !okge {
			viol("intchar-error", "an ordering operator failed on an int/char pair")
			return
		}
		if eqAB {
			viol("intchar-equal", "an int and a char compare equal")
			return
		}
		// ordered by code point
		var ai, bi int64
		if x, ok := a.(*tengo.Int); ok {
			ai, bi = x.Value, int64(b.(*tengo.Char).Value)
		} else {
			ai, bi = int64(a.(*tengo.Char).Value), b.(*tengo.Int).Value
		}
		if lt != (ai < bi) || gt != (ai > bi) || le != (ai <= bi) || ge != (ai >= bi) {
			viol("intchar-order", "an int/char pair is not ordered by code point")
			return
		}
		r.Inc("intchar-checked")
	}
	// truthiness (of a), through every way a script can observe it
	if want, known := c10Falsy(a); known {
		for _, op := range []int{6, 12, 21, 22, 23, 24} {
			got := c.eval(op, a, b)
			r.Eval()
			if got.err != "" {
				detail["op"] = op
				detail["error"] = got.err
				r.Violate("truthiness-error", "a truthiness test failed with an error", detail)
				return
			}
			var falsy bool
			switch op {
			case 6:
				t, _ := boolOf(got)
				falsy = t
			case 12:
				t, _ := boolOf(got)
				falsy = !t
			default:
				falsy = canon(got.obj) == "i0"
			}
			if falsy != want {
				detail["op"] = op
				detail["result"] = got.obj.String()
				r.Violate("truthiness:"+av.kind, "truthiness differs from the documented table", detail)
				return
			}
		}
		r.Inc("truthiness-checked")
	}
	c.conversions(r, av, bv, a, b)
	c.copyLaw(r, av, a)
	if r.WantSample() && av.kind != bv.kind {
		r.Sample(map[string]interface{}{"a": av.desc, "b": bv.desc, "results": show()})
	}
}

// structural form that ignores identity-only equality
func (c *c10) copyLaw(r *fw.Rec, av c10Val, a tengo.Object) {
	before := canon(a)
	res := c.eval(7, a, tengo.UndefinedValue)
	r.Eval()
	detail := map[string]interface{}{"a": av.desc}
	if res.err != "" {
		detail["error"] = res.err
		r.Violate("copy-error", "copy(a) failed", detail)
		return
	}
	cp := res.obj
	want := before
	// immutable containers copy to mutable ones (documented): compare shapes without the immutability tag at the top level
	norm := func(s string) string { return strings.ReplaceAll(s, "I[", "[") }
	normMap := func(s string) string { return strings.ReplaceAll(norm(s), "I{", "{") }
	if normMap(canon(cp)) != normMap(want) {
		detail["copy"] = canon(cp)
		detail["original"] = want
		r.Violate("copy-differs:"+av.kind, "copy(a) is not structurally equal to a", detail)
		return
	}
	if av.kind != "error" && av.kind != "fn" && !strings.Contains(before, "NaN") && !strings.Contains(before, "err(") && !strings.Contains(before, "<fn>") {
		if eq, ok := res.obj2.(*tengo.Bool); !ok || eq.IsFalsy() {
			detail["copy"] = canon(cp)
			r.Violate("copy-not-equal:"+av.kind, "copy(a) == a is false", detail)
			return
		}
	}
	// independence: write into every mutable position of the copy; the original must not change, and vice versa
	if mutateAll(cp) > 0 {
		if canon(a) != before {
			detail["original_after"] = canon(a)
			detail["original_before"] = before
			r.Violate("copy-shares-state:"+av.kind, "writing into copy(a) changed a", detail)
			return
		}
		r.Inc("copy-independence-checked")
	}
	res2 := c.eval(7, a, tengo.UndefinedValue)
	cp2 := res2.obj
	if res2.err == "" {
		snap := canon(cp2)
		if mutateAll(a) > 0 && canon(cp2) != snap {
			detail["copy_after"] = canon(cp2)
			detail["copy_before"] = snap
			r.Violate("copy-shares-state-rev:"+av.kind, "writing into a changed an earlier copy(a)", detail)
			return
		}
	}
	r.Inc("copy-checked")
}

// mutateAll overwrites every mutable position reachable from o; returns the number of writes.
func mutateAll(o tengo.Object) int {
	n := 0
	seen := map[tengo.Object]bool{}
	var walk func(o tengo.Object)
	walk = func(o tengo.Object) {
		if o == nil || seen[o] {
			return
		}
		seen[o] = true
		switch v := o.(type) {
		case *tengo.Array:
			for i := range v.Value {
				walk(v.Value[i])
				v.Value[i] = &tengo.String{Value: "MUTATED"}
				n++
			}
		case *tengo.ImmutableArray:
			for i := range v.Value {
				walk(v.Value[i])
			}
		case *tengo.Map:
			for k := range v.Value {
				walk(v.Value[k])
				v.Value[k] = &tengo.String{Value: "MUTATED"}
				n++
			}
			v.Value["__new__"] = tengo.TrueValue
			n++
		case *tengo.ImmutableMap:
			for k := range v.Value {
				walk(v.Value[k])
			}
		case *tengo.Error:
			walk(v.Value)
		case *tengo.Bytes:
			for i := range v.Value {
				v.Value[i] ^= 0xFF
				n++
			}
		}
	}
	walk(o)
	return n
}

// conversions: independent table from docs/builtins.md + runtime-types.md
func (c *c10) conversions(r *fw.Rec, av, bv c10Val, a, b tengo.Object) {
	type exp struct {
		ok   bool   // a conversion exists
		want string // canonical result when ok
		skip bool
	}
	expect := func(target string) exp {
		switch target {
		case "string":
			switch v := a.(type) {
			case *tengo.String:
				return exp{ok: true, want: canon(v)}
			case *tengo.Undefined:
				return exp{}
			}
			if multiKeyMap(a) {
				return exp{skip: true} // rendering order of map entries is unspecified
			}
			return exp{ok: true, want: canon(&tengo.String{Value: a.String()})}
		case "int":
			switch v := a.(type) {
			case *tengo.Int:
				return exp{ok: true, want: canon(v)}
			case *tengo.Float:
				if math.IsNaN(v.Value) || v.Value >= 9.2e18 || v.Value <= -9.2e18 {
					return exp{skip: true}
				}
				return exp{ok: true, want: fmt.Sprintf("i%d", int64(v.Value))}
			case *tengo.Char:
				return exp{ok: true, want: fmt.Sprintf("i%d", int64(v.Value))}
			case *tengo.Bool:
				if v == tengo.TrueValue {
					return exp{ok: true, want: "i1"}
				}
				return exp{ok: true, want: "i0"}
			case *tengo.String:
				if x, err := strconv.ParseInt(v.Value, 10, 64); err == nil {
					return exp{ok: true, want: fmt.Sprintf("i%d", x)}
				}
				return exp{}
			}
			return exp{}
		case "float":
			switch v := a.(type) {
			case *tengo.Float:
				return exp{ok: true, want: canon(v)}
			case *tengo.Int:
				return exp{ok: true, want: canon(&tengo.Float{Value: float64(v.Value)})}
			case *tengo.String:
				if x, err := strconv.ParseFloat(v.Value, 64); err == nil {
					return exp{ok: true, want: canon(&tengo.Float{Value: x})}
				}
				return exp{}
			}
			return exp{}
		case "char":
			switch v := a.(type) {
			case *tengo.Char:
				return exp{ok: true, want: canon(v)}
			case *tengo.Int:
				return exp{ok: true, want: fmt.Sprintf("c%d", rune(v.Value))}
			}
			return exp{}
		case "bytes":
			switch v := a.(type) {
			case *tengo.Bytes:
				return exp{ok: true, want: canon(v)}
			case *tengo.String:
				return exp{ok: true, want: fmt.Sprintf("b%x", v.Value)}
			case *tengo.Int:
				if v.Value < 0 || v.Value > 1<<16 {
					return exp{skip: true}
				}
				return exp{ok: true, want: fmt.Sprintf("b%x", make([]byte, v.Value))}
			}
			return exp{}
		case "time":
			switch v := a.(type) {
			case *tengo.Time:
				return exp{ok: true, want: canon(v)}
			case *tengo.Int:
				return exp{ok: true, want: canon(&tengo.Time{Value: time.Unix(v.Value, 0)})}
			}
			return exp{}
		}
		return exp{skip: true}
	}
	targets := []struct {
		name     string
		op1, op2 int
	}{{"string", 8, 15}, {"int", 9, 16}, {"float", 10, 17}, {"char", 11, 18}, {"bytes", 13, 19}, {"time", 14, 20}}
	for _, t := range targets {
		e := expect(t.name)
		if e.skip {
			continue
		}
		one := c.eval(t.op1, a, b)
		two := c.eval(t.op2, a, b)
		r.EvalN(2)
		detail := map[string]interface{}{"a": av.desc, "default": bv.desc, "conversion": t.name}
		for i, got := range []c10Res{one, two} {
			if got.err != "" {
				detail["error"] = got.err
				r.Violate("conversion-error:"+t.name, "a conversion builtin failed with a run-time error", detail)
				return
			}
			want := e.want
			if !e.ok {
				want = "undef"
				if i == 1 {
					want = canon(b)
				}
			}
			if canon(got.obj) != want {
				detail["got"] = canon(got.obj)
				detail["want"] = want
				detail["with_default"] = i == 1
				r.Violate("conversion:"+t.name+":"+av.kind, "a conversion builtin disagrees with the documented conversion table", detail)
				return
			}
		}
		r.Inc("conversion-checked:" + t.name)
	}
}

func (c *c10) Finish(m *fw.Merged, tier string) {
	for _, k := range []string{"trichotomy-checked", "intchar-checked", "truthiness-checked", "copy-checked", "copy-independence-checked",
		"conversion-checked:string", "conversion-checked:int", "conversion-checked:float", "conversion-checked:char", "conversion-checked:bytes", "conversion-checked:time"} {
		if m.Counters[k] == 0 {
			m.Fail("never observed: " + k)
		}
	}
}
