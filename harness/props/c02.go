package props

import (
	"fmt"
	"strings"

	"github.com/d5/tengo/v2"
	"github.com/d5/tengo/v2/parser"

	"verif/fw"
	"verif/gen"
)

// C02 — emitted bytecode is structurally sound and stack-balanced.
type c02 struct{}

func init() { fw.Register(&c02{}) }

func (*c02) ID() string    { return "C02" }
func (*c02) Level() string { return "exploration" }

// termination is not this property's claim (C04/C05 decide it): a case that exhausts the watchdog's
// CPU allowance is a generated program that is too expensive, counted as inconclusive
func (*c02) Config(tier string) fw.Config { return fw.Config{CrashInconclusive: true} }
func (*c02) NumCases(tier string) int {
	if tier == "thorough" {
		return 300000
	}
	return 16000
}
func (*c02) Rule() string {
	return "each case = one generated program (all generator profiles, source modules, builtin modules, functions that are never called, code after return, nested literals in loops with break/continue/return) or a boundary probe; " +
		"after Compiler.Bytecode() (and again after RemoveDuplicates) a bytecode verifier checks every function: instruction boundaries, jump targets, constant/local/free/builtin/global operands, CLOSURE free counts, " +
		"a unique non-negative operand-stack height per instruction along all paths, RET/SUSPEND heights, no fall-through; then the program is run and on every dispatched instruction the VM probe asserts ip is an instruction start and sp-base-NumLocals equals the verifier's height " +
		"(this validates the verifier's stack-effect table against the real machine); a clean run must leave the stack empty and no error may be an internal fault. " +
		"distinct = distinct source; non-trivial = at least 3 functions verified"
}
func (*c02) Assumptions() []string {
	return []string{
		"the verifier covers the functions of the programs the generator produces (including never-executed functions and untaken paths), not all programs",
		"the stack-effect table is cross-validated at run time by the probe on every dispatched instruction",
		"programs beyond a static limit must be rejected with a compile error (boundary probes)",
	}
}

func internalFault(msg string) bool {
	for _, s := range []string{"unknown opcode", "not function", "invalid jump position", "constant index not found", "wrong symbol index"} {
		if strings.Contains(msg, s) {
			return true
		}
	}
	return false
}

var c02Boundary = []func() (string, string){
	// break/continue at the top level of a module body belong to no loop, wherever the import stands
	func() (string, string) { return "for i := 0; i < 2; i++ { m := import(\"brk\") }", "compile-error" },
	func() (string, string) { return "for x in [1, 2] { m := import(\"cont\") }", "compile-error" },
	func() (string, string) { return "f := func() { for { m := import(\"brk\"); break } }", "compile-error" },
	func() (string, string) { return "m := import(\"brk\")", "compile-error" },
	func() (string, string) {
		return "out := 0\nfor i := 0; i < 2; i++ { m := import(\"lp\"); out += m; if out > 100 { break } }\nf := func() { for x in [1, 2] { out += import(\"lp\"); continue } }\nf()", "ok"
	},
	func() (string, string) {
		return "f := func(...a) { return len(a) }; x := f(" + strings.Repeat("1,", 254) + "1)", "ok"
	},
	func() (string, string) {
		return "f := func(...a) { return len(a) }; x := f(" + strings.Repeat("1,", 255) + "1)", "compile-error"
	},
	func() (string, string) {
		var sb strings.Builder
		sb.WriteString("f := func() {\n")
		for i := 0; i < 256; i++ {
			fmt.Fprintf(&sb, "v%d := %d\n", i, i)
		}
		sb.WriteString("return v255 }; x := f()")
		return sb.String(), "ok"
	},
	func() (string, string) {
		var sb strings.Builder
		sb.WriteString("f := func() {\n")
		for i := 0; i < 257; i++ {
			fmt.Fprintf(&sb, "v%d := %d\n", i, i)
		}
		sb.WriteString("return v256 }; x := f()")
		return sb.String(), "compile-error"
	},
	func() (string, string) {
		return "m := {a: {}}; m" + strings.Repeat(".a", 1) + strings.Repeat("[\"k\"]", 254) + " = 1", "ok-or-runtime-error"
	},
	func() (string, string) {
		return "m := {a: {}}; m" + strings.Repeat("[\"k\"]", 256) + " = 1", "compile-error"
	},
	func() (string, string) {
		return "x := [" + strings.Repeat("1,", 65534) + "1]; n := len(x)", "ok"
	},
	func() (string, string) {
		return "x := [" + strings.Repeat("1,", 65535) + "1]; n := len(x)", "compile-error"
	},
	func() (string, string) {
		// 256 captured variables
		var sb strings.Builder
		sb.WriteString("f := func() {\n")
		for i := 0; i < 200; i++ {
			fmt.Fprintf(&sb, "v%d := %d\n", i, i)
		}
		sb.WriteString("g := func() { return 0")
		for i := 0; i < 200; i++ {
			fmt.Fprintf(&sb, " + v%d", i)
		}
		sb.WriteString(" }\nreturn g() }; x := f()")
		return sb.String(), "ok"
	},
	func() (string, string) {
		return "for { f := func() { break } }", "compile-error"
	},
	func() (string, string) {
		return "for i := 0; i < 2; i++ { f := func() { for { break }; return 1 }; if f() { continue } }; x := 1", "ok"
	},
}

func (c *c02) RunCase(r *fw.Rec, cs fw.Case) {
	rng := cs.Rng("c02")
	if cs.Index%40 == 39 {
		// a VM that is run again after an Abort at any call depth must start from a clean machine: no stale frame,
		// instruction pointer or stack content may make the second run read outside its function (see c07.go)
		vmReuseAfterAbort(r, rng)
		return
	}
	var src, expect string
	var mods *tengo.ModuleMap
	if cs.Index < len(c02Boundary) {
		src, expect = c02Boundary[cs.Index]()
		r.Inc("boundary-probes")
	} else {
		opts := gen.Options{MaxStmts: 4 + rng.Intn(20), MaxDepth: 2 + rng.Intn(3)}
		switch rng.Intn(4) {
		case 0:
			opts.ControlHeavy = true
		case 1:
			opts.ClosureHeavy = true
		case 2:
			opts.ControlHeavy, opts.ClosureHeavy = true, true
		}
		if rng.Intn(4) == 0 {
			opts.ErrRate = 0.03
		}
		opts.CallDefined = rng.Intn(2) == 0
		src = gen.Generate(gen.New(rng, opts)).Src
		if rng.Intn(3) == 0 {
			src = pick(rng, c12Prefixes) + src
			mods = c12ModuleMap()
		}
	}
	if mods == nil {
		mods = c12ModuleMap()
	}
	r.Logf("---- source ----\n%s\n----", trunc(src, 6000))
	rc, err := compileRaw([]byte(src), nil, mods)
	r.Eval()
	detail := map[string]interface{}{"source": trunc(src, 3000)}
	if err != nil {
		if p, ok := isPanic(err); ok {
			detail["stack"] = trunc(p.stack, 2500)
			r.Violate("compile-panic", "compiler panicked: "+p.Error(), detail)
			return
		}
		if expect == "ok" {
			detail["error"] = err.Error()
			r.Violate("boundary:rejected", "a program inside the static limits is rejected", detail)
		}
		r.Inc("compile-error")
		return
	}
	if expect == "compile-error" {
		detail["expected"] = "a compile error: the program exceeds a static limit of the instruction encoding"
		r.Violate("boundary:accepted", "a program beyond a static limit compiles (operand cannot be encoded)", detail)
		return
	}
	r.Inc("programs")
	check := func(stage string) ([]*fnInfo, bool) {
		problems, infos := verifyBytecode(rc.BC, tengo.GlobalsSize)
		r.Count("functions_verified", int64(len(infos)))
		for _, in := range infos {
			r.Count("instructions_verified", int64(len(in.heights)))
		}
		if len(problems) > 0 {
			var ps []string
			for _, p := range problems {
				ps = append(ps, p.String())
			}
			detail["stage"] = stage
			detail["problems"] = ps
			fi := problems[0].Fn
			if fi < len(infos) {
				detail["function"] = tengo.FormatInstructions(infos[fi].fn.Instructions, 0)
			}
			r.Violate("verifier:"+firstWord(problems[0].What), "emitted bytecode is not well-formed", detail)
			return nil, false
		}
		if len(infos) >= 3 {
			r.Distinct(src)
		}
		return infos, true
	}
	if _, ok := check("after Compiler.Bytecode()"); !ok {
		return
	}
	if e := safely(func() error { rc.BC.RemoveDuplicates(); return nil }); e != nil {
		p, _ := isPanic(e)
		detail["stack"] = trunc(p.stack, 2500)
		r.Violate("dedup-panic", "RemoveDuplicates panicked: "+e.Error(), detail)
		return
	}
	infos, ok := check("after RemoveDuplicates()")
	if !ok {
		return
	}
	// run with the probe asserting the predicted heights
	byIns := map[*byte]*fnInfo{}
	byText := map[string][]*fnInfo{}
	for _, in := range infos {
		if len(in.fn.Instructions) > 0 {
			byIns[&in.fn.Instructions[0]] = in
			byText[string(in.fn.Instructions)] = append(byText[string(in.fn.Instructions)], in)
		}
	}
	var probeProblem string
	var checked int64
	probe := func(v *tengo.VM) {
		if probeProblem != "" {
			return
		}
		ins := v.VerifInsts()
		ip := v.VerifIP()
		if len(ins) == 0 {
			probeProblem = "empty instruction stream at run time"
			return
		}
		in := byIns[&ins[0]]
		if in == nil {
			// copy(fn) duplicates the instruction bytes: match by content
			cands := byText[string(ins)]
			if len(cands) == 0 {
				probeProblem = "VM executes an instruction stream that is not a function of the bytecode"
				return
			}
			for _, c := range cands {
				if c.fn.NumLocals == v.VerifCurFn().NumLocals && c.fn.NumParameters == v.VerifCurFn().NumParameters {
					in = c
				}
			}
			if in == nil {
				probeProblem = fmt.Sprintf("a copy of a compiled function runs with NumLocals=%d NumParameters=%d; the compiled function has NumLocals=%d NumParameters=%d",
					v.VerifCurFn().NumLocals, v.VerifCurFn().NumParameters, cands[0].fn.NumLocals, cands[0].fn.NumParameters)
				return
			}
			byIns[&ins[0]] = in
		}
		if ip < 0 || ip >= len(ins) || !in.starts[ip] {
			probeProblem = fmt.Sprintf("ip %d is not an instruction boundary (function of %d bytes)", ip, len(ins))
			return
		}
		want, known := in.heights[ip]
		if !known {
			probeProblem = fmt.Sprintf("VM dispatches offset %d which the verifier found unreachable", ip)
			return
		}
		got := v.VerifSP() - v.VerifBase() - v.VerifCurFn().NumLocals
		if in.isMain {
			got = v.VerifSP()
		}
		if got != want {
			probeProblem = fmt.Sprintf("at offset %d (%s): operand stack height %d, verifier predicted %d", ip, parser.OpcodeNames[ins[ip]], got, want)
			return
		}
		if fi := v.VerifFrameIndex(); fi < 1 || fi > tengo.MaxFrames {
			probeProblem = fmt.Sprintf("frame index %d out of range", fi)
		}
		checked++
	}
	run := runRaw(rc, rc.BC, 3_000_000, probe)
	r.Eval()
	r.Count("dispatches_checked", checked)
	for op, n := range run.OpHist {
		if n > 0 {
			r.Count("op:"+parser.OpcodeNames[op], n)
		}
	}
	if probeProblem != "" {
		detail["probe"] = probeProblem
		r.Violate("probe:"+firstWord(probeProblem), "the VM's state disagrees with the verified structure of the bytecode", detail)
		return
	}
	if run.Aborted {
		r.Inconc("instruction budget")
		return
	}
	if run.Panic != nil {
		msg := run.Panic.Error()
		benign := strings.Contains(msg, "integer divide by zero") || strings.Contains(msg, "makeslice") ||
			strings.Contains(msg, "index out of range [2048] with length 2048") || strings.Contains(msg, "with length 1024")
		if !benign {
			detail["panic"] = msg
			detail["stack"] = trunc(run.Panic.stack, 2500)
			r.Violate("vm-panic:"+firstWord(msg), "the VM panicked while running compiled code", detail)
			return
		}
		r.Inc("benign-panic")
		return
	}
	if run.Err != nil {
		if internalFault(run.ErrText) {
			detail["error"] = run.ErrText
			r.Violate("internal-fault", "a run of compiled code failed with an internal fault", detail)
			return
		}
		r.Inc("runtime-error")
		return
	}
	r.Inc("clean-run")
	if !run.StackOK {
		r.Violate("stack-not-empty", "a run that ended without error left the operand stack non-empty", detail)
		return
	}
	if r.WantSample() && len(src) < 500 && len(infos) > 3 {
		r.Sample(map[string]interface{}{"source": src, "functions": len(infos), "dispatches_checked": checked})
	}
}

func (c *c02) Finish(m *fw.Merged, tier string) {
	for _, k := range []string{"programs", "functions_verified", "dispatches_checked", "clean-run", "runtime-error", "boundary-probes", "vm-reuse-reruns-checked"} {
		if m.Counters[k] == 0 {
			m.Fail("never observed: " + k)
		}
	}
	for _, name := range parser.OpcodeNames {
		if name != "" && m.Counters["op:"+name] == 0 {
			m.Fail("opcode never dispatched under the probe: " + name)
		}
	}
}
