package props

import (
	"errors"
	"fmt"
	"os"
	"strings"
	"sync/atomic"
	"time"

	"github.com/d5/tengo/v2"
	"github.com/d5/tengo/v2/parser"

	"verif/ref"
)

func init() {
	os.Setenv("TZ", "UTC")
	time.Local = time.UTC
}

// toTengo converts a model value into an engine object, preserving sharing.
func toTengo(v ref.Value, memo map[interface{}]tengo.Object) tengo.Object {
	if memo == nil {
		memo = map[interface{}]tengo.Object{}
	}
	switch x := v.(type) {
	case ref.Int:
		return &tengo.Int{Value: int64(x)}
	case ref.Float:
		return &tengo.Float{Value: float64(x)}
	case ref.Bool:
		if x {
			return tengo.TrueValue
		}
		return tengo.FalseValue
	case ref.Char:
		return &tengo.Char{Value: rune(x)}
	case ref.Str:
		return &tengo.String{Value: string(x)}
	case ref.Undef:
		return tengo.UndefinedValue
	case *ref.Bytes:
		if o, ok := memo[x]; ok {
			return o
		}
		o := &tengo.Bytes{Value: append([]byte{}, x.B...)}
		memo[x] = o
		return o
	case *ref.Time:
		return &tengo.Time{Value: x.T}
	case *ref.Err:
		if o, ok := memo[x]; ok {
			return o
		}
		o := &tengo.Error{}
		memo[x] = o
		o.Value = toTengo(x.V, memo)
		return o
	case *ref.Arr:
		if o, ok := memo[x]; ok {
			return o
		}
		els := x.Els()
		out := make([]tengo.Object, len(els))
		var o tengo.Object
		if x.Imm {
			o = &tengo.ImmutableArray{Value: out}
		} else {
			o = &tengo.Array{Value: out}
		}
		memo[x] = o
		for i, e := range els {
			out[i] = toTengo(e, memo)
		}
		return o
	case *ref.Map:
		if o, ok := memo[x]; ok {
			return o
		}
		out := make(map[string]tengo.Object, len(x.M))
		var o tengo.Object
		if x.Imm {
			o = &tengo.ImmutableMap{Value: out}
		} else {
			o = &tengo.Map{Value: out}
		}
		memo[x] = o
		for k, e := range x.M {
			out[k] = toTengo(e, memo)
		}
		return o
	case *ref.HostFn:
		f := x
		return &tengo.UserFunction{Name: f.Name, Value: func(args ...tengo.Object) (tengo.Object, error) {
			margs := make([]ref.Value, len(args))
			for i, a := range args {
				margs[i] = fromTengo(a)
			}
			r, err := f.F(margs)
			if err != nil {
				switch e := err.(type) {
				case ref.ErrWrongArgs:
					return nil, tengo.ErrWrongNumArguments
				case ref.ErrArgType:
					return nil, tengo.ErrInvalidArgumentType{Name: e.Name, Expected: e.Expected, Found: e.Found}
				}
				return nil, err
			}
			if r == nil {
				return nil, nil
			}
			return toTengo(r, nil), nil
		}}
	}
	panic(fmt.Sprintf("toTengo: unsupported %T", v))
}

// fromTengo converts plain data objects to model values (host functions only).
func fromTengo(o tengo.Object) ref.Value {
	switch x := o.(type) {
	case *tengo.Int:
		return ref.Int(x.Value)
	case *tengo.Float:
		return ref.Float(x.Value)
	case *tengo.Bool:
		return ref.Bool(!x.IsFalsy())
	case *tengo.Char:
		return ref.Char(x.Value)
	case *tengo.String:
		return ref.Str(x.Value)
	case *tengo.Bytes:
		return &ref.Bytes{B: append([]byte{}, x.Value...)}
	case *tengo.Array:
		els := make([]ref.Value, len(x.Value))
		for i, e := range x.Value {
			els[i] = fromTengo(e)
		}
		return ref.NewArr(els, false)
	case *tengo.ImmutableArray:
		els := make([]ref.Value, len(x.Value))
		for i, e := range x.Value {
			els[i] = fromTengo(e)
		}
		return ref.NewArr(els, true)
	case *tengo.Map:
		m := map[string]ref.Value{}
		for k, e := range x.Value {
			m[k] = fromTengo(e)
		}
		return ref.NewMap(m, false)
	}
	return ref.Undef{}
}

// ---------------------------------------------------------------- probe

// probeState is the monitor state of the (single) VM running in this worker.
type probeState struct {
	count     int64
	budget    int64
	aborted   bool
	opHist    [64]int64
	userProbe func(v *tengo.VM)
}

var curProbe atomic.Pointer[probeState]

func installProbe(ps *probeState) {
	curProbe.Store(ps)
	tengo.VerifProbe = func(v *tengo.VM) {
		p := curProbe.Load()
		if p == nil {
			return
		}
		p.count++
		ins := v.VerifInsts()
		ip := v.VerifIP()
		if ip >= 0 && ip < len(ins) {
			if op := ins[ip]; int(op) < len(p.opHist) {
				p.opHist[op]++
			}
		}
		if p.userProbe != nil {
			p.userProbe(v)
		}
		if p.budget > 0 && p.count > p.budget && !p.aborted {
			p.aborted = true
			v.VerifForceStop()
		}
	}
}

func removeProbe() {
	curProbe.Store(nil)
	tengo.VerifProbe = nil
}

// engineResult is what one compile+run of the real engine produced.
type engineResult struct {
	Phase    string // parse-error | compile-error | runtime-error | ok | panic | aborted
	Err      string // first line, prefix stripped
	FullErr  string
	ErrVal   error
	Globals  map[string]string
	Objects  map[string]tengo.Object
	Steps    int64
	OpHist   [64]int64
	Compiled *tengo.Compiled
	Panic    *panicErr
}

type engineOpts struct {
	Inputs    map[string]tengo.Object
	Mods      *tengo.ModuleMap
	Budget    int64
	MaxAllocs int64
	UserProbe func(v *tengo.VM)
	NoRun     bool
}

func firstLine(s string) string {
	if i := strings.IndexByte(s, '\n'); i >= 0 {
		return s[:i]
	}
	return s
}

func classifyCompileErr(err error) (phase, msg string) {
	var pe parser.ErrorList
	if errors.As(err, &pe) {
		return "parse-error", firstLine(err.Error())
	}
	var ce *tengo.CompilerError
	if errors.As(err, &ce) {
		return "compile-error", strings.TrimPrefix(firstLine(err.Error()), "Compile Error: ")
	}
	return "compile-error", firstLine(err.Error())
}

// runEngine compiles src through Script and runs it through RunContext.
func runEngine(src []byte, o engineOpts) (res engineResult) {
	s := tengo.NewScript(src)
	for n, v := range o.Inputs {
		if err := s.Add(n, v); err != nil {
			res.Phase, res.Err = "compile-error", "add: "+err.Error()
			return
		}
	}
	if o.Mods != nil {
		s.SetImports(o.Mods)
	}
	if o.MaxAllocs != 0 {
		s.SetMaxAllocs(o.MaxAllocs)
	}
	var c *tengo.Compiled
	err := safely(func() error {
		var e error
		c, e = s.Compile()
		return e
	})
	if err != nil {
		if p, ok := isPanic(err); ok {
			res.Phase, res.Err, res.Panic, res.FullErr = "panic", "compile: "+p.Error(), p, p.stack
			return
		}
		res.Phase, res.Err = classifyCompileErr(err)
		res.FullErr, res.ErrVal = err.Error(), err
		return
	}
	res.Compiled = c
	if o.NoRun {
		res.Phase = "ok"
		return
	}
	ps := &probeState{budget: o.Budget, userProbe: o.UserProbe}
	installProbe(ps)
	err = safely(func() error { return c.RunContext(bg) })
	removeProbe()
	res.Steps, res.OpHist = ps.count, ps.opHist
	res.Globals, res.Objects = map[string]string{}, map[string]tengo.Object{}
	perr := safely(func() error {
		for _, v := range c.GetAll() {
			res.Globals[v.Name()] = canon(v.Object())
			res.Objects[v.Name()] = v.Object()
		}
		return nil
	})
	if perr != nil {
		p, _ := isPanic(perr)
		res.Phase, res.Err, res.Panic = "panic", "GetAll: "+perr.Error(), p
		return
	}
	if ps.aborted {
		res.Phase = "aborted"
		return
	}
	if err != nil {
		if p, ok := isPanic(err); ok {
			res.Phase, res.Err, res.Panic, res.FullErr = "panic", "run: "+p.Error(), p, p.stack
			return
		}
		res.Phase = "runtime-error"
		res.FullErr, res.ErrVal = err.Error(), err
		res.Err = strings.TrimPrefix(firstLine(err.Error()), "Runtime Error: ")
		return
	}
	res.Phase = "ok"
	return
}
