package props

import (
	"verif/ref"
)

// modelSpecified runs the reference interpreter as a filter for the
// engine-versus-engine differentials: programs whose outcome depends on an
// open choice of the language (map iteration order, append capacity, ...)
// or that exceed the model's budgets are not judged.
func modelSpecified(src string, mods map[string]*ref.Module, seed int64) (bool, string) {
	o := ref.Run(ref.Program{Src: []byte(src), Mods: mods, Cfg: ref.DefaultConfig()}, seed)
	if o.Kind == "unspecified" {
		return false, o.Why
	}
	return true, ""
}
