package props

import (
	"bytes"
	gojson "encoding/json"
	"fmt"
	"math"
	"math/rand"
	"sort"
	"strconv"
	"strings"
	"unicode/utf8"

	"github.com/d5/tengo/v2"
	tjson "github.com/d5/tengo/v2/stdlib/json"

	"verif/fw"
)

// C18 — JSON encode/decode round-trips and agrees with encoding/json.
type c18 struct {
	compiled *tengo.Compiled
}

func init() { fw.Register(&c18{}) }

func (*c18) ID() string    { return "C18" }
func (*c18) Level() string { return "exploration" }
func (*c18) NumCases(tier string) int {
	if tier == "thorough" {
		return 30000
	}
	return 5000
}
func (*c18) Rule() string {
	return "each case = 100 generated values (nesting<=6: ints at int64/2^53 edges, floats around the 1e-6/1e21 format switches, strings with controls/quotes/non-ASCII/U+2028) " +
		"encoded by the real encoder, checked with json.Valid + encoding/json(UseNumber) + decoded back; and 200 decoder inputs (valid texts with random whitespace/escape/number spellings, " +
		"byte-level mutations of them, raw bytes) compared with json.Valid / encoding/json; Go API and script-level json.encode/decode. " +
		"distinct = distinct text; non-trivial = text longer than 2 bytes"
}
func (*c18) Assumptions() []string {
	return []string{
		"encoding/json of the local toolchain (Valid, Decoder.UseNumber) is the executable specification",
		"generated and mutated inputs are <= 4 KiB; a separate family nests arrays/objects 9999..3*10^6 deep around encoding/json's 10000-level limit (validity and totality only)",
		"generated string values are valid UTF-8 (JSON text cannot carry anything else); three exact invalid strings are probed separately and listed as known findings",
		"number literals whose float64 value overflows have no reference datum: only totality is required for them",
		"integer-looking literals beyond int64 cannot be typed int: the decoder must yield the float of the same magnitude (not a different number)",
	}
}

var c18Ints = []int64{0, 1, -1, 7, 42, 255, 1 << 31, -(1 << 31), 1<<53 - 1, 1 << 53, 1<<53 + 1, -(1<<53 + 1), math.MaxInt64, math.MinInt64, math.MaxInt64 - 1, 1000000, 999999999999}
var c18Floats = []float64{0, math.Copysign(0, -1), 0.5, -0.5, 1, 1.5, 1e-6, 9.99e-7, 1e-7, 1.5e-9, 1e-10, 1.5e-12, 1e-99, 1e-100, 1e21, 9.9e20, 1e20, 1e19, 9.223372036854775e18, 9.3e18, -1e19,
	// whole-number floats at the edges of the integer types (an encoder that takes an integer short cut must get these right)
	9223372036854775808.0, -9223372036854775808.0, 9223372036854774784.0, 9223372036854777856.0, -9223372036854777856.0, 4611686018427387904.0, 18446744073709551616.0, 18446744073709549568.0,
	4294967296.0, 2147483648.0, -2147483649.0, 9007199254740993.0, 1e15, 1e16, 123456789012345680.0, -1e18,
	123456789.125, 1.0 / 3, 5e-324, math.MaxFloat64, -math.MaxFloat64, 1e300, 1e-300, 2.5e-8, 100, 1e6, 6.02e23, -2.718281828e-10, 1 << 53, 4.9e-320, 3.14159}
var c18Strs = []string{"", "a", "key", "hello world", "héllo", "日本語", "🙂", "q\"uote", "back\\slash", "sl/ash", "tab\t", "nl\n", "cr\r", "\x00", "\x01\x1f", "\x7f", "\u2028\u2029", "<>&", "\u00e9\u0301",
	"\ufffd", "\U0010FFFF", "a b", "ünï", "\b\f", strings.Repeat("x", 70)}

func c18GenValue(r *rand.Rand, depth int) tengo.Object {
	k := r.Intn(10)
	if depth <= 0 && k >= 7 {
		k = r.Intn(7)
	}
	switch k {
	case 0:
		if r.Intn(3) == 0 {
			v := r.Int63() >> uint(r.Intn(63))
			if r.Intn(2) == 0 {
				v = -v
			}
			return &tengo.Int{Value: v}
		}
		return &tengo.Int{Value: pick(r, c18Ints)}
	case 1, 2:
		switch r.Intn(4) {
		case 0:
			for {
				f := math.Float64frombits(r.Uint64())
				if !math.IsNaN(f) && !math.IsInf(f, 0) {
					return &tengo.Float{Value: f}
				}
			}
		case 1:
			return &tengo.Float{Value: (r.Float64() - 0.5) * math.Pow(10, float64(r.Intn(50)-25))}
		default:
			return &tengo.Float{Value: pick(r, c18Floats)}
		}
	case 3, 4:
		return &tengo.String{Value: c18GenStr(r)}
	case 5:
		if r.Intn(2) == 0 {
			return tengo.TrueValue
		}
		return tengo.FalseValue
	case 6:
		return tengo.UndefinedValue
	case 7, 8:
		n := r.Intn(5)
		arr := make([]tengo.Object, n)
		for i := range arr {
			arr[i] = c18GenValue(r, depth-1)
		}
		if r.Intn(6) == 0 {
			return &tengo.ImmutableArray{Value: arr}
		}
		return &tengo.Array{Value: arr}
	default:
		n := r.Intn(5)
		m := make(map[string]tengo.Object, n)
		for i := 0; i < n; i++ {
			m[c18GenStr(r)] = c18GenValue(r, depth-1)
		}
		if r.Intn(6) == 0 {
			return &tengo.ImmutableMap{Value: m}
		}
		return &tengo.Map{Value: m}
	}
}

func c18GenStr(r *rand.Rand) string {
	if r.Intn(3) == 0 {
		n := r.Intn(8)
		var sb strings.Builder
		for i := 0; i < n; i++ {
			switch r.Intn(5) {
			case 0:
				sb.WriteRune(rune(r.Intn(0x20)))
			case 1:
				sb.WriteRune(rune(0x20 + r.Intn(0x60)))
			case 2:
				sb.WriteRune(rune(0x80 + r.Intn(0x800)))
			case 3:
				cp := rune(0x800 + r.Intn(0xF000))
				if cp >= 0xD800 && cp <= 0xDFFF {
					cp = 0x2028
				}
				sb.WriteRune(cp)
			default:
				sb.WriteRune(rune(0x10000 + r.Intn(0x100000)))
			}
		}
		return sb.String()
	}
	return pick(r, c18Strs)
}

// refTree is the canonical comparison form: "i<dec>", "f<bits>", "F<literal>"
// (float overflow: no datum), "s<q>", "true", "false", "null", [..], {..sorted}.
func c18CanonRef(x interface{}, sb *strings.Builder, flags map[string]bool) {
	switch v := x.(type) {
	case nil:
		sb.WriteString("null")
	case bool:
		fmt.Fprintf(sb, "%v", v)
	case string:
		fmt.Fprintf(sb, "s%q", v)
	case gojson.Number:
		s := string(v)
		if strings.ContainsAny(s, ".eE") {
			f, err := strconv.ParseFloat(s, 64)
			if err != nil {
				flags["float-overflow"] = true
				sb.WriteString("F?")
				return
			}
			c18Num(sb, f)
			return
		}
		n, err := strconv.ParseInt(s, 10, 64)
		if err != nil {
			f, ferr := strconv.ParseFloat(s, 64)
			if ferr != nil {
				flags["float-overflow"] = true
				sb.WriteString("F?")
				return
			}
			flags["bigint"] = true
			c18Num(sb, f)
			return
		}
		fmt.Fprintf(sb, "i%d", n)
	case []interface{}:
		sb.WriteString("[")
		for i, e := range v {
			if i > 0 {
				sb.WriteString(",")
			}
			c18CanonRef(e, sb, flags)
		}
		sb.WriteString("]")
	case map[string]interface{}:
		keys := make([]string, 0, len(v))
		for k := range v {
			keys = append(keys, k)
		}
		sort.Strings(keys)
		sb.WriteString("{")
		for i, k := range keys {
			if i > 0 {
				sb.WriteString(",")
			}
			fmt.Fprintf(sb, "%q:", k)
			c18CanonRef(v[k], sb, flags)
		}
		sb.WriteString("}")
	default:
		fmt.Fprintf(sb, "<?%T>", x)
	}
}

func c18Num(sb *strings.Builder, f float64) {
	if f == 0 {
		f = 0 // -0 == 0 as a JSON datum for typing purposes? keep sign out: int/float typing is separate
	}
	fmt.Fprintf(sb, "f%016x", math.Float64bits(f))
}

// canonical form of a decoded tengo object in the same language as c18CanonRef
func c18CanonObj(o tengo.Object, sb *strings.Builder) {
	switch v := o.(type) {
	case nil:
		sb.WriteString("<GONIL>")
	case *tengo.Undefined:
		sb.WriteString("null")
	case *tengo.Bool:
		if v.IsFalsy() {
			sb.WriteString("false")
		} else {
			sb.WriteString("true")
		}
	case *tengo.String:
		fmt.Fprintf(sb, "s%q", v.Value)
	case *tengo.Int:
		fmt.Fprintf(sb, "i%d", v.Value)
	case *tengo.Float:
		c18Num(sb, v.Value)
	case *tengo.Array:
		sb.WriteString("[")
		for i, e := range v.Value {
			if i > 0 {
				sb.WriteString(",")
			}
			c18CanonObj(e, sb)
		}
		sb.WriteString("]")
	case *tengo.Map:
		keys := make([]string, 0, len(v.Value))
		for k := range v.Value {
			keys = append(keys, k)
		}
		sort.Strings(keys)
		sb.WriteString("{")
		for i, k := range keys {
			if i > 0 {
				sb.WriteString(",")
			}
			fmt.Fprintf(sb, "%q:", k)
			c18CanonObj(v.Value[k], sb)
		}
		sb.WriteString("}")
	default:
		fmt.Fprintf(sb, "<%s>", o.TypeName())
	}
}

// numeric-normalised canonical form of an input VALUE (for round-trip
// comparison): ints and integral floats compare by float value, immutables as
// their mutable shapes.
func c18CanonVal(o tengo.Object, sb *strings.Builder) {
	switch v := o.(type) {
	case *tengo.Int:
		fmt.Fprintf(sb, "n%016x", math.Float64bits(float64(v.Value)+0))
	case *tengo.Float:
		f := v.Value
		if f == 0 {
			f = 0
		}
		fmt.Fprintf(sb, "n%016x", math.Float64bits(f))
	case *tengo.Array:
		c18CanonSeq(v.Value, sb)
	case *tengo.ImmutableArray:
		c18CanonSeq(v.Value, sb)
	case *tengo.Map:
		c18CanonKV(v.Value, sb)
	case *tengo.ImmutableMap:
		c18CanonKV(v.Value, sb)
	default:
		c18CanonObj(o, sb)
	}
}

func c18CanonSeq(a []tengo.Object, sb *strings.Builder) {
	sb.WriteString("[")
	for i, e := range a {
		if i > 0 {
			sb.WriteString(",")
		}
		c18CanonVal(e, sb)
	}
	sb.WriteString("]")
}

func c18CanonKV(m map[string]tengo.Object, sb *strings.Builder) {
	keys := make([]string, 0, len(m))
	for k := range m {
		keys = append(keys, k)
	}
	sort.Strings(keys)
	sb.WriteString("{")
	for i, k := range keys {
		if i > 0 {
			sb.WriteString(",")
		}
		fmt.Fprintf(sb, "%q:", k)
		c18CanonVal(m[k], sb)
	}
	sb.WriteString("}")
}

// exact int preservation: ints must come back as the same int (not merely the same float)
func c18IntsExact(a, b tengo.Object) bool {
	switch x := a.(type) {
	case *tengo.Int:
		y, ok := b.(*tengo.Int)
		return ok && y.Value == x.Value
	case *tengo.Array:
		return c18SeqExact(x.Value, b)
	case *tengo.ImmutableArray:
		return c18SeqExact(x.Value, b)
	case *tengo.Map:
		return c18KVExact(x.Value, b)
	case *tengo.ImmutableMap:
		return c18KVExact(x.Value, b)
	}
	return true
}

func c18SeqExact(a []tengo.Object, b tengo.Object) bool {
	y, ok := b.(*tengo.Array)
	if !ok || len(y.Value) != len(a) {
		return false
	}
	for i := range a {
		if !c18IntsExact(a[i], y.Value[i]) {
			return false
		}
	}
	return true
}

func c18KVExact(a map[string]tengo.Object, b tengo.Object) bool {
	y, ok := b.(*tengo.Map)
	if !ok || len(y.Value) != len(a) {
		return false
	}
	for k, v := range a {
		w, ok := y.Value[k]
		if !ok || !c18IntsExact(v, w) {
			return false
		}
	}
	return true
}

const c18Script = `
json := import("json")
out := undefined
if mode == 1 { out = json.encode(v) } else { out = json.decode(v) }
`

func (c *c18) script() *tengo.Compiled {
	if c.compiled != nil {
		return c.compiled
	}
	s := tengo.NewScript([]byte(c18Script))
	s.SetImports(stdModules())
	_ = s.Add("v", 0)
	_ = s.Add("mode", 1)
	cp, err := s.Compile()
	if err != nil {
		panic(err)
	}
	c.compiled = cp
	return cp
}

// strings that are not valid UTF-8 cannot be carried by JSON text: the encoder emits the raw bytes and
// both decoders read them back as U+FFFD. Exact inputs, listed as known findings.
var c18InvalidUTF8 = []string{"a\xffb", "\xc3", "\xed\xa0\x80"}

func (c *c18) invalidUTF8Probes(r *fw.Rec) {
	for _, in := range c18InvalidUTF8 {
		var back tengo.Object
		err := safely(func() error {
			b, e := tjson.Encode(&tengo.String{Value: in})
			if e != nil {
				return e
			}
			back, e = tjson.Decode(b)
			return e
		})
		r.Eval()
		r.Inc("invalid-utf8-probes")
		if s, ok := back.(*tengo.String); err == nil && ok && s.Value == in {
			continue
		}
		got := fmt.Sprint(err)
		if back != nil {
			got = fmt.Sprintf("%q", back.String())
		}
		r.Violate(fmt.Sprintf("roundtrip:invalid-utf8-string:%x", in), "decode(encode(s)) != s for a string that is not valid UTF-8",
			map[string]interface{}{"string_hex": fmt.Sprintf("%x", in), "decoded": got})
	}
}

func (c *c18) RunCase(r *fw.Rec, cs fw.Case) {
	if cs.Index == 0 {
		c.invalidUTF8Probes(r)
	}
	rng := cs.Rng("c18")
	for i := 0; i < 100; i++ {
		c.encodeOne(r, rng, i%4 == 0)
	}
	for i := 0; i < 200; i++ {
		c.decodeOne(r, rng, i%5 == 0)
	}
}

func (c *c18) encodeOne(r *fw.Rec, rng *rand.Rand, viaScript bool) {
	v := c18GenValue(rng, 1+rng.Intn(6))
	var enc []byte
	entry := "json.Encode"
	err := safely(func() error {
		var e error
		if viaScript {
			entry = "script json.encode"
			cp := c.script()
			_ = cp.Set("v", v)
			_ = cp.Set("mode", 1)
			if e = cp.RunContext(bg); e != nil {
				return e
			}
			out := cp.Get("out").Object()
			b, ok := out.(*tengo.Bytes)
			if !ok {
				return fmt.Errorf("json.encode returned %s: %s", out.TypeName(), out.String())
			}
			enc = b.Value
			return nil
		}
		enc, e = tjson.Encode(v)
		return e
	})
	r.Eval()
	var vs strings.Builder
	c18CanonVal(v, &vs)
	detail := map[string]interface{}{"value": trunc(v.String(), 600), "entry": entry}
	if err != nil {
		detail["error"] = err.Error()
		if p, ok := isPanic(err); ok {
			detail["stack"] = trunc(p.stack, 2500)
			r.Violate("encode-panic", "encoder panicked", detail)
		} else {
			r.Violate("encode-error", "encoder failed on a JSON-representable value", detail)
		}
		return
	}
	detail["encoding"] = string(enc)
	r.Inc("encoded")
	if len(enc) > 2 {
		r.Distinct("E", string(enc))
	}
	if !gojson.Valid(enc) {
		r.Violate("encode-invalid", "encoding is not valid JSON", detail)
		return
	}
	// encoding/json must read the same datum
	dec := gojson.NewDecoder(bytes.NewReader(enc))
	dec.UseNumber()
	var x interface{}
	if e := dec.Decode(&x); e != nil {
		detail["error"] = e.Error()
		r.Violate("encode-ref-reject", "encoding/json cannot read the encoding", detail)
		return
	}
	// compare reference datum with the value, numbers by float value
	var rs strings.Builder
	c18CanonRefNum(x, &rs)
	if rs.String() != vs.String() {
		detail["reference_datum"] = trunc(rs.String(), 800)
		detail["value_canon"] = trunc(vs.String(), 800)
		r.Violate("encode-ref-differs", "encoding/json reads a different datum from the encoding", detail)
		return
	}
	// round trip through the real decoder
	var back tengo.Object
	err = safely(func() error {
		var e error
		back, e = tjson.Decode(enc)
		return e
	})
	r.Eval()
	if err != nil {
		detail["error"] = err.Error()
		r.Violate("roundtrip-decode-error", "decoder rejects the encoder's output", detail)
		return
	}
	var bs strings.Builder
	c18CanonVal(back, &bs)
	eq1, eq2 := false, false
	_ = safely(func() error { eq1 = v.Equals(back); eq2 = back.Equals(v); return nil })
	if bs.String() != vs.String() || !eq1 || !eq2 || !c18IntsExact(v, back) {
		detail["decoded"] = trunc(back.String(), 600)
		detail["equals"] = []bool{eq1, eq2}
		sig := "roundtrip-differs"
		if strings.Contains(string(enc), "00000000000000000000") || c18HasBigFloatInt(v) {
			sig = "roundtrip-differs:integral-float-beyond-int64"
		}
		r.Violate(sig, "Decode(Encode(v)) is not equal to v", detail)
		return
	}
	if r.WantSample() && len(enc) > 10 && len(enc) < 300 {
		r.Sample(map[string]interface{}{"kind": "encode", "value": v.String(), "encoding": string(enc)})
	}
}

func c18HasBigFloatInt(o tengo.Object) bool {
	switch v := o.(type) {
	case *tengo.Float:
		return math.Abs(v.Value) >= 9.2e18 && math.Abs(v.Value) < 1e21
	case *tengo.Array:
		for _, e := range v.Value {
			if c18HasBigFloatInt(e) {
				return true
			}
		}
	case *tengo.ImmutableArray:
		for _, e := range v.Value {
			if c18HasBigFloatInt(e) {
				return true
			}
		}
	case *tengo.Map:
		for _, e := range v.Value {
			if c18HasBigFloatInt(e) {
				return true
			}
		}
	case *tengo.ImmutableMap:
		for _, e := range v.Value {
			if c18HasBigFloatInt(e) {
				return true
			}
		}
	}
	return false
}

// reference datum with all numbers by float value (language of c18CanonVal)
func c18CanonRefNum(x interface{}, sb *strings.Builder) {
	switch v := x.(type) {
	case gojson.Number:
		f, err := strconv.ParseFloat(string(v), 64)
		if err != nil {
			sb.WriteString("n?")
			return
		}
		if f == 0 {
			f = 0
		}
		fmt.Fprintf(sb, "n%016x", math.Float64bits(f))
	case []interface{}:
		sb.WriteString("[")
		for i, e := range v {
			if i > 0 {
				sb.WriteString(",")
			}
			c18CanonRefNum(e, sb)
		}
		sb.WriteString("]")
	case map[string]interface{}:
		keys := make([]string, 0, len(v))
		for k := range v {
			keys = append(keys, k)
		}
		sort.Strings(keys)
		sb.WriteString("{")
		for i, k := range keys {
			if i > 0 {
				sb.WriteString(",")
			}
			fmt.Fprintf(sb, "%q:", k)
			c18CanonRefNum(v[k], sb)
		}
		sb.WriteString("}")
	default:
		c18CanonRef(x, sb, map[string]bool{})
	}
}

// ---- decoder inputs --------------------------------------------------------

func c18WriteText(r *rand.Rand, sb *strings.Builder, depth int) {
	ws := func() {
		for r.Intn(4) == 0 {
			sb.WriteString(pick(r, []string{" ", "\n", "\t", "\r", "  "}))
		}
	}
	ws()
	k := r.Intn(10)
	if depth <= 0 && k >= 7 {
		k = r.Intn(7)
	}
	switch k {
	case 0, 1, 2:
		sb.WriteString(c18NumText(r))
	case 3, 4:
		c18StrText(r, sb)
	case 5:
		sb.WriteString(pick(r, []string{"true", "false"}))
	case 6:
		sb.WriteString("null")
	case 7, 8:
		sb.WriteString("[")
		n := r.Intn(4)
		for i := 0; i < n; i++ {
			if i > 0 {
				sb.WriteString(",")
			}
			c18WriteText(r, sb, depth-1)
		}
		ws()
		sb.WriteString("]")
	default:
		sb.WriteString("{")
		n := r.Intn(4)
		for i := 0; i < n; i++ {
			if i > 0 {
				sb.WriteString(",")
			}
			ws()
			if r.Intn(5) == 0 {
				sb.WriteString(`"dup"`)
			} else {
				c18StrText(r, sb)
			}
			ws()
			sb.WriteString(":")
			c18WriteText(r, sb, depth-1)
		}
		ws()
		sb.WriteString("}")
	}
	ws()
}

func c18NumText(r *rand.Rand) string {
	switch r.Intn(12) {
	case 0:
		return strconv.FormatInt(pick(r, c18Ints), 10)
	case 1:
		return pick(r, []string{"0", "-0", "0.0", "-0.0", "0e0", "0E+0", "-0e-5", "1.0", "1e0", "1E2", "1e+2", "1e-2", "10", "100e-2", "1.5e300", "2.5E-300",
			"0.1", "0.000001", "123.456e3", "1e21", "1e-7"})
	case 2:
		// integer literal beyond int64
		return pick(r, []string{"9223372036854775808", "-9223372036854775809", "18446744073709551616", "100000000000000000000", "-100000000000000000000",
			"9223372036854775807", "-9223372036854775808", "123456789012345678901234567890"})
	case 3:
		// float overflow / underflow
		return pick(r, []string{"1e999", "-1e999", "1e-999", "1e308", "1.8e308", "1e309", "4.9e-324", "2e-324", "1" + strings.Repeat("0", 400), "0." + strings.Repeat("0", 400) + "1"})
	case 4:
		return strconv.FormatFloat(pick(r, c18Floats), byte("efg"[r.Intn(3)]), -1, 64)
	case 5:
		return strconv.FormatFloat(math.Float64frombits(r.Uint64()&^(0x7ff<<52)|uint64(r.Intn(2046)+1)<<52), 'g', -1, 64)
	case 6:
		return fmt.Sprintf("%d.%de%s%d", r.Intn(1000), r.Intn(1000), pick(r, []string{"", "+", "-"}), r.Intn(40))
	case 7:
		return fmt.Sprintf("%d%s%d", r.Intn(100), pick(r, []string{"e", "E"}), r.Intn(30))
	default:
		v := r.Int63() >> uint(r.Intn(63))
		if r.Intn(2) == 0 {
			v = -v
		}
		return strconv.FormatInt(v, 10)
	}
}

func c18StrText(r *rand.Rand, sb *strings.Builder) {
	sb.WriteString(`"`)
	n := r.Intn(8)
	for i := 0; i < n; i++ {
		switch r.Intn(14) {
		case 0:
			sb.WriteString(pick(r, []string{`\"`, `\\`, `\/`, `\b`, `\f`, `\n`, `\r`, `\t`}))
		case 1:
			fmt.Fprintf(sb, pick(r, []string{`\u%04x`, `\u%04X`}), r.Intn(0x10000))
		case 2:
			// surrogate pair
			cp := 0x10000 + r.Intn(0x100000)
			hi, lo := 0xD800+((cp-0x10000)>>10), 0xDC00+((cp-0x10000)&0x3ff)
			fmt.Fprintf(sb, `\u%04x\u%04x`, hi, lo)
		case 3:
			// lone / reversed surrogates
			sb.WriteString(pick(r, []string{`\ud800`, `\udc00`, `\udc00\ud800`, `\ud800\u0041`, `\uD800\uD800\uDC00`, `\ud83d`}))
		case 4:
			sb.WriteRune(rune(0x80 + r.Intn(0x700)))
		case 5:
			sb.WriteRune(rune(0x10000 + r.Intn(0x1000)))
		case 6:
			sb.WriteString(pick(r, []string{"\u2028", "\u2029", "\u00e9", "日本", "\x7f", "<", "&", "'", "/"}))
		case 7:
			// invalid UTF-8 bytes inside a string (valid JSON for encoding/json: replaced by U+FFFD)
			sb.WriteString(pick(r, []string{"\xff", "\xc0\xaf", "\xe2\x82", "\xed\xa0\x80", "\xf4\x90\x80\x80", "\x80"}))
		default:
			sb.WriteByte(byte(0x20 + r.Intn(0x5f)))
			if b := sb.String(); b[len(b)-1] == '"' || b[len(b)-1] == '\\' {
				sb.WriteByte('"') // make `\"` or `""`... may produce invalid text: fine, it is judged by json.Valid
			}
		}
	}
	sb.WriteString(`"`)
}

func c18Mutate(r *rand.Rand, s []byte) []byte {
	if len(s) == 0 {
		return []byte{byte(r.Intn(256))}
	}
	out := append([]byte{}, s...)
	n := 1 + r.Intn(2)
	alphabet := []byte("{}[],:\"\\-+.eE0123456789truefalsn \n\t/u\x00\xff'")
	for i := 0; i < n && len(out) > 0; i++ {
		p := r.Intn(len(out))
		switch r.Intn(6) {
		case 0:
			out = append(out[:p], out[p+1:]...)
		case 1:
			out = append(out[:p], append([]byte{out[p]}, out[p:]...)...)
		case 2:
			out = append(out[:p], append([]byte{alphabet[r.Intn(len(alphabet))]}, out[p:]...)...)
		case 3:
			out[p] = alphabet[r.Intn(len(alphabet))]
		case 4:
			out = out[:p]
		default:
			q := r.Intn(len(out))
			out[p], out[q] = out[q], out[p]
		}
	}
	return out
}

func (c *c18) decodeOne(r *fw.Rec, rng *rand.Rand, viaScript bool) {
	var text []byte
	kind := ""
	deepN := 0
	if rng.Intn(5000) == 0 {
		// nesting around and far beyond encoding/json's 10000-level limit (validity and totality only)
		deepN = pick(rng, []int{9999, 10000, 10001, 10002, 10001, 10000, 20000, 150000})
		if rng.Intn(12) == 0 {
			deepN = 3000000 // the unbounded decoder of the pinned tree dies on this with a fatal stack overflow
		}
		if viaScript && deepN > 150000 {
			deepN = 150000
		}
	}
	switch k := rng.Intn(10); {
	case deepN > 0:
		open, close := "[", "]"
		switch rng.Intn(3) {
		case 1:
			open, close = "{\"a\":", "}"
		case 2:
			open, close = "[{\"k\":", "}]"
			deepN /= 2
		}
		inner := pick(rng, []string{"", "1", "null", "\"s\""})
		if strings.HasPrefix(open, "{") && inner == "" {
			inner = "0"
		}
		if open == "[{\"k\":" && inner == "" {
			inner = "[]"
		}
		text = []byte(strings.Repeat(open, deepN) + inner + strings.Repeat(close, deepN))
		kind = "deep-nesting"
	case k < 4:
		var sb strings.Builder
		c18WriteText(rng, &sb, rng.Intn(5))
		text = []byte(sb.String())
		kind = "generated"
	case k < 8:
		var sb strings.Builder
		c18WriteText(rng, &sb, rng.Intn(4))
		text = c18Mutate(rng, []byte(sb.String()))
		kind = "mutated"
	case k < 9:
		// scalar-focused mutations: number and literal spellings
		base := pick(rng, []string{"01", "-01", "-", "1.", ".5", "1e", "1e+", "+1", "1.e5", "-00.5", "0x10", "1_0", "Infinity", "NaN", "nul", "tru", "True", "[1,]", "{\"a\":1,}", "[,1]",
			"{\"a\"}", "{a:1}", "'a'", "\"\\x41\"", "\"\\u12\"", "\"\\ud800\\u\"", "\"\\ud83d\\ndead\"", "\"\\ud83d\\tdeaf\"", "\"\\udbff\\\\dfff\"", "\"\\ud800\\/dc00\"", "\"\\ud83d\\ude00\"", "\"\\ud83d\\u0041\"", "\"\\ud83dxdead\"", "\"\\ude00\\ud83d\"", "{\"\\ud83d\\ndead\":1}", "\"\t\"", "\"\n\"", "1 2", "[] []", "", " ", "\"abc", "[", "{", "[[[[[[]]]]]]", "-0", "-0.0e-0", "1E+00", "\"\\u0000\"",
			"{\"\":\"\"}", "\ufeff1", "1\x00", "// c\n1", "[1 2]", "{\"a\":1 \"b\":2}", "-007", "{\"a\":-007}", "00", "0.0.0", "1e5e5", "--1"})
		text = []byte(base)
		if rng.Intn(3) == 0 {
			text = c18Mutate(rng, text)
		}
		kind = "spelling"
	default:
		n := rng.Intn(20)
		text = make([]byte, n)
		alphabet := []byte("{}[],:\"\\-+.eE0123456789truefalsn \n\tu")
		for i := range text {
			if rng.Intn(8) == 0 {
				text[i] = byte(rng.Intn(256))
			} else {
				text[i] = alphabet[rng.Intn(len(alphabet))]
			}
		}
		kind = "raw"
	}
	if len(text) > 4096 && kind != "deep-nesting" {
		text = text[:4096]
	}
	valid := gojson.Valid(text)
	var got tengo.Object
	var decErr error
	entry := "json.Decode"
	err := safely(func() error {
		if viaScript {
			entry = "script json.decode"
			cp := c.script()
			if utf8.Valid(text) || rng.Intn(2) == 0 {
				_ = cp.Set("v", string(text))
			} else {
				_ = cp.Set("v", append([]byte{}, text...))
			}
			_ = cp.Set("mode", 2)
			if e := cp.RunContext(bg); e != nil {
				return e
			}
			out := cp.Get("out").Object()
			if eo, ok := out.(*tengo.Error); ok {
				decErr = fmt.Errorf("%s", eo.String())
			} else {
				got = out
			}
			return nil
		}
		got, decErr = tjson.Decode(append([]byte{}, text...))
		return nil
	})
	r.Eval()
	r.Inc("decode:" + kind)
	if valid {
		r.Inc("decode:valid")
	} else {
		r.Inc("decode:invalid")
	}
	if len(text) > 2 && len(text) < 5000 {
		r.Distinct("D", string(text))
	} else if len(text) >= 5000 {
		r.Distinct("D-deep", fmt.Sprint(len(text)), string(text[:40]))
	}
	detail := map[string]interface{}{"text": trunc(string(text), 2000), "text_hex": fmt.Sprintf("%x", trunc(string(text), 300)), "entry": entry, "json.Valid": valid, "kind": kind}
	if kind == "deep-nesting" {
		detail["nesting_depth"] = deepN
		detail["text_length"] = len(text)
	}
	if err != nil {
		detail["error"] = err.Error()
		if p, ok := isPanic(err); ok {
			detail["stack"] = trunc(p.stack, 2500)
			r.Violate("decode-panic", "decoder panicked", detail)
		} else {
			r.Violate("decode-run-error", "script-level json.decode raised a run-time error", detail)
		}
		return
	}
	if valid && decErr != nil {
		detail["error"] = decErr.Error()
		r.Violate("decode-rejects-valid", "decoder rejects text that encoding/json considers valid", detail)
		return
	}
	if !valid && decErr == nil {
		detail["decoded"] = trunc(got.String(), 400)
		r.Violate("decode-accepts-invalid", "decoder accepts text that encoding/json considers invalid", detail)
		return
	}
	if !valid {
		return
	}
	if kind == "deep-nesting" {
		return
	}
	// same data
	dec := gojson.NewDecoder(bytes.NewReader(text))
	dec.UseNumber()
	var x interface{}
	if e := dec.Decode(&x); e != nil {
		r.Inconc("reference decoder failed on valid text: " + trunc(e.Error(), 60))
		return
	}
	flags := map[string]bool{}
	var rs, gs strings.Builder
	c18CanonRef(x, &rs, flags)
	if flags["float-overflow"] {
		r.Inc("decode:float-overflow(no datum, totality only)")
		return
	}
	if flags["bigint"] {
		r.Inc("decode:bigint")
	}
	c18CanonObj(got, &gs)
	if rs.String() != gs.String() {
		detail["decoded"] = trunc(got.String(), 500)
		detail["reference"] = trunc(rs.String(), 800)
		detail["got_canon"] = trunc(gs.String(), 800)
		sig := "decode-differs"
		if flags["bigint"] {
			sig = "decode-differs:integer-literal-beyond-int64"
		}
		r.Violate(sig, "decoder yields data different from encoding/json", detail)
		return
	}
	if r.WantSample() && len(text) > 12 && len(text) < 200 && kind != "generated" {
		r.Sample(map[string]interface{}{"kind": "decode/" + kind, "text": string(text), "valid": valid})
	}
}

func (c *c18) Finish(m *fw.Merged, tier string) {
	for _, k := range []string{"encoded", "decode:valid", "decode:invalid", "decode:generated", "decode:mutated", "decode:raw", "decode:spelling", "decode:bigint"} {
		if m.Counters[k] == 0 {
			m.Fail("never observed: " + k)
		}
	}
}
