package props

import (
	"fmt"
	"sort"
	"strings"

	"github.com/d5/tengo/v2"
	"github.com/d5/tengo/v2/parser"
)

// rawCompiled is a program compiled through parser + Compiler (not Script),
// so that the bytecode can be inspected and post-processed by the check.
type rawCompiled struct {
	BC      *tengo.Bytecode
	Globals []tengo.Object
	Index   map[string]int // top-level variable name -> global slot
	NumGlob int
}

// compileRaw mirrors what Script.Compile does up to Compiler.Bytecode().
func compileRaw(src []byte, inputs map[string]tengo.Object, mods *tengo.ModuleMap) (rc *rawCompiled, err error) {
	err = safely(func() error {
		st := tengo.NewSymbolTable()
		for idx, fn := range tengo.GetAllBuiltinFunctions() {
			st.DefineBuiltin(idx, fn.Name)
		}
		globals := make([]tengo.Object, tengo.GlobalsSize)
		names := make([]string, 0, len(inputs))
		for n := range inputs {
			names = append(names, n)
		}
		sort.Strings(names)
		for _, n := range names {
			sym := st.Define(n)
			globals[sym.Index] = inputs[n]
		}
		fs := parser.NewFileSet()
		sf := fs.AddFile("(main)", -1, len(src))
		file, e := parser.NewParser(sf, src, nil).ParseFile()
		if e != nil {
			return e
		}
		var mg tengo.ModuleGetter
		if mods != nil {
			mg = mods
		}
		c := tengo.NewCompiler(sf, st, nil, mg, nil)
		if e := c.Compile(file); e != nil {
			return e
		}
		rc = &rawCompiled{BC: c.Bytecode(), Globals: globals, Index: map[string]int{}, NumGlob: st.MaxSymbols()}
		for _, n := range st.Names() {
			sym, _, _ := st.Resolve(n, false)
			if sym != nil && sym.Scope == tengo.ScopeGlobal {
				rc.Index[n] = sym.Index
			}
		}
		return nil
	})
	return
}

type rawRun struct {
	Err     error
	ErrText string
	Panic   *panicErr
	Aborted bool
	Globals map[string]string
	Steps   int64
	OpHist  [64]int64
	StackOK bool
}

// rawMaxAllocs is the allocation budget of runRaw's VMs (workers are single-threaded).
var rawMaxAllocs int64 = 3_000_000

// runRaw runs bytecode in a fresh VM with a copy of the globals.
func runRaw(rc *rawCompiled, bc *tengo.Bytecode, budget int64, userProbe func(*tengo.VM)) rawRun {
	globals := make([]tengo.Object, len(rc.Globals))
	for i, g := range rc.Globals {
		if g != nil {
			globals[i] = g.Copy()
		}
	}
	var out rawRun
	ps := &probeState{budget: budget, userProbe: userProbe}
	installProbe(ps)
	var vm *tengo.VM
	err := safely(func() error {
		vm = tengo.NewVM(bc, globals, rawMaxAllocs)
		return vm.Run()
	})
	removeProbe()
	out.Steps, out.OpHist, out.Aborted = ps.count, ps.opHist, ps.aborted
	if p, ok := isPanic(err); ok {
		out.Panic = p
		out.ErrText = "panic: " + p.Error()
	} else if err != nil {
		out.Err = err
		out.ErrText = err.Error()
	}
	if vm != nil && err == nil {
		out.StackOK = vm.IsStackEmpty()
	}
	out.Globals = map[string]string{}
	for n, i := range rc.Index {
		if i < len(globals) {
			if globals[i] == nil {
				out.Globals[n] = "undef"
			} else {
				out.Globals[n] = canon(globals[i])
			}
		}
	}
	return out
}

func globalsDiff(a, b map[string]string) []string {
	var diffs []string
	for n, av := range a {
		if bv, ok := b[n]; !ok || av != bv {
			diffs = append(diffs, fmt.Sprintf("%s: %s vs %s", n, trunc(av, 200), trunc(bv, 200)))
		}
	}
	for n := range b {
		if _, ok := a[n]; !ok {
			diffs = append(diffs, n+": missing")
		}
	}
	sort.Strings(diffs)
	return diffs
}

// allFunctions lists main and every compiled function reachable from the constants.
func allFunctions(bc *tengo.Bytecode) []*tengo.CompiledFunction {
	out := []*tengo.CompiledFunction{bc.MainFunction}
	for _, c := range bc.Constants {
		if f, ok := c.(*tengo.CompiledFunction); ok {
			out = append(out, f)
		}
	}
	return out
}

func disasm(f *tengo.CompiledFunction) string {
	return strings.Join(tengo.FormatInstructions(f.Instructions, 0), "\n")
}
