package props

import (
	"math/rand"
	"testing"

	"github.com/d5/tengo/v2"
)

func TestC09OpsCompile(t *testing.T) {
	r := rand.New(rand.NewSource(1))
	for _, op := range c09Ops {
		src := "if step == 0 { " + c09Subst(r, op) + " }\n"
		s := tengo.NewScript([]byte(src))
		for _, n := range []string{"imm", "src", "d1", "d2", "d3", "eqf", "step"} {
			_ = s.Add(n, nil)
		}
		if _, err := s.Compile(); err != nil {
			t.Errorf("%s: %v", op, err)
		}
	}
}
