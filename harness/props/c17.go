package props

import (
	"errors"
	"fmt"
	"math"
	"math/rand"
	"strings"

	"github.com/d5/tengo/v2"

	"verif/fw"
)

// C17 — format()/sprintf agree with Go's fmt (differential against fmt.Sprintf).
type c17 struct {
	compiled *tengo.Compiled
}

func init() { fw.Register(&c17{}) }

func (*c17) ID() string    { return "C17" }
func (*c17) Level() string { return "exploration" }
func (*c17) NumCases(tier string) int {
	if tier == "thorough" {
		return 40000
	}
	return 1200
}
func (*c17) Rule() string {
	return "each case = 250 format calls: grammar-generated directives (documented verb x flag subset x width/prec literal or * x [n] index) " +
		"with boundary arguments of the five mapped types, compared byte-for-byte with fmt.Sprintf through three entry points (tengo.Format, builtin format, fmt.sprintf); " +
		"plus arbitrary format strings / mismatched verbs / all object types for totality, and a small-MaxStringLen family. " +
		"distinct = distinct (format, canonical args); non-trivial = contains at least one directive other than %%"
}
func (*c17) Assumptions() []string {
	return []string{
		"fmt.Sprintf of the local toolchain is the executable specification",
		"outside the equality claim (as stated in the property): %q on ints that are not Unicode code points, '#' with %x/%X on floats, rendering of surplus (EXTRA) arguments",
		"%T is compared with the Tengo type name formatted by %s (Go type names are not Tengo's)",
		"'*' operands are Ints (documented requirement); other operand types are exercised for totality only",
	}
}

var c17Ints = []int64{0, 1, -1, 7, 9, 10, 42, 65, 97, 127, 128, 255, 256, 1000, -1000, 0x263A, 0x1F600, 0x1F642, 0x10000, 0x10FFFF, 0x110000, 0xD800, 0xFFFD,
	1<<32 + 'A', 1 << 32, -(1 << 32) + 0x263A, 1<<40 + 0x1F600, 1<<63 - 1 - 0xFFFF + 'z', -(1 << 31) - 1 + 'a', 1<<31 + 'b', 0x7FFFFFFF,
	math.MaxInt32, math.MinInt32, math.MaxInt64, math.MinInt64, math.MaxInt64 - 1, 1 << 53, -(1 << 53), 123456789, -987654321}
var c17Floats = []float64{0, math.Copysign(0, -1), 1, -1, 0.5, -0.5, 1e21, 1e20, 1e-7, 1e-4, 1e-5, 123456789.125, math.NaN(), math.Inf(1), math.Inf(-1),
	5e-324, math.MaxFloat64, 1.0 / 3, 100, 1e6, 1e7, 2.5, 3.5, 0.000123456, 123456.789e3, -2.718281828e-10, 1 << 53, 255.99999999}
var c17Strings = []string{"", "a", "hello world", "héllo", "日本語", "\xff\xfe", "a\x00b", "tab\there", "quote\"s", "back`tick", "new\nline",
	strings.Repeat("xy", 50), "%d", " ", " ", "🙂", "a\xc0\xafb", "\\"}
var c17Bytes = [][]byte{{}, {0}, {1, 2, 3}, {0xff, 0x00}, []byte("abc"), {0xc3, 0x28}, []byte("héllo"), []byte(strings.Repeat("z", 40))}

var docVerbs = map[string]string{
	"bool":   "tv",
	"int":    "bcdoOqxXUv",
	"float":  "beEfFgGxXv",
	"string": "sqxXv",
	"bytes":  "sqxXd", // %d on bytes is not in the documented table but is implemented element-wise like Go's
}

// verbs that are NOT documented for string/bool: both engines render them as
// %!verb(type=value) with identical type names, so they are compared too.
const c17AllVerbs = "vtbcdoOqxXUeEfFgGs"

type c17Arg struct {
	kind string
	i    int64
	f    float64
	s    string
	b    []byte
	t    bool
}

func (a c17Arg) goVal() interface{} {
	switch a.kind {
	case "int":
		return a.i
	case "float":
		return a.f
	case "string":
		return a.s
	case "bytes":
		return a.b
	default:
		return a.t
	}
}

func (a c17Arg) obj() tengo.Object {
	switch a.kind {
	case "int":
		return &tengo.Int{Value: a.i}
	case "float":
		return &tengo.Float{Value: a.f}
	case "string":
		return &tengo.String{Value: a.s}
	case "bytes":
		return &tengo.Bytes{Value: a.b}
	default:
		if a.t {
			return tengo.TrueValue
		}
		return tengo.FalseValue
	}
}

func (a c17Arg) String() string {
	switch a.kind {
	case "int":
		return fmt.Sprintf("int(%d)", a.i)
	case "float":
		return fmt.Sprintf("float(%v/%x)", a.f, math.Float64bits(a.f))
	case "string":
		return fmt.Sprintf("string(%q)", a.s)
	case "bytes":
		return fmt.Sprintf("bytes(%x)", a.b)
	default:
		return fmt.Sprintf("bool(%v)", a.t)
	}
}

func c17RandArg(r *rand.Rand, kind string) c17Arg {
	a := c17Arg{kind: kind}
	switch kind {
	case "int":
		if r.Intn(4) == 0 {
			a.i = r.Int63() >> uint(r.Intn(63))
			if r.Intn(2) == 0 {
				a.i = -a.i
			}
		} else {
			a.i = pick(r, c17Ints)
		}
	case "float":
		if r.Intn(4) == 0 {
			a.f = math.Float64frombits(r.Uint64())
		} else if r.Intn(4) == 0 {
			a.f = (r.Float64() - 0.5) * math.Pow(10, float64(r.Intn(40)-20))
		} else {
			a.f = pick(r, c17Floats)
		}
	case "string":
		if r.Intn(5) == 0 {
			n := r.Intn(12)
			b := make([]byte, n)
			for i := range b {
				b[i] = byte(r.Intn(256))
			}
			a.s = string(b)
		} else {
			a.s = pick(r, c17Strings)
		}
	case "bytes":
		if r.Intn(5) == 0 {
			n := r.Intn(12)
			b := make([]byte, n)
			for i := range b {
				b[i] = byte(r.Intn(256))
			}
			a.b = b
		} else {
			a.b = pick(r, c17Bytes)
		}
	default:
		a.t = r.Intn(2) == 0
	}
	return a
}

var c17Kinds = []string{"int", "float", "string", "bytes", "bool"}

func isCodePoint(v int64) bool {
	return v >= 0 && v <= 0x10FFFF && !(v >= 0xD800 && v <= 0xDFFF)
}

// genDirective appends one documented directive and the arguments it consumes.
// Returns false if the directive falls under one of the stated exclusions.
func c17GenDirective(r *rand.Rand, sb *strings.Builder, args *[]c17Arg, feat map[string]int64, maxWidth int) {
	kind := pick(r, c17Kinds)
	verbs := docVerbs[kind]
	verb := verbs[r.Intn(len(verbs))]
	if r.Intn(25) == 0 {
		verb = 'T'
	} else if (kind == "string" || kind == "bool") && r.Intn(8) == 0 {
		verb = c17AllVerbs[r.Intn(len(c17AllVerbs))]
	}
	sb.WriteByte('%')
	// flags
	nf := 0
	if r.Intn(2) == 0 {
		nf = r.Intn(4)
	}
	flags := ""
	for i := 0; i < nf; i++ {
		flags += string("+-# 0"[r.Intn(5)])
	}
	sb.WriteString(flags)
	star := func() {
		w := int64(r.Intn(maxWidth + 1))
		switch r.Intn(60) {
		case 0, 1, 2, 3:
			w = -w
		case 4:
			w = 1000000 + int64(r.Intn(3)) - 1 // tooLarge edge
		}
		*args = append(*args, c17Arg{kind: "int", i: w})
		sb.WriteByte('*')
		feat["star"]++
	}
	switch r.Intn(5) {
	case 0:
		fmt.Fprintf(sb, "%d", r.Intn(maxWidth+1))
		feat["width"]++
	case 1:
		star()
	}
	switch r.Intn(5) {
	case 0:
		fmt.Fprintf(sb, ".%d", r.Intn(maxWidth+1))
		feat["prec"]++
	case 1:
		sb.WriteByte('.')
		feat["prec"]++
	case 2:
		sb.WriteByte('.')
		star()
	}
	arg := c17RandArg(r, kind)
	*args = append(*args, arg)
	sb.WriteByte(byte(verb))
	feat["verb:"+kind+":"+string(verb)]++
	for _, f := range flags {
		feat["flag:"+string(f)]++
	}
}

func c17Excluded(format string, args []c17Arg) bool {
	// Conservative textual test for the three stated exclusions.
	hasBadCP := false
	hasFloat := false
	for _, a := range args {
		if a.kind == "int" && !isCodePoint(a.i) {
			hasBadCP = true
		}
		if a.kind == "float" {
			hasFloat = true
		}
	}
	if hasBadCP && strings.Contains(format, "q") {
		return true
	}
	if hasFloat && strings.Contains(format, "#") && strings.ContainsAny(format, "xX") {
		return true
	}
	return false
}

const c17Script = `
fmtmod := import("fmt")
out1 := undefined
out2 := undefined
if mode == 1 { out1 = format(f, a...) } else { out2 = fmtmod.sprintf(f, a...) }
`

func (c *c17) script() (*tengo.Compiled, error) {
	if c.compiled != nil {
		return c.compiled, nil
	}
	s := tengo.NewScript([]byte(c17Script))
	s.SetImports(stdModules())
	_ = s.Add("f", "")
	_ = s.Add("a", []interface{}{})
	_ = s.Add("mode", 1)
	cp, err := s.Compile()
	if err != nil {
		return nil, err
	}
	c.compiled = cp
	return cp, nil
}

// three entry points; each returns (string, error).
func (c *c17) drive(which int, format string, objs []tengo.Object) (string, error) {
	switch which {
	case 0:
		var s string
		err := safely(func() error {
			var e error
			s, e = tengo.Format(format, objs...)
			return e
		})
		return s, err
	default:
		cp, err := c.script()
		if err != nil {
			return "", err
		}
		arr := make([]tengo.Object, len(objs))
		copy(arr, objs)
		_ = cp.Set("f", format)
		_ = cp.Set("a", arr)
		_ = cp.Set("mode", which)
		err = safely(func() error { return cp.RunContext(bg) })
		if err != nil {
			return "", err
		}
		name := "out1"
		if which == 2 {
			name = "out2"
		}
		v := cp.Get(name)
		so, ok := v.Object().(*tengo.String)
		if !ok {
			return "", fmt.Errorf("result is %s, not string", v.ValueType())
		}
		return so.Value, nil
	}
}

var c17AllObjs = func() []tengo.Object {
	return []tengo.Object{
		&tengo.Int{Value: 5}, &tengo.Float{Value: 1.5}, &tengo.String{Value: "s"}, &tengo.Bytes{Value: []byte("b")},
		tengo.TrueValue, tengo.UndefinedValue, &tengo.Char{Value: 'x'}, &tengo.Time{},
		&tengo.Array{Value: []tengo.Object{&tengo.Int{Value: 1}, &tengo.String{Value: "q"}}},
		&tengo.ImmutableArray{Value: []tengo.Object{}},
		&tengo.Map{Value: map[string]tengo.Object{"k": &tengo.Int{Value: 1}}},
		&tengo.ImmutableMap{Value: map[string]tengo.Object{}},
		&tengo.Error{Value: &tengo.String{Value: "e"}},
		&tengo.UserFunction{Name: "u", Value: func(...tengo.Object) (tengo.Object, error) { return nil, nil }},
		tengo.GetAllBuiltinFunctions()[0],
	}
}()

func (c *c17) RunCase(r *fw.Rec, cs fw.Case) {
	rng := cs.Rng("c17")
	feat := map[string]int64{}
	defer func() {
		for k, v := range feat {
			r.Count(k, v)
		}
	}()
	family := cs.Index % 10 // 0-6 equality, 7 limit, 8-9 totality
	n := 250
	if family == 7 {
		n = 120
	}
	for k := 0; k < n; k++ {
		switch {
		case family <= 6:
			c.equalityOne(r, rng, feat, 0)
		case family == 7:
			c.equalityOne(r, rng, feat, []int{16, 64, 300}[rng.Intn(3)])
		default:
			c.totalityOne(r, rng, feat)
		}
	}
}

func (c *c17) equalityOne(r *fw.Rec, rng *rand.Rand, feat map[string]int64, limit int) {
	var sb strings.Builder
	var args []c17Arg
	nd := 1 + rng.Intn(3)
	maxWidth := 30
	if rng.Intn(10) == 0 {
		maxWidth = 200
	}
	if limit > 0 {
		maxWidth = limit + 8
	}
	if rng.Intn(16) == 0 {
		// explicit indexes combined with '*' width/precision, and indexes that are out of range
		// (0, negative, huge, malformed): args = [value, small int, small int]
		kind := pick(rng, c17Kinds)
		vs := docVerbs[kind]
		v := string(vs[rng.Intn(len(vs))])
		// args = [width, value, precision]: every operand a '*' can reach is an int ("must be of type Int")
		args = append(args, c17Arg{kind: "int", i: int64(rng.Intn(14))}, c17RandArg(rng, kind), c17Arg{kind: "int", i: int64(rng.Intn(9))})
		tmpl := pick(rng, []string{"%[1]*[2]V", "%[3]*.[1]*[2]V", "%[2]V|%[1]*[2]V", "%[1]*.[3]*[2]V", "%-[1]*[2]V|%[2]V", "%.[3]*[2]V", "%[2]V%[3]*[2]V", "%[1]*[2]V%[3]*[2]V%[2]V",
			"%[0]V", "%[00]V", "%[0]*[2]V", "%.[0]*[2]V", "%[2]V%[0]V", "%[-1]V", "%[4]V", "%[99999999999999999999]V", "%[2]V%[4]*[2]V", "%[x]V", "%[2V", "%[]V", "%[1]*[4]V", "%[3]*[0]V"})
		sb.WriteString(strings.ReplaceAll(tmpl, "V", v))
		feat["argindex"]++
		feat["argindex-with-star-or-bad-index"]++
	} else if rng.Intn(8) == 0 {
		// explicit argument indexes: one kind for the whole format so that every
		// verb stays matched whatever index it names
		kind := pick(rng, c17Kinds)
		vs := docVerbs[kind]
		for len(args) < 3 {
			args = append(args, c17RandArg(rng, kind))
		}
		for d := 0; d < nd+1; d++ {
			if rng.Intn(3) == 0 {
				sb.WriteString(pick(rng, []string{"x", " ", "%%", "="}))
			}
			sb.WriteByte('%')
			if rng.Intn(3) == 0 {
				sb.WriteByte("+-# 0"[rng.Intn(5)])
			}
			if rng.Intn(3) == 0 {
				fmt.Fprintf(&sb, "%d", rng.Intn(12))
			}
			if rng.Intn(4) != 0 {
				fmt.Fprintf(&sb, "[%d]", 1+rng.Intn(4)) // 4 = bad index
			}
			sb.WriteByte(vs[rng.Intn(len(vs))])
		}
		feat["argindex"]++
	} else {
		for d := 0; d < nd; d++ {
			if rng.Intn(3) == 0 {
				sb.WriteString(pick(rng, []string{"x", " ", "é", "%%", "=", "日", "\n"}))
			}
			before := len(args)
			c17GenDirective(rng, &sb, &args, feat, maxWidth)
			if d == nd-1 && rng.Intn(6) == 0 && len(args) > before {
				// missing operand: only for the last directive, so that no
				// later verb is shifted onto an argument of another type
				args = args[:len(args)-1]
				feat["missing"]++
			}
		}
	}
	format := sb.String()
	if limit > 0 && len(format) > limit {
		return
	}
	if limit > 0 {
		for _, a := range args {
			if len(a.s) > limit || len(a.b) > limit {
				return
			}
		}
	}
	if c17Excluded(format, args) {
		feat["excluded"]++
		return
	}
	// Arguments must match their verbs for the equality claim. Because every
	// directive was generated with its own kind and args are consumed in order
	// this holds unless '*' or a missing arg shifted consumption; verify by
	// checking that Go itself reports no mismatch (%!verb(type=...)).
	goArgs := make([]interface{}, len(args))
	objs := make([]tengo.Object, len(args))
	argStrs := make([]string, len(args))
	for i, a := range args {
		goArgs[i] = a.goVal()
		objs[i] = a.obj()
		argStrs[i] = a.String()
	}
	// %T: Go type names differ; substitute for the reference.
	refFormat, refArgs := format, goArgs
	if strings.Contains(format, "T") {
		// handled only when the sole directive letters 'T' are verbs: re-render per directive is complex;
		// compare through a reference where each arg consumed by %T is replaced by its Tengo type name and T by s.
		refFormat, refArgs = c17SubstT(format, args)
		if refFormat == "" {
			feat["excluded"]++
			return
		}
	}
	want := fmt.Sprintf(refFormat, refArgs...)
	if strings.Contains(want, "%!") && (strings.Contains(want, "(int64=") || strings.Contains(want, "(float64=") || strings.Contains(want, "([]uint8=")) && !strings.Contains(want, "%!(EXTRA ") {
		// verb/type mismatch caused by argument shifting: outside the equality claim (Go prints Go type names)
		feat["shifted-mismatch"]++
		return
	}
	if i := strings.Index(want, "%!(EXTRA "); i >= 0 {
		if limit > 0 {
			// the surplus-argument text (outside the equality claim) counts towards the limit: skip
			feat["excluded"]++
			return
		}
		want = want[:i]
		feat["extra-prefix-only"]++
	}
	old := tengo.MaxStringLen
	if limit > 0 {
		tengo.MaxStringLen = limit
		defer func() { tengo.MaxStringLen = old }()
	}
	for which := 0; which < 3; which++ {
		got, err := c.drive(which, format, objs)
		r.Eval()
		entry := []string{"tengo.Format", "builtin format", "fmt.sprintf"}[which]
		detail := map[string]interface{}{"format": format, "args": argStrs, "want": want, "entry": entry, "max_string_len": limit}
		if err != nil {
			if p, ok := isPanic(err); ok {
				detail["panic"] = p.Error()
				detail["stack"] = trunc(p.stack, 3000)
				r.Violate("panic:"+entry, "formatting panicked", detail)
				continue
			}
			if limit > 0 && len(want) > limit && errors.Is(err, tengo.ErrStringLimit) {
				feat["limit-error-ok"]++
				continue
			}
			detail["error"] = err.Error()
			if limit > 0 && len(want) > limit {
				r.Violate("limit-wrong-error:"+entry, "over-limit format failed with an error that is not ErrStringLimit", detail)
			} else {
				r.Violate("error:"+entry, "format returned an error where fmt.Sprintf produces text within the limit", detail)
			}
			continue
		}
		if i := strings.Index(got, "%!(EXTRA "); i >= 0 {
			got = got[:i]
		}
		detail["got"] = got
		if limit > 0 && len(want) > limit {
			// must have been an error (or C06: longer than limit)
			if len(got) > limit {
				r.Violate("limit-exceeded:"+entry, "format returned a string longer than MaxStringLen", detail)
			} else {
				r.Violate("limit-no-error:"+entry, "format returned a short string where fmt.Sprintf output exceeds MaxStringLen", detail)
			}
			continue
		}
		if got != want {
			r.Violate("mismatch:"+c17Sig(format), "formatted text differs from fmt.Sprintf", detail)
		}
	}
	if strings.Trim(format, "%") != "" {
		r.Distinct(format, strings.Join(argStrs, ","))
	}
	if r.WantSample() {
		r.Sample(map[string]interface{}{"format": format, "args": argStrs, "fmt.Sprintf": want, "max_string_len": limit})
	}
}

// c17Sig reduces a format to its verb letters (for grouping violations).
func c17Sig(format string) string {
	var out []byte
	in := false
	for i := 0; i < len(format); i++ {
		ch := format[i]
		if !in {
			if ch == '%' {
				in = true
			}
			continue
		}
		if (ch >= 'a' && ch <= 'z') || (ch >= 'A' && ch <= 'Z') || ch == '%' {
			out = append(out, ch)
			in = false
		}
	}
	return "verbs=" + string(out)
}

// c17SubstT rewrites %…T directives to %…s with the Tengo type name. It
// handles only formats without '*' and without explicit indexes (else "").
func c17SubstT(format string, args []c17Arg) (string, []interface{}) {
	if strings.ContainsAny(format, "*[") {
		return "", nil
	}
	out := make([]interface{}, len(args))
	for i, a := range args {
		out[i] = a.goVal()
	}
	var sb strings.Builder
	argi := 0
	for i := 0; i < len(format); i++ {
		ch := format[i]
		if ch != '%' {
			sb.WriteByte(ch)
			continue
		}
		j := i + 1
		for j < len(format) && strings.IndexByte("+-# 0123456789.", format[j]) >= 0 {
			j++
		}
		if j >= len(format) {
			sb.WriteString(format[i:])
			break
		}
		verb := format[j]
		if verb == '%' {
			sb.WriteString(format[i : j+1])
			i = j
			continue
		}
		if verb == 'T' && argi < len(out) {
			out[argi] = args[argi].obj().TypeName()
			sb.WriteString(format[i:j])
			sb.WriteByte('s')
		} else {
			sb.WriteString(format[i : j+1])
		}
		argi++
		i = j
	}
	return sb.String(), out
}

func (c *c17) totalityOne(r *fw.Rec, rng *rand.Rand, feat map[string]int64) {
	// arbitrary bytes / mismatched verbs / all object kinds / wild widths
	var format string
	switch rng.Intn(3) {
	case 0:
		n := rng.Intn(24)
		b := make([]byte, n)
		alphabet := "%%%%[]*.+-# 0123456789vTtbcdoOqxXUeEfFgGsp!(),\xff\x00é"
		for i := range b {
			if rng.Intn(6) == 0 {
				b[i] = byte(rng.Intn(256))
			} else {
				b[i] = alphabet[rng.Intn(len(alphabet))]
			}
		}
		format = string(b)
	default:
		var sb strings.Builder
		var dummy []c17Arg
		for d := 0; d < 1+rng.Intn(3); d++ {
			c17GenDirective(rng, &sb, &dummy, map[string]int64{}, 40)
		}
		format = sb.String()
	}
	na := rng.Intn(5)
	objs := make([]tengo.Object, na)
	strs := make([]string, na)
	for i := range objs {
		if rng.Intn(2) == 0 {
			objs[i] = pick(rng, c17AllObjs)
		} else {
			objs[i] = c17RandArg(rng, pick(rng, c17Kinds)).obj()
		}
		strs[i] = objs[i].TypeName() + ":" + trunc(objs[i].String(), 40)
	}
	limit := 0
	old := tengo.MaxStringLen
	if rng.Intn(3) == 0 {
		limit = 8 + rng.Intn(60)
		if len(format) > limit {
			limit = 0
		}
	}
	if limit > 0 {
		tengo.MaxStringLen = limit
		defer func() { tengo.MaxStringLen = old }()
	}
	feat["totality"]++
	for which := 0; which < 3; which++ {
		got, err := c.drive(which, format, objs)
		r.Eval()
		entry := []string{"tengo.Format", "builtin format", "fmt.sprintf"}[which]
		detail := map[string]interface{}{"format": format, "args": strs, "entry": entry, "max_string_len": limit}
		if err != nil {
			if p, ok := isPanic(err); ok {
				detail["panic"] = p.Error()
				detail["stack"] = trunc(p.stack, 3000)
				r.Violate("panic:"+entry, "formatting panicked", detail)
			} else if !errors.Is(err, tengo.ErrStringLimit) {
				detail["error"] = err.Error()
				r.Violate("total-error:"+entry, "format returned an error other than the string-limit error", detail)
			} else {
				feat["totality-limit-error"]++
			}
			continue
		}
		if limit > 0 && len(got) > limit {
			detail["got"] = got
			r.Violate("limit-exceeded:"+entry, "format returned a string longer than MaxStringLen", detail)
		}
	}
	r.Distinct("T", format, strings.Join(strs, ","))
}

func (c *c17) Finish(m *fw.Merged, tier string) {
	// every documented verb must have been exercised for its type
	for kind, vs := range docVerbs {
		for _, v := range vs {
			if m.Counters["verb:"+kind+":"+string(v)] == 0 {
				m.Fail(fmt.Sprintf("documented verb %%%c never generated for %s", v, kind))
			}
		}
	}
	for _, k := range []string{"star", "width", "prec", "missing", "argindex", "totality", "limit-error-ok"} {
		if m.Counters[k] == 0 {
			m.Fail("feature never exercised: " + k)
		}
	}
}
