package props

import (
	"fmt"
	"math"
	"strings"

	"github.com/d5/tengo/v2/parser"
)

// astDump renders a parser AST as an s-expression without positions.
// ParenExpr is transparent and EmptyStmt is skipped.
func astDump(n parser.Node) string {
	var sb strings.Builder
	dumpNode(&sb, n)
	return sb.String()
}

func dumpStmts(sb *strings.Builder, stmts []parser.Stmt) {
	first := true
	for _, s := range stmts {
		if _, ok := s.(*parser.EmptyStmt); ok {
			continue
		}
		if !first {
			sb.WriteString(" ")
		}
		first = false
		dumpNode(sb, s)
	}
}

func dumpNode(sb *strings.Builder, n parser.Node) {
	if n == nil || isNilNode(n) {
		sb.WriteString("_")
		return
	}
	switch v := n.(type) {
	case *parser.File:
		sb.WriteString("(file ")
		dumpStmts(sb, v.Stmts)
		sb.WriteString(")")
	case *parser.Ident:
		sb.WriteString("id:" + v.Name)
	case *parser.IntLit:
		fmt.Fprintf(sb, "int:%d", v.Value)
	case *parser.FloatLit:
		fmt.Fprintf(sb, "float:%016x", math.Float64bits(v.Value))
	case *parser.StringLit:
		fmt.Fprintf(sb, "str:%q", v.Value)
	case *parser.CharLit:
		fmt.Fprintf(sb, "char:%d", v.Value)
	case *parser.BoolLit:
		fmt.Fprintf(sb, "%v", v.Value)
	case *parser.UndefinedLit:
		sb.WriteString("undefined")
	case *parser.ParenExpr:
		dumpNode(sb, v.Expr)
	case *parser.BinaryExpr:
		sb.WriteString("(" + v.Token.String() + " ")
		dumpNode(sb, v.LHS)
		sb.WriteString(" ")
		dumpNode(sb, v.RHS)
		sb.WriteString(")")
	case *parser.UnaryExpr:
		sb.WriteString("(u" + v.Token.String() + " ")
		dumpNode(sb, v.Expr)
		sb.WriteString(")")
	case *parser.CondExpr:
		sb.WriteString("(? ")
		dumpNode(sb, v.Cond)
		sb.WriteString(" ")
		dumpNode(sb, v.True)
		sb.WriteString(" ")
		dumpNode(sb, v.False)
		sb.WriteString(")")
	case *parser.CallExpr:
		sb.WriteString("(call ")
		dumpNode(sb, v.Func)
		for _, a := range v.Args {
			sb.WriteString(" ")
			dumpNode(sb, a)
		}
		if v.Ellipsis.IsValid() {
			sb.WriteString(" ...")
		}
		sb.WriteString(")")
	case *parser.IndexExpr:
		sb.WriteString("(idx ")
		dumpNode(sb, v.Expr)
		sb.WriteString(" ")
		dumpNode(sb, v.Index)
		sb.WriteString(")")
	case *parser.SliceExpr:
		sb.WriteString("(slice ")
		dumpNode(sb, v.Expr)
		sb.WriteString(" ")
		dumpNode(sb, v.Low)
		sb.WriteString(" ")
		dumpNode(sb, v.High)
		sb.WriteString(")")
	case *parser.SelectorExpr:
		sb.WriteString("(sel ")
		dumpNode(sb, v.Expr)
		sb.WriteString(" ")
		if s, ok := v.Sel.(*parser.StringLit); ok {
			sb.WriteString(s.Value)
		} else {
			dumpNode(sb, v.Sel)
		}
		sb.WriteString(")")
	case *parser.ArrayLit:
		sb.WriteString("[")
		for i, e := range v.Elements {
			if i > 0 {
				sb.WriteString(" ")
			}
			dumpNode(sb, e)
		}
		sb.WriteString("]")
	case *parser.MapLit:
		sb.WriteString("{")
		for i, e := range v.Elements {
			if i > 0 {
				sb.WriteString(" ")
			}
			fmt.Fprintf(sb, "%q:", e.Key)
			dumpNode(sb, e.Value)
		}
		sb.WriteString("}")
	case *parser.MapElementLit:
		fmt.Fprintf(sb, "%q:", v.Key)
		dumpNode(sb, v.Value)
	case *parser.FuncLit:
		sb.WriteString("(func (")
		for i, p := range v.Type.Params.List {
			if i > 0 {
				sb.WriteString(" ")
			}
			if v.Type.Params.VarArgs && i == len(v.Type.Params.List)-1 {
				sb.WriteString("...")
			}
			sb.WriteString(p.Name)
		}
		sb.WriteString(") ")
		dumpNode(sb, v.Body)
		sb.WriteString(")")
	case *parser.ErrorExpr:
		sb.WriteString("(error ")
		dumpNode(sb, v.Expr)
		sb.WriteString(")")
	case *parser.ImmutableExpr:
		sb.WriteString("(immutable ")
		dumpNode(sb, v.Expr)
		sb.WriteString(")")
	case *parser.ImportExpr:
		fmt.Fprintf(sb, "(import %q)", v.ModuleName)
	case *parser.BadExpr:
		sb.WriteString("<badexpr>")
	// statements
	case *parser.AssignStmt:
		sb.WriteString("(assign " + v.Token.String())
		for _, e := range v.LHS {
			sb.WriteString(" ")
			dumpNode(sb, e)
		}
		sb.WriteString(" =")
		for _, e := range v.RHS {
			sb.WriteString(" ")
			dumpNode(sb, e)
		}
		sb.WriteString(")")
	case *parser.ExprStmt:
		sb.WriteString("(expr ")
		dumpNode(sb, v.Expr)
		sb.WriteString(")")
	case *parser.IncDecStmt:
		sb.WriteString("(" + v.Token.String() + " ")
		dumpNode(sb, v.Expr)
		sb.WriteString(")")
	case *parser.BlockStmt:
		sb.WriteString("(block ")
		dumpStmts(sb, v.Stmts)
		sb.WriteString(")")
	case *parser.IfStmt:
		sb.WriteString("(if ")
		dumpNode(sb, v.Init)
		sb.WriteString(" ")
		dumpNode(sb, v.Cond)
		sb.WriteString(" ")
		dumpNode(sb, v.Body)
		sb.WriteString(" ")
		dumpNode(sb, v.Else)
		sb.WriteString(")")
	case *parser.ForStmt:
		sb.WriteString("(for ")
		dumpNode(sb, v.Init)
		sb.WriteString(" ")
		dumpNode(sb, v.Cond)
		sb.WriteString(" ")
		dumpNode(sb, v.Post)
		sb.WriteString(" ")
		dumpNode(sb, v.Body)
		sb.WriteString(")")
	case *parser.ForInStmt:
		sb.WriteString("(forin ")
		dumpNode(sb, v.Key)
		sb.WriteString(" ")
		dumpNode(sb, v.Value)
		sb.WriteString(" ")
		dumpNode(sb, v.Iterable)
		sb.WriteString(" ")
		dumpNode(sb, v.Body)
		sb.WriteString(")")
	case *parser.ReturnStmt:
		sb.WriteString("(return ")
		dumpNode(sb, v.Result)
		sb.WriteString(")")
	case *parser.ExportStmt:
		sb.WriteString("(export ")
		dumpNode(sb, v.Result)
		sb.WriteString(")")
	case *parser.BranchStmt:
		sb.WriteString("(" + v.Token.String())
		if v.Label != nil {
			sb.WriteString(" " + v.Label.Name)
		}
		sb.WriteString(")")
	case *parser.EmptyStmt:
		sb.WriteString("(empty)")
	case *parser.BadStmt:
		sb.WriteString("<badstmt>")
	default:
		fmt.Fprintf(sb, "<?%T>", n)
	}
}

func isNilNode(n parser.Node) bool {
	switch v := n.(type) {
	case *parser.Ident:
		return v == nil
	case *parser.BlockStmt:
		return v == nil
	case *parser.IfStmt:
		return v == nil
	}
	return false
}

// parseSrc parses source text with the real parser (panics are converted).
func parseSrc(src []byte) (f *parser.File, err error) {
	err = safely(func() error {
		fs := parser.NewFileSet()
		sf := fs.AddFile("(main)", -1, len(src))
		p := parser.NewParser(sf, src, nil)
		var e error
		f, e = p.ParseFile()
		return e
	})
	return
}
