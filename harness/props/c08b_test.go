package props

import (
	"math/rand"
	"testing"
	"time"

	"verif/fw"
)

func TestC08Timing(t *testing.T) {
	c := &c08{}
	for i, f := range c08Families {
		r := fw.NewRecForTest("C08")
		t0 := time.Now()
		c.isolationCase(r, rand.New(rand.NewSource(int64(i))), f)
		t.Logf("%-50s %v", f.name, time.Since(t0))
	}
	r := fw.NewRecForTest("C08")
	t0 := time.Now()
	c.historyCase(r, rand.New(rand.NewSource(1)))
	t.Logf("history %v", time.Since(t0))
}
