package props

import (
	"fmt"
	"math"
	"math/rand"
	"sort"
	"strings"
	"time"

	"github.com/d5/tengo/v2"
	"github.com/d5/tengo/v2/parser"

	"verif/fw"
	"verif/gen"
	"verif/ref"
)

// C01 — compile-and-run agrees with the reference semantics.
type c01 struct{}

func init() { fw.Register(&c01{}) }

func (*c01) ID() string    { return "C01" }
func (*c01) Level() string { return "exploration" }
func (*c01) NumCases(tier string) int {
	if tier == "thorough" {
		return 700000
	}
	return 70000
}
func (*c01) Rule() string {
	return "each case = one generated program (scope/type-aware generator over the whole statement and expression grammar and all builtins; 30% take 1-4 host inputs of every runtime type) " +
		"or one directed composition; the real engine (Script.Add/Compile/RunContext/GetAll) is compared with the reference interpreter run under 4 map-order/append-capacity policies " +
		"(disagreement between policies => unspecified, discarded). distinct = distinct source+inputs; non-trivial = the VM dispatched >= 30 instructions using >= 8 distinct opcodes"
}
func (*c01) Assumptions() []string {
	return []string{
		"the parser is trusted to build the AST both sides use (checked separately by C20/C04)",
		"the reference interpreter (harness/ref) implements the documented semantics; rules taken from pinned behaviour are listed in harness/ref/CHARACTERISED.md",
		"programs whose outcome depends on map iteration order, append capacity, cyclic containers, or a closure outliving the loop iteration of a captured variable are discarded as unspecified",
		"MaxStringLen/MaxBytesLen are set to 65536 on both sides; runs that hit the instruction or allocation budget are inconclusive",
	}
}

// termination is not this property's claim (C04/C05 decide it): a case that exhausts the watchdog's
// CPU allowance is a generated program that is too expensive, counted as inconclusive
func (*c01) Config(tier string) fw.Config {
	return fw.Config{MemLimitMB: 2500, CrashInconclusive: true}
}

// ---- host inputs

type inputSpec struct {
	name string
	t    gen.T
}

var inputTypes = []gen.T{gen.TInt, gen.TFloat, gen.TBool, gen.TChar, gen.TStr, gen.TBytes, gen.TArrI, gen.TArr, gen.TMap, gen.TErr, gen.TUndef, gen.TTime, gen.TImmArr, gen.TImmMap}

func genInputValue(r *rand.Rand, t gen.T, depth int) ref.Value {
	switch t {
	case gen.TInt:
		return ref.Int(pick(r, []int64{0, 1, -1, 2, 7, 42, 255, 1 << 31, math.MaxInt64, math.MinInt64, -1000, int64(r.Intn(100))}))
	case gen.TFloat:
		return ref.Float(pick(r, []float64{0, math.Copysign(0, -1), 1, -1.5, 2.5, 1e21, 1e-7, math.NaN(), math.Inf(1), math.Inf(-1), 3.25, float64(r.Intn(50)) / 4}))
	case gen.TBool:
		return ref.Bool(r.Intn(2) == 0)
	case gen.TChar:
		return ref.Char(pick(r, []rune{0, 'a', 'Z', '9', ' ', 'é', '日', 0x1F600, 0x10FFFF}))
	case gen.TStr:
		return ref.Str(pick(r, []string{"", "a", "abc", "hello", "héllo", "日本語", "\xff\xfe", "12", "-3", "2.5", "x y", "tab\t", "K"}))
	case gen.TBytes:
		return &ref.Bytes{B: []byte(pick(r, []string{"", "ab", "\x00\x01\xff", "héllo", "bytes!"}))}
	case gen.TArrI:
		n := r.Intn(5)
		els := make([]ref.Value, n)
		for i := range els {
			els[i] = ref.Int(r.Intn(20) - 5)
		}
		return ref.NewArr(els, false)
	case gen.TArr:
		n := r.Intn(4)
		els := make([]ref.Value, n)
		for i := range els {
			if depth > 0 {
				els[i] = genInputValue(r, pick(r, inputTypes), depth-1)
			} else {
				els[i] = genInputValue(r, pick(r, []gen.T{gen.TInt, gen.TStr, gen.TBool}), 0)
			}
		}
		if n >= 2 && r.Intn(3) == 0 {
			els[1] = els[0] // shared sub-structure
		}
		return ref.NewArr(els, false)
	case gen.TMap, gen.TImmMap:
		n := r.Intn(4)
		m := map[string]ref.Value{}
		for i := 0; i < n; i++ {
			k := pick(r, []string{"a", "b", "c", "k1", "x y", "1", ""})
			if depth > 0 {
				m[k] = genInputValue(r, pick(r, inputTypes), depth-1)
			} else {
				m[k] = genInputValue(r, pick(r, []gen.T{gen.TInt, gen.TStr, gen.TBool}), 0)
			}
		}
		return ref.NewMap(m, t == gen.TImmMap)
	case gen.TErr:
		return &ref.Err{V: genInputValue(r, pick(r, []gen.T{gen.TStr, gen.TInt}), 0)}
	case gen.TUndef:
		return ref.Undef{}
	case gen.TTime:
		return &ref.Time{T: pick(r, []time.Time{{}, time.Unix(0, 0).UTC(), time.Unix(1700000000, 5).UTC(), time.Unix(1e9, 0).UTC()})}
	case gen.TImmArr:
		a := genInputValue(r, gen.TArrI, 0).(*ref.Arr)
		a.Imm = true
		return a
	}
	return ref.Undef{}
}

// ---- directed compositions (single features cannot reach these)

var c01Directed = []string{
	// equality of containers does not depend on whether both operands are the same object
	"f := func() { return 1 }\na := [1, f]\nb := a\nnan := 0.0 / 0.0\nm := {k: [f], n: nan}\nr := [a == a, a != a, a == b, m == m, m != m, m.k == m.k, [m] == [m], [nan] == [nan], {x: len} == {x: len}]\ng := func(x, y) { return x == y }\ns := [g(a, a), g(m, m), g([1, [2]], [1, [2]])]\nia := immutable(a)\nt := [ia == ia, ia != ia, immutable({k: f}) == immutable({k: f})]",
	"a := [1, 2, 3, 4]; d := splice(a, 1, 9223372036854775807); e := splice([5, 6], 2, 9223372036854775807, 7); b := [a, d, e]",
	// freeze reaches below values that are already immutable at the top
	"src := immutable({limits: [1, 2], tags: {a: [1]}}); f := freeze(src); t := [is_immutable_array(f.limits), is_immutable_map(f.tags), is_immutable_array(f.tags.a)]; src.limits[0] = 9; q := [f.limits[0], src.limits[0]]",
	"src := immutable([[1, 2], {k: [3]}]); f := freeze(src); t := [is_immutable_array(f[0]), is_immutable_map(f[1]), is_immutable_array(f[1].k)]; src[0][1] = 7; q := [f[0], src[0]]; f[0][0] = 5",
	// inside a function every iteration of for-in has its own key and value variables, and they are new
	// variables even where they take over the stack slot of a captured variable of a finished block
	"run := func() { fs := []; for k, v in [7, 8, 9] { fs = append(fs, func() { return [k, v] }) }; w := []; for i := 0; i < len(fs); i++ { w = append(w, fs[i]()) }; return w }\nres := run()",
	"run := func() {\n  get := undefined\n  if true {\n    a := 1\n    b := 2\n    c := 3\n    get = func() { return [a, b, c] }\n  }\n  sum := 0\n  for k, v in [70, 80, 90] {\n    sum += k + v\n  }\n  return [get(), sum]\n}\nres := run()",
	"run := func(xs) { fs := []; for v in xs { t := [v]; fs = append(fs, func() { t = append(t, v); return t }) }; return [fs[0](), fs[1](), fs[0]()] }\nres := run(\"ab\")",
	"a := [1,2,3]; b := a + [4]; c := a + [5]; d := a + []; d[0] = 9",
	"x := bytes(\"abcdef\"); s := x[0:2]; t := s + bytes(\"X\"); u := s + bytes(\"YZ\")",
	"a := [1,2,3,4,5]; s := a[1:3]; s[0] = 99; t := a[:2] + a[3:]; t[0] = -1",
	"m := {a: {b: {c: [1,2,3]}}}; m.a.b.c[1] = 20; m.a.b.d = m.a.b.c[1:]; m[\"a\"][\"b\"].c[0] += 5; n := m.a.b.d[0]",
	"f := func(n) { if n == 0 { return 0 }; f(n-1) }; x := f(1); y := f(5); z := is_undefined(f(2))",
	"g := func(a, ...r) { return [a, len(r), r] }; r1 := g(1); r2 := g(1, 2, 3); r3 := g([7,8,9]...); r4 := g(0, [1,2]...)",
	"c := 0; inc := func() { c += 1; return c }; a := [inc(), inc(), inc()]; t := inc() > 3 ? inc() : -1",
	"fns := []; for i := 0; i < 3; i++ { fns = append(fns, (func(j) { return func() { return j * 10 } })(i)) }; out := [fns[0](), fns[1](), fns[2]()]",
	"s := \"héllo\"; a := s[1]; b := s[1:3]; n := len(s); cs := []; for i, c in s { cs = append(cs, [i, c]) }",
	"m := {}; m[1] = \"i\"; m[1.5] = \"f\"; m['c'] = \"ch\"; m[true] = \"b\"; m[[1,2]] = \"arr\"; ks := len(m); v := m[\"1\"] + m[\"1.5\"] + m.c + m[\"true\"] + m[\"[1, 2]\"]",
	"e := error(\"boom\"); v := e.value; t := type_name(e); b := bool(e); e2 := error(e); eq := e == e; ne := e == error(\"boom\"); cp := copy(e) == e",
	"a := [3,1,2]; b := a; b[0] = 30; s := splice(a, 1, 1, 7, 8, 9); l := len(b); r := splice(b); z := len(a)",
	"x := 1; f := func() { x := 2; g := func() { x = 3; return x }; return [g(), x] }; r := f(); y := x",
	"o := {v: 1, get: func() { return 5 }}; o.v += o.get(); o.get = func() { return o.v }; w := o.get()",
	"a := 7; b := a / 2; c := -7 / 2; d := -7 % 3; e := 7 % -3; f := 1 << 62; g := f << 1; h := f << 2; i := -1 >> 70; j := 1 << 64; k := 5 &^ 3",
	"a := 1 + 2.5; b := 2.5 + 1; c := 'a' + 1; d := 1 + 'a'; e := 'c' - 'a'; f := \"s\" + 1 + 2.5 + 'c' + true + [1,\"x\"] + {} + undefined; g := 1 == 1.0; h := 'a' == 97",
	"t := immutable([1,[2,3]]); t[1][0] = 9; u := copy(t); u[0] = 5; v := t + immutable([4]); v[0] = 6; w := t[0:1]; w[0] = 8; x := append(t, 1); x[0] = 7; ty := [type_name(u), type_name(v), type_name(w), type_name(x)]",
	"m := {b: 2, a: 1}; im := immutable(m); m.c = 3; n := len(im); fz := freeze(m); m.d = 4; k := len(fz); same := fz == im",
	"v := undefined; a := v.x.y.z; b := v[0]; n := 0; for x in v { n++ }; c := is_iterable(v); d := v == undefined; e := !v",
	"r1 := range(0, 5); r2 := range(5, 0, 2); r3 := range(0, 0); r4 := range(-2, 3, 2); r5 := range(3, -3, 3)",
	"s := string(12) + string(1.5) + string('c') + string(true) + string(bytes(\"b\")) + string([1,'c',\"s\"]) + string(error(\"e\")) + string(undefined, \"dflt\"); i := int(\"12\") + int(3.9) + int('a') + int(true) + int(\"zz\", 100); f := float(2) + float(\"1.5\"); c := char(65); b := bytes(3); u := [int(\"x\"), float([]), char(\"a\"), time(\"x\"), bool(0), bool([0])]",
	"a := [1,2,3]; for i, v in a { a[i] = v * 2; if i == 0 { a[2] = 100 } }; b := []; for v in a { b = append(b, v) }",
	"x := 0; for i := 0; i < 5; i++ { if i == 1 { continue }; if i == 4 { break }; x += i }; y := 0; for { y++; if y > 3 { break } }; z := 0; for z < 3 { z++ }",
	"cnt := 0; f := func(n) { cnt++; return n > 0 && f(n-1) }; r := f(3); g := func(n) { return n <= 0 || g(n-1) }; s := g(4)",
	"a := [[1,2],[3,4]]; b := copy(a); b[0][0] = 9; c := a[:]; c[0][0] = 8; d := a + []; d[1] = 0; e := [a[0][0], b[0][0], c[0][0], len(d), a[1]]",
	"big := func(a,b,c,d,e,f,g,h) { l1 := a+b; l2 := c+d; l3 := e+f; l4 := g+h; return func() { return l1*l2 + l3*l4 } }; v := big(1,2,3,4,5,6,7,8)()",
	"out := format(\"%d|%5d|%-5d|%05d|%x|%v|%s|%q|%v|%v|%t|%c\", 42, 42, 42, 42, 255, 7, \"s\", \"q\", [1,\"a\"], 'c', true, 65); o2 := format(\"100%%\"); o3 := format(\"%d %d\", 1)",
}

func (c *c01) RunCase(r *fw.Rec, cs fw.Case) {
	rng := cs.Rng("c01")
	var src string
	var inputs []inputSpec
	var topVars []string
	feat := map[string]int{}
	if cs.Index < len(c01Directed) {
		src = c01Directed[cs.Index]
		r.Inc("directed")
	} else if sys := cs.Index - len(c01Directed); sys < c01SystematicN {
		src = c01Systematic(sys)
		r.Inc("systematic")
	} else {
		opts := gen.Options{MaxStmts: 4 + rng.Intn(28), MaxDepth: 2 + rng.Intn(3)}
		switch rng.Intn(10) {
		case 0, 1:
			opts.ErrRate = 0.01
		case 2:
			opts.ErrRate = 0.04
		}
		switch rng.Intn(6) {
		case 0:
			opts.ClosureHeavy = true
		case 1:
			opts.ControlHeavy = true
		}
		if rng.Intn(3) == 0 {
			// closures may capture loop-scoped variables and outlive the iteration (the model fixes the
			// placement, so the scope-dependent sharing rules are part of what is compared)
			opts.CaptureLoopVars = true
			opts.ClosureHeavy = opts.ClosureHeavy || rng.Intn(2) == 0
		}
		if rng.Intn(10) < 3 {
			n := 1 + rng.Intn(4)
			for i := 0; i < n; i++ {
				t := pick(rng, inputTypes)
				name := fmt.Sprintf("in%d", i)
				inputs = append(inputs, inputSpec{name, t})
				opts.Inputs = append(opts.Inputs, gen.Var{Name: name, Type: t})
			}
		}
		g := gen.New(rng, opts)
		p := gen.Generate(g)
		src, topVars, feat = p.Src, p.TopVars, p.Features
	}
	_ = topVars
	r.Logf("---- source ----\n%s\n----", src)
	inputSeed := rng.Int63()
	mkInputs := func() map[string]ref.Value {
		ir := rand.New(rand.NewSource(inputSeed))
		m := map[string]ref.Value{}
		for _, in := range inputs {
			m[in.name] = genInputValue(ir, in.t, 2)
		}
		return m
	}
	c.compare(r, cs, src, mkInputs, feat, nil, nil)
}

// systematic sweep: every binary operator on every ordered pair of value
// kinds, every unary operator, index/slice/selector reads and writes and every
// builtin on every kind (one small program each; compared with the model like
// any other program).
var c01Kinds = []string{"7", "-3", "0", "2.5", "true", "false", "'c'", "\"str\"", "\"\"", "bytes(\"by\")", "[1, 2]", "[]", "{k: 1}", "{}", "immutable([1, [2]])", "immutable({k: 1})",
	"error(\"e\")", "undefined", "time(5)", "func(x) { return x }", "len", "9223372036854775807"}
var c01Ops = []string{"+", "-", "*", "/", "%", "&", "|", "^", "&^", "<<", ">>", "<", "<=", ">", ">=", "==", "!=", "&&", "||"}
var c01Builtins = []string{"len", "copy", "append", "delete", "splice", "string", "int", "bool", "float", "char", "bytes", "time", "is_int", "is_float", "is_string", "is_bool", "is_char", "is_bytes", "is_array",
	"is_immutable_array", "is_map", "is_immutable_map", "is_iterable", "is_time", "is_error", "is_undefined", "is_function", "is_callable", "type_name", "format", "range", "freeze"}

var c01SystematicN = len(c01Kinds)*len(c01Kinds)*len(c01Ops) + len(c01Kinds)*4 + len(c01Kinds)*len(c01Kinds)*3 + len(c01Builtins)*(1+len(c01Kinds)+len(c01Kinds)*len(c01Kinds))

func c01Systematic(i int) string {
	nk, no := len(c01Kinds), len(c01Ops)
	if i < nk*nk*no {
		a, b, op := c01Kinds[i%nk], c01Kinds[(i/nk)%nk], c01Ops[i/(nk*nk)]
		return "a := " + a + "\nb := " + b + "\nr := a " + op + " b\nt := type_name(r)\n"
	}
	i -= nk * nk * no
	if i < nk*4 {
		return "a := " + c01Kinds[i%nk] + "\nr := " + []string{"-", "^", "!", "+"}[i/nk] + "a\nt := type_name(r)\n"
	}
	i -= nk * 4
	if i < nk*nk*3 {
		a, b := c01Kinds[i%nk], c01Kinds[(i/nk)%nk]
		switch i / (nk * nk) {
		case 0:
			return "a := " + a + "\nb := " + b + "\nr := a[b]\nt := type_name(r)\n"
		case 1:
			return "a := " + a + "\nb := " + b + "\nr := a[b:]\nq := a[:b]\n"
		default:
			return "a := " + a + "\nb := " + b + "\na[b] = 1\nr := a\n"
		}
	}
	i -= nk * nk * 3
	per := 1 + nk + nk*nk
	fn := c01Builtins[(i/per)%len(c01Builtins)]
	j := i % per
	switch {
	case j == 0:
		return "r := " + fn + "()\n"
	case j <= nk:
		return "a := " + c01Kinds[j-1] + "\nr := " + fn + "(a)\nt := type_name(r)\n"
	default:
		j -= 1 + nk
		return "a := " + c01Kinds[j%nk] + "\nb := " + c01Kinds[j/nk] + "\nr := " + fn + "(a, b)\nt := type_name(r)\n"
	}
}

const c01Limit = 65536

// compare runs the model and the engine and judges the outcome. It is shared
// by other checks (modules).
func (c *c01) compare(r *fw.Rec, cs fw.Case, src string, mkInputs func() map[string]ref.Value, feat map[string]int, mods map[string]*ref.Module, emods *tengo.ModuleMap) {
	cfg := ref.DefaultConfig()
	cfg.MaxStringLen, cfg.MaxBytesLen = c01Limit, c01Limit
	model := ref.Run(ref.Program{Src: []byte(src), Inputs: mkInputs, Mods: mods, Cfg: cfg}, cs.Seed*1000003+int64(cs.Index))
	r.Inc("model:" + model.Kind)
	if model.Kind == "unspecified" {
		r.Inc("unspecified:" + trunc(model.Why, 60))
		return
	}
	// the engine
	oldS, oldB := tengo.MaxStringLen, tengo.MaxBytesLen
	tengo.MaxStringLen, tengo.MaxBytesLen = c01Limit, c01Limit
	defer func() { tengo.MaxStringLen, tengo.MaxBytesLen = oldS, oldB }()
	in := map[string]tengo.Object{}
	var inputDesc []string
	memo := map[interface{}]tengo.Object{}
	mi := mkInputs()
	names := make([]string, 0, len(mi))
	for n := range mi {
		names = append(names, n)
	}
	sort.Strings(names)
	for _, n := range names {
		in[n] = toTengo(mi[n], memo)
		inputDesc = append(inputDesc, n+"="+ref.Canon(mi[n]))
	}
	eng := runEngine([]byte(src), engineOpts{Inputs: in, Mods: emods, Budget: 20_000_000, MaxAllocs: 3_000_000})
	r.Eval()
	r.Inc("engine:" + eng.Phase)
	for k, v := range feat {
		r.Count("gen:"+k, int64(v))
	}
	for op, n := range eng.OpHist {
		if n > 0 {
			r.Count("op:"+parser.OpcodeNames[op], n)
		}
	}
	distinctOps := 0
	for _, n := range eng.OpHist {
		if n > 0 {
			distinctOps++
		}
	}
	if eng.Steps >= 30 && distinctOps >= 8 {
		r.Distinct(src, strings.Join(inputDesc, ";"))
	}
	detail := map[string]interface{}{"source": src, "inputs": inputDesc, "model": map[string]interface{}{"kind": model.Kind, "error": model.Err, "globals": model.Globals},
		"engine": map[string]interface{}{"phase": eng.Phase, "error": eng.Err, "globals": eng.Globals}}
	if eng.Phase == "aborted" {
		r.Inconc("instruction budget")
		return
	}
	if eng.Phase == "runtime-error" && strings.Contains(eng.Err, "allocation limit") {
		r.Inconc("allocation budget")
		return
	}
	if eng.Phase == "panic" {
		detail["panic"] = eng.Err
		detail["stack"] = trunc(eng.FullErr, 3000)
		r.Violate("panic:"+firstLine(eng.Err), "engine panicked", detail)
		return
	}
	mk := model.Kind
	if mk != eng.Phase {
		r.Violate("kind:"+mk+"/"+eng.Phase, fmt.Sprintf("model says %s, engine says %s", mk, eng.Phase), detail)
		return
	}
	switch mk {
	case "parse-error":
		return
	case "compile-error":
		if model.Err != eng.Err {
			r.Violate("compile-error-text", "different compile error", detail)
		}
		return
	case "runtime-error":
		if normRuntimeErr(model.Err) != normRuntimeErr(eng.Err) {
			r.Violate("runtime-error-kind:"+errKind(model.Err)+"/"+errKind(eng.Err), "different run-time error", detail)
			return
		}
	}
	// globals
	var diffs []string
	seen := map[string]bool{}
	for n, ev := range eng.Globals {
		seen[n] = true
		mv, ok := model.Globals[n]
		if !ok {
			mv = "undef"
		}
		if mv != ev {
			diffs = append(diffs, fmt.Sprintf("%s: model=%s engine=%s", n, trunc(mv, 300), trunc(ev, 300)))
		}
	}
	for n, mv := range model.Globals {
		if !seen[n] {
			diffs = append(diffs, fmt.Sprintf("%s: model=%s engine=<not a global>", n, trunc(mv, 300)))
		}
	}
	if len(diffs) > 0 {
		sort.Strings(diffs)
		detail["differences"] = diffs
		r.Violate("globals", "final values of global variables differ from the reference semantics", detail)
		return
	}
	if r.WantSample() && eng.Steps > 100 && len(src) < 900 {
		r.Sample(map[string]interface{}{"source": src, "inputs": inputDesc, "outcome": mk, "error": eng.Err, "vm_instructions": eng.Steps})
	}
}

func normRuntimeErr(s string) string {
	s = firstLine(s)
	if i := strings.Index(s, "runtime error: "); i >= 0 {
		s = s[i:]
	}
	return s
}

func errKind(s string) string {
	s = normRuntimeErr(s)
	if i := strings.IndexAny(s, ":'"); i > 0 {
		return strings.TrimSpace(s[:i])
	}
	return trunc(s, 40)
}

func (c *c01) Finish(m *fw.Merged, tier string) {
	need := []string{"engine:ok", "engine:runtime-error", "model:ok", "directed", "systematic"}
	for _, k := range need {
		if m.Counters[k] == 0 {
			m.Fail("never observed: " + k)
		}
	}
	// every opcode must have been dispatched
	for op, name := range parser.OpcodeNames {
		if name == "" {
			continue
		}
		_ = op
		if m.Counters["op:"+name] == 0 {
			m.Fail("opcode never dispatched: " + name)
		}
	}
	tot := m.Counters["model:ok"] + m.Counters["model:runtime-error"] + m.Counters["model:compile-error"] + m.Counters["model:unspecified"] + m.Counters["model:parse-error"]
	if tot > 0 && m.Counters["model:unspecified"]*100/tot > 40 {
		m.Fail(fmt.Sprintf("more than 40%% of the programs were discarded as unspecified (%d of %d)", m.Counters["model:unspecified"], tot))
	}
}
