package props

import (
	"errors"
	"fmt"
	"math"
	"math/rand"
	"os"
	"regexp"
	"sort"
	"strconv"
	"strings"
	"time"
	"unicode/utf8"

	"github.com/d5/tengo/v2"

	"verif/fw"
)

// C19 — standard-library wrappers compute what the wrapped Go functions compute.
//
// Differential runtime monitoring: every call is made FROM A SCRIPT run by the
// real engine (one small script per call, arguments injected with Script.Add)
// and judged against an independent reference closure that calls the Go
// function NAMED IN THE MODULE DOCUMENTATION (docs/stdlib-*.md) directly. The
// reference table (c19_tables.go) is written from the docs, not from the
// module tables in stdlib/*.go.
type c19 struct {
	// per worker: one stored witness per signature, the rest only counted, so
	// that frequent signatures cannot crowd rare ones out of the bounded store
	stored map[string]bool
}

func init() { fw.Register(&c19{}) }

func (*c19) ID() string    { return "C19" }
func (*c19) Level() string { return "exploration" }

const c19CallsPerCase = 24

func (*c19) NumCases(tier string) int {
	n := len(c19Table())
	if tier == "thorough" {
		return n * 24 * 20
	}
	return n * 24
}

func (*c19) Rule() string {
	return "case i exercises table entry i mod N (N entries = every documented function/constant of text (incl. Regexp methods), math, base64, hex, enum and the clock-independent times functions, " +
		"so every entry is hit in every tier); one case = 24 script-level calls in a fixed mode schedule: right-typed tuples (boundary pool + structured random: the needle occurs at both ends/twice, " +
		"non-ASCII, title-case digraphs, float specials, int extremes, times in UTC/fixed/named zones with a non-UTC process-local zone in half of the times cases), documented coercions " +
		"(bytes/int/bool/char for string, float/char/bool/string for int, int/string for float, int for time: engine must return the reference value or reject the type), " +
		"non-convertible argument types (must be a run-time error 'invalid type for argument'), wrong arities (must be 'wrong number of arguments'), Go-error inputs (must be error VALUES), " +
		"and string/bytes limit boundaries (MaxStringLen/MaxBytesLen set to len(reference result) or one less, never below the longest input: a result that fits must be the reference value; a longer one may be the limit error or the reference value, the statement being silent). " +
		"distinct = distinct (function, mode, rendered arguments); non-trivial = a call judged against a reference value; dist:<fn> counters = cases in which the inputs separated fn from every sibling of the same signature"
}

func (*c19) Assumptions() []string {
	return []string{
		"the Go standard library of the local toolchain (strings, strconv, regexp, math, encoding/base64, encoding/hex, time) is the executable specification; engine and reference share libm so floats compare bit-exactly (NaN = NaN)",
		"result typing follows the Go function (Ilogb -> int, IsInf/IsNaN/Signbit -> bool) where stdlib-math.md carelessly prints '=> float'",
		"arguments outside the Go function's domain are not generated (negative repeat counts, format_int base outside 2..36, empty format_float verb, bitSize other than 32/64, time_unix_nano outside 1678..2262)",
		"where the docs are silent the verdict is weakened, not invented: out-of-range substr bounds and empty pad strings: totality only (no Go panic); " +
			"partial pad repetitions: only length/position/content-from-pad; regexp groups that did not participate: may be omitted; coercions: coerced value OR type rejection; " +
			"trailing parameters the docs list but the engine lets callers omit: substr without upper = Go's s[lower:], re_split/Regexp.split without count = Go's n<0 (all), " +
			"re_find/Regexp.find without count = the result for count 1 or for count -1 (either reading accepted); calls that omit them are not used as wrong-arity inputs",
		"'length' of pad_left/pad_right is the byte length, as len() of the language",
		"enum on multi-key maps is judged order-insensitively (sorted / any-of-the-matching) because map iteration order is unspecified; strings/bytes are not used as 'not enumerable' inputs (docs ambiguous)",
		"limit runs: every input string respects the limit, so only the produced value can exceed it (docs/interoperability.md: MaxStringLen is the maximum byte-length of string values)",
		"times: TZ=UTC; for half of the times cases time.Local is replaced by a fixed +05:30 zone inside the (single-threaded) worker so that local/UTC conversions are distinguishable; reference and engine read the same variable",
		"out of scope: os, rand, fmt, json; times.now/since/until/sleep",
	}
}

// ---------------------------------------------------------------- model

type c19Kind int

const (
	kStr c19Kind = iota
	kInt
	kFloat
	kTime
	kBytes
	kBool
	kArr
	kAny
)

type c19Call struct {
	args []tengo.Object
	pre  string // statements before `out := ...`
	expr string // "" => m.<name>(a0, a1, ...)
	aux  int
}

type c19WantKind int

const (
	wValue c19WantKind = iota
	wErrValue
	wPred
	wTotal
)

type c19Want struct {
	kind          c19WantKind
	val           tengo.Object
	errText       string
	pred          func(out tengo.Object) bool
	predDesc      string
	maxStr        int // wPred: longest string in the expected result (limit mode), -1 = no limit mode
	dropUnmatched bool
}

func wantV(o tengo.Object) c19Want { return c19Want{kind: wValue, val: o} }
func wantE(err error) c19Want      { return c19Want{kind: wErrValue, errText: c19ErrCore(err)} }
func wantTotal() c19Want           { return c19Want{kind: wTotal} }

// c19ErrCore is the part of a Go error message that does not depend on which
// wrapper of the same operation was called (Atoi vs ParseInt).
func c19ErrCore(err error) string {
	var ne *strconv.NumError
	if errors.As(err, &ne) {
		return ne.Err.Error()
	}
	return err.Error()
}

type c19Fn struct {
	mod, name string
	full      string
	kinds     []c19Kind
	minArgs   int   // documented minimum arity
	optArity  []int // arities the docs do not describe but that are tolerated (not judged)
	gen       func(g *c19G) c19Call
	ref       func(c *c19Call) c19Want
	family    string
	isConst   bool
	noType    bool // source module: no documented type errors
	noLimit   bool
	localZone bool
	special   func(r *fw.Rec, cs fw.Case)
	// callExpr builds the call expression from the argument names (default
	// m.<name>(a0, ...)); fixed = leading arguments that belong to the
	// receiver expression (the pattern of a Regexp method) and are always passed
	callExpr func(names []string) string
	fixed    int
}

var c19Tab []*c19Fn
var c19Fam map[string][]*c19Fn

func c19Table() []*c19Fn {
	if c19Tab == nil {
		c19Tab = c19BuildTable()
		c19Fam = map[string][]*c19Fn{}
		for _, f := range c19Tab {
			f.full = f.mod + "." + f.name
			if f.family != "" {
				c19Fam[f.family] = append(c19Fam[f.family], f)
			}
		}
	}
	return c19Tab
}

// ---------------------------------------------------------------- values

func vS(s string) tengo.Object  { return &tengo.String{Value: s} }
func vI(i int64) tengo.Object   { return &tengo.Int{Value: i} }
func vF(f float64) tengo.Object { return &tengo.Float{Value: f} }
func vY(b []byte) tengo.Object  { return &tengo.Bytes{Value: b} }
func vT(t time.Time) tengo.Object {
	return &tengo.Time{Value: t}
}
func vB(b bool) tengo.Object {
	if b {
		return tengo.TrueValue
	}
	return tengo.FalseValue
}
func vSs(ss []string) tengo.Object {
	a := &tengo.Array{Value: make([]tengo.Object, 0, len(ss))}
	for _, s := range ss {
		a.Value = append(a.Value, vS(s))
	}
	return a
}
func vArr(xs ...tengo.Object) tengo.Object {
	if xs == nil {
		xs = []tengo.Object{}
	}
	return &tengo.Array{Value: xs}
}

func aS(c *c19Call, i int) string    { return c.args[i].(*tengo.String).Value }
func aI(c *c19Call, i int) int64     { return c.args[i].(*tengo.Int).Value }
func aF(c *c19Call, i int) float64   { return c.args[i].(*tengo.Float).Value }
func aT(c *c19Call, i int) time.Time { return c.args[i].(*tengo.Time).Value }
func aY(c *c19Call, i int) []byte    { return c.args[i].(*tengo.Bytes).Value }

// c19Canon: structural rendering; mutable/immutable containers render alike
// (the docs speak of "array"/"map"), times carry instant + location + zone.
func c19Canon(o tengo.Object) string {
	var sb strings.Builder
	c19CanonTo(&sb, o, 0, false)
	return sb.String()
}

func c19CanonDrop(o tengo.Object) string {
	var sb strings.Builder
	c19CanonTo(&sb, o, 0, true)
	return sb.String()
}

func c19CanonTo(sb *strings.Builder, o tengo.Object, depth int, drop bool) {
	if depth > 32 {
		sb.WriteString("<deep>")
		return
	}
	switch v := o.(type) {
	case nil:
		sb.WriteString("<GONIL>")
	case *tengo.Int:
		fmt.Fprintf(sb, "i%d", v.Value)
	case *tengo.Float:
		if math.IsNaN(v.Value) {
			sb.WriteString("fNaN")
		} else {
			fmt.Fprintf(sb, "f%016x(%g)", math.Float64bits(v.Value), v.Value)
		}
	case *tengo.Bool:
		if v.IsFalsy() {
			sb.WriteString("false")
		} else {
			sb.WriteString("true")
		}
	case *tengo.Char:
		fmt.Fprintf(sb, "c%d", v.Value)
	case *tengo.String:
		fmt.Fprintf(sb, "s%q", v.Value)
	case *tengo.Bytes:
		fmt.Fprintf(sb, "b%x", v.Value)
	case *tengo.Time:
		sb.WriteString(c19TimeCanon(v.Value))
	case *tengo.Undefined:
		sb.WriteString("undef")
	case *tengo.Error:
		sb.WriteString("err(")
		c19CanonTo(sb, v.Value, depth+1, drop)
		sb.WriteString(")")
	case *tengo.Array:
		c19CanonSeq(sb, v.Value, depth, drop)
	case *tengo.ImmutableArray:
		c19CanonSeq(sb, v.Value, depth, drop)
	case *tengo.Map:
		c19CanonKV(sb, v.Value, depth, drop)
	case *tengo.ImmutableMap:
		c19CanonKV(sb, v.Value, depth, drop)
	case *tengo.CompiledFunction, *tengo.BuiltinFunction, *tengo.UserFunction:
		sb.WriteString("<fn>")
	default:
		fmt.Fprintf(sb, "<%s>", o.TypeName())
	}
}

func c19Unmatched(o tengo.Object) bool {
	var m map[string]tengo.Object
	switch v := o.(type) {
	case *tengo.Map:
		m = v.Value
	case *tengo.ImmutableMap:
		m = v.Value
	default:
		return false
	}
	b, ok := m["begin"].(*tengo.Int)
	return ok && b.Value < 0
}

func c19CanonSeq(sb *strings.Builder, a []tengo.Object, depth int, drop bool) {
	sb.WriteString("[")
	n := 0
	for _, e := range a {
		if drop && c19Unmatched(e) {
			continue
		}
		if n > 0 {
			sb.WriteString(",")
		}
		n++
		c19CanonTo(sb, e, depth+1, drop)
	}
	sb.WriteString("]")
}

func c19CanonKV(sb *strings.Builder, m map[string]tengo.Object, depth int, drop bool) {
	keys := make([]string, 0, len(m))
	for k := range m {
		keys = append(keys, k)
	}
	sort.Strings(keys)
	sb.WriteString("{")
	for i, k := range keys {
		if i > 0 {
			sb.WriteString(",")
		}
		fmt.Fprintf(sb, "%q:", k)
		c19CanonTo(sb, m[k], depth+1, drop)
	}
	sb.WriteString("}")
}

func c19TimeCanon(t time.Time) string {
	name, off := t.Zone()
	return fmt.Sprintf("t%d.%09d[%s|%s%+d](%s)", t.Unix(), t.Nanosecond(), t.Location().String(), name, off,
		t.Format("2006-01-02T15:04:05.999999999Z07:00"))
}

// sorted canonical elements of a top-level array (order-insensitive compare)
func c19SortedElems(o tengo.Object) (string, bool) {
	var els []tengo.Object
	switch v := o.(type) {
	case *tengo.Array:
		els = v.Value
	case *tengo.ImmutableArray:
		els = v.Value
	default:
		return "", false
	}
	ss := make([]string, len(els))
	for i, e := range els {
		ss[i] = c19Canon(e)
	}
	sort.Strings(ss)
	return "[" + strings.Join(ss, ",") + "]", true
}

// longest string / bytes value inside an object
func c19MaxLens(o tengo.Object, ms, mb *int) {
	switch v := o.(type) {
	case *tengo.String:
		if len(v.Value) > *ms {
			*ms = len(v.Value)
		}
	case *tengo.Bytes:
		if len(v.Value) > *mb {
			*mb = len(v.Value)
		}
	case *tengo.Array:
		for _, e := range v.Value {
			c19MaxLens(e, ms, mb)
		}
	case *tengo.ImmutableArray:
		for _, e := range v.Value {
			c19MaxLens(e, ms, mb)
		}
	case *tengo.Map:
		for _, e := range v.Value {
			c19MaxLens(e, ms, mb)
		}
	case *tengo.ImmutableMap:
		for _, e := range v.Value {
			c19MaxLens(e, ms, mb)
		}
	case *tengo.Error:
		c19MaxLens(v.Value, ms, mb)
	}
}

func c19HasStr(o tengo.Object) bool {
	ms, mb := -1, -1
	c19MaxLens(o, &ms, &mb)
	return ms >= 0 || mb >= 0
}

// ---------------------------------------------------------------- generators

type c19G struct{ rng *rand.Rand }

var c19StrPool = []string{"", "a", "A", " ", "abc", "ABC", "aXbXc", "a,b,,c", "  lead and trail  ", "\t tab\nnl ", "héllo wörld", "日本語テキスト",
	"ǆa Bc", " ǆa Bc dž", "ß", "İstanbul", "ſ", "K", "123", "-42", "0", "7", "true", "false", "1.5", "a b", " x y ", "\u0085z\u0085",
	"\xff\xfeabc", "a\x00b", "\"quoted\"", "back\\slash", "😀 emoji", "ababXabab", "axxbaxba", "hello wORLD foo-bar", "x", "é", "Go", "GO", "go"}

var c19Toks = []string{"a", "b", "ab", "X", " ", ",", "é", "日", "ǆ", "1", "-", "A", "B", "\t", "ß", "ba", "c", "xy", "  "}

func c19Clip(s string, n int) string {
	if len(s) <= n {
		return s
	}
	s = s[:n]
	for len(s) > 0 && !utf8.ValidString(s[len(s)-1:]) && !utf8.RuneStart(s[len(s)-1]) {
		s = s[:len(s)-1]
	}
	// drop a dangling lead byte
	if len(s) > 0 {
		r, sz := utf8.DecodeLastRuneInString(s)
		if r == utf8.RuneError && sz == 1 && s[len(s)-1] >= 0xc0 {
			s = s[:len(s)-1]
		}
	}
	return s
}

func (g *c19G) toks(n int) string {
	var sb strings.Builder
	for i := 0; i < n; i++ {
		sb.WriteString(pick(g.rng, c19Toks))
	}
	return sb.String()
}

func (g *c19G) str() string {
	if g.rng.Intn(2) == 0 {
		return pick(g.rng, c19StrPool)
	}
	return c19Clip(g.toks(g.rng.Intn(12)), 40)
}

var c19PairPool = [][2]string{{"ababXabab", "ab"}, {"axxbaxba", "ba"}, {"abc", "cb"}, {"Go", "GO"}, {"A", "a"}, {"a,b,c", ","}, {"a,b", ","}, {"", ""}, {"abc", ""}, {"", "a"},
	{"日本語日本", "日本"}, {"ééXéé", "é"}, {"  x  ", " "}, {"xabcab", "ab"}, {"aaa", "aa"}, {"abcabc", "abc"}, {"ſ", "S"}, {"héllo", "lo"}, {"héllo", "hé"}, {"ab", "abab"},
	{"a b\tc", " \t"}, {"123", "1"}, {"xyzzy", "zy"}, {"STRASSE", "strasse"}, {"日本語", ""}, {"héllo😀x", ""}, {"a€b", ""}, {"\xff日", ""}, {"😀", ""}}

// pairSS: (s, needle) where the needle usually occurs several times in s,
// possibly repeated at both ends.
func (g *c19G) pairSS() (string, string) {
	switch g.rng.Intn(10) {
	case 0, 1:
		p := pick(g.rng, c19PairPool)
		return p[0], p[1]
	case 2:
		return g.str(), g.str()
	case 3:
		s := g.str()
		if g.rng.Intn(2) == 0 {
			return s, strings.ToUpper(s)
		}
		return s, s
	}
	sub := pick(g.rng, []string{"ab", "a", ",", "é", "日本", " ", "ba", "X", "aa", "abc", "-", "xy", "ǆ"})
	if g.rng.Intn(4) == 0 {
		sub = g.toks(1 + g.rng.Intn(2))
	}
	s := strings.Repeat(sub, g.rng.Intn(3)) + g.toks(g.rng.Intn(3)) + strings.Repeat(sub, g.rng.Intn(2)) + g.toks(g.rng.Intn(3)) + strings.Repeat(sub, g.rng.Intn(3))
	return c19Clip(s, 40), sub
}

var c19IntPool = []int64{0, 1, -1, 2, -2, 3, 7, 10, 16, 36, 63, 64, 100, 255, 256, -128, 127, 1000, 1<<31 - 1, -(1 << 31), 1 << 32, 1 << 53, 1<<53 + 1,
	math.MaxInt64, math.MinInt64, math.MaxInt64 - 1, 123456789, -987654321, 65, 0x10FFFF, 0x65e5}

func (g *c19G) int() int64 {
	switch g.rng.Intn(4) {
	case 0:
		return pick(g.rng, c19IntPool)
	case 1:
		return int64(g.rng.Intn(41) - 20)
	case 2:
		v := g.rng.Int63() >> uint(g.rng.Intn(63))
		if g.rng.Intn(2) == 0 {
			v = -v
		}
		return v
	}
	return int64(g.rng.Intn(2001) - 1000)
}

func (g *c19G) small(lo, hi int) int64 { return int64(lo + g.rng.Intn(hi-lo+1)) }

var c19FloatPool = []float64{0, math.Copysign(0, -1), 1, -1, 0.5, -0.5, 1.5, 2, 10, -10, 0.1, 1e-10, 1e10, 1e300, -1e300, 5e-324, math.MaxFloat64, -math.MaxFloat64,
	math.Inf(1), math.Inf(-1), math.NaN(), math.Pi, math.E, 0.7, -0.7, 2.5, 3.5, -2.5, 1 << 53, 100.25, 3, -3, 4, 8, 0.25, 1e-5, 709.7, 710, -745.2, 170.5, 171.7, 1e22, 0.999999, 1.000001, 123456.789, -1.5}

func (g *c19G) float() float64 {
	switch g.rng.Intn(6) {
	case 0, 1:
		return pick(g.rng, c19FloatPool)
	case 2:
		return (g.rng.Float64() - 0.5) * 20
	case 3:
		return math.Float64frombits(g.rng.Uint64())
	case 4:
		return float64(g.rng.Intn(41) - 20)
	}
	return (g.rng.Float64() - 0.5) * math.Pow(10, float64(g.rng.Intn(40)-20))
}

// process-local zone used for half of the times cases
var c19Zone = time.FixedZone("VRF", 5*3600+1800)

var c19TZNames = func() []string {
	var ok []string
	for _, n := range []string{"Asia/Tokyo", "America/New_York", "Europe/Berlin", "Australia/Lord_Howe"} {
		if _, err := time.LoadLocation(n); err == nil {
			ok = append(ok, n)
		}
	}
	return ok
}()

const (
	c19MinSec = -62135596800 // 0001-01-01
	c19MaxSec = 253402300799 // 9999-12-31
)

func (g *c19G) sec() int64 {
	switch g.rng.Intn(4) {
	case 0:
		return c19MinSec + g.rng.Int63n(c19MaxSec-c19MinSec)
	case 1:
		return pick(g.rng, []int64{0, 1, -1, 86399, 86400, 951782400 /*2000-02-29*/, 1709251199, 1<<31 - 1, 1 << 31, -(1 << 31), 1e9, 1234567890, 4102444800, c19MinSec, c19MaxSec})
	}
	return g.rng.Int63n(4e9) - 1e9
}

func (g *c19G) loc() *time.Location {
	switch g.rng.Intn(5) {
	case 0:
		return time.UTC
	case 1:
		return time.Local
	case 2:
		return time.FixedZone(pick(g.rng, []string{"ZZ", "", "PDT", "X+1"}), (g.rng.Intn(53)-26)*1800+g.rng.Intn(2)*17)
	case 3:
		if len(c19TZNames) > 0 {
			l, _ := time.LoadLocation(pick(g.rng, c19TZNames))
			return l
		}
	}
	return time.FixedZone("EST", -5*3600)
}

func (g *c19G) nsec() int64 {
	return pick(g.rng, []int64{0, 0, 1, 999999999, 500000000, 123456789, 1000, 1000000, int64(g.rng.Intn(1e9))})
}

func (g *c19G) time() time.Time {
	switch g.rng.Intn(9) {
	case 0, 1:
		return time.Unix(g.sec(), 0) // what time(INT) yields: coercible from int
	case 2:
		return time.Time{}
	case 3:
		// end-of-month / leap-day dates: distinguish add_date normalisation
		d := pick(g.rng, [][3]int{{2020, 1, 31}, {2020, 2, 29}, {2019, 12, 31}, {2021, 3, 31}, {1999, 12, 31}, {2000, 2, 29}, {1, 1, 1}, {9999, 12, 31}, {1970, 1, 1}})
		return time.Date(d[0], time.Month(d[1]), d[2], g.rng.Intn(24), g.rng.Intn(60), g.rng.Intn(60), int(g.nsec()), g.loc())
	}
	return time.Unix(g.sec(), g.nsec()).In(g.loc())
}

// time whose UnixNano is representable
func (g *c19G) timeNear() time.Time {
	return time.Unix(g.rng.Int63n(18e9)-9e9, g.nsec()).In(g.loc())
}

var c19DurPool = []int64{0, 1, -1, 999, 1000, 1500, 1e6, 1e9, 60e9, 3600e9, 5400e9, 86400e9, -1500e6, 123456789012, math.MaxInt64, math.MinInt64, 2562047e9 * 3600, 90061001002003}

func (g *c19G) dur() int64 {
	switch g.rng.Intn(3) {
	case 0:
		return pick(g.rng, c19DurPool)
	case 1:
		return g.int()
	}
	return (g.rng.Int63n(2e13) - 1e13)
}

// ---------------------------------------------------------------- coercions

// coerce replaces one argument by a differently typed value that the
// documented conversion table (docs/runtime-types.md) maps to the same Go
// value. Returns the position or -1.
func (g *c19G) coerce(kinds []c19Kind, args []tengo.Object) (int, string) {
	order := g.rng.Perm(len(args))
	for _, p := range order {
		if p >= len(kinds) {
			continue
		}
		var alts []tengo.Object
		switch kinds[p] {
		case kStr:
			s, ok := args[p].(*tengo.String)
			if !ok {
				continue
			}
			alts = append(alts, vY([]byte(s.Value)))
			if n, err := strconv.ParseInt(s.Value, 10, 64); err == nil && strconv.FormatInt(n, 10) == s.Value {
				alts = append(alts, vI(n), vI(n))
			}
			if s.Value == "true" || s.Value == "false" {
				alts = append(alts, vB(s.Value == "true"), vB(s.Value == "true"))
			}
			if utf8.ValidString(s.Value) && utf8.RuneCountInString(s.Value) == 1 {
				r, _ := utf8.DecodeRuneInString(s.Value)
				alts = append(alts, &tengo.Char{Value: r})
			}
		case kInt:
			iv, ok := args[p].(*tengo.Int)
			if !ok {
				continue
			}
			n := iv.Value
			if n > -(1<<50) && n < 1<<50 {
				alts = append(alts, vF(float64(n)))
				if n >= 0 {
					alts = append(alts, vF(float64(n)+0.25))
				} else {
					alts = append(alts, vF(float64(n)-0.25))
				}
			}
			if n >= 0 && n <= 0x10FFFF {
				alts = append(alts, &tengo.Char{Value: rune(n)})
			}
			if n == 0 || n == 1 {
				alts = append(alts, vB(n == 1))
			}
			alts = append(alts, vS(strconv.FormatInt(n, 10)))
		case kFloat:
			fv, ok := args[p].(*tengo.Float)
			if !ok {
				continue
			}
			f := fv.Value
			if f == math.Trunc(f) && math.Abs(f) <= 1<<53 && !(f == 0 && math.Signbit(f)) {
				alts = append(alts, vI(int64(f)), vI(int64(f)))
			}
			alts = append(alts, vS(strconv.FormatFloat(f, 'g', -1, 64)))
		case kTime:
			tv, ok := args[p].(*tengo.Time)
			if !ok {
				continue
			}
			t := tv.Value
			if t.Nanosecond() == 0 && t.Location() == time.Local && c19TimeCanon(time.Unix(t.Unix(), 0)) == c19TimeCanon(t) {
				alts = append(alts, vI(t.Unix()))
			}
		case kBytes:
			switch v := args[p].(type) {
			case *tengo.Bytes:
				alts = append(alts, vS(string(v.Value)))
			case *tengo.String:
				alts = append(alts, vY([]byte(v.Value)))
			}
		}
		if len(alts) == 0 {
			continue
		}
		a := pick(g.rng, alts)
		args[p] = a
		return p, a.TypeName()
	}
	return -1, ""
}

var c19DummyFn = &tengo.UserFunction{Name: "dummy", Value: func(args ...tengo.Object) (tengo.Object, error) { return tengo.UndefinedValue, nil }}

// values the conversion table marks "X" (no conversion) for a parameter kind
func c19NonConvertible(k c19Kind) []tengo.Object {
	arr := vArr(vI(1))
	mp := &tengo.Map{Value: map[string]tengo.Object{"a": vI(1)}}
	iarr := &tengo.ImmutableArray{Value: []tengo.Object{vI(1)}}
	er := &tengo.Error{Value: vS("e")}
	tm := vT(time.Unix(1e9, 0))
	by := vY([]byte("12"))
	un := tengo.UndefinedValue
	switch k {
	case kStr:
		return []tengo.Object{un}
	case kInt:
		return []tengo.Object{un, arr, mp, iarr, er, tm, by, c19DummyFn}
	case kFloat:
		return []tengo.Object{un, arr, mp, iarr, er, tm, by, c19DummyFn, tengo.TrueValue, &tengo.Char{Value: '1'}}
	case kTime:
		return []tengo.Object{un, arr, mp, er, by, c19DummyFn, tengo.TrueValue, &tengo.Char{Value: '1'}, vS("2020-01-01"), vF(1.5)}
	case kBytes:
		return []tengo.Object{un, arr, mp, er, tm, c19DummyFn, tengo.TrueValue, &tengo.Char{Value: '1'}, vI(5), vF(1.5)}
	case kArr:
		return []tengo.Object{un, mp, er, tm, by, c19DummyFn, tengo.TrueValue, vI(5), vF(1.5), vS("a,b")}
	}
	return nil
}

// ---------------------------------------------------------------- engine

type c19Res struct {
	phase string // ok | runtime-error | go-panic | compile-error | panic
	out   tengo.Object
	err   error
	msg   string
	stack string
	src   string
}

func (f *c19Fn) script(call *c19Call, nargs int) string {
	expr := call.expr
	if expr == "" {
		var as []string
		for i := 0; i < nargs; i++ {
			as = append(as, fmt.Sprintf("a%d", i))
		}
		expr = "m." + f.name + "(" + strings.Join(as, ", ") + ")"
		if f.isConst {
			expr = "m." + f.name
		}
		if f.callExpr != nil {
			expr = f.callExpr(as)
		}
	}
	return "m := import(\"" + f.mod + "\")\n" + call.pre + "out := " + expr + "\n"
}

// c19Exec compiles with the default limits and runs with the given ones
// (-1 = leave); limits are process-wide variables, the worker is single-threaded.
func c19Exec(src string, args []tengo.Object, strLimit, bytesLimit int) (res c19Res) {
	res.src = src
	s := tengo.NewScript([]byte(src))
	s.SetImports(stdModules())
	for i, a := range args {
		if err := s.Add(fmt.Sprintf("a%d", i), a); err != nil {
			res.phase, res.msg = "compile-error", "add: "+err.Error()
			return
		}
	}
	var cp *tengo.Compiled
	err := safely(func() error {
		var e error
		cp, e = s.Compile()
		return e
	})
	if err != nil {
		res.phase, res.msg, res.err = "compile-error", err.Error(), err
		if p, ok := isPanic(err); ok {
			res.phase, res.stack = "panic", p.stack
		}
		return
	}
	oldS, oldB := tengo.MaxStringLen, tengo.MaxBytesLen
	if strLimit >= 0 {
		tengo.MaxStringLen = strLimit
	}
	if bytesLimit >= 0 {
		tengo.MaxBytesLen = bytesLimit
	}
	err = safely(func() error { return cp.RunContext(bg) })
	tengo.MaxStringLen, tengo.MaxBytesLen = oldS, oldB
	if err != nil {
		res.err, res.msg = err, err.Error()
		if p, ok := isPanic(err); ok {
			res.phase, res.stack = "panic", p.stack
		} else if strings.HasPrefix(res.msg, "Runtime Error:") {
			res.phase = "runtime-error"
		} else {
			// a Go panic inside the VM goroutine, recovered by RunContext
			res.phase = "go-panic"
		}
		return
	}
	res.phase = "ok"
	res.out = cp.Get("out").Object()
	return
}

func c19ShowArgs(args []tengo.Object) []string {
	out := make([]string, len(args))
	for i, a := range args {
		out[i] = trunc(a.TypeName()+" "+c19Canon(a), 300)
	}
	return out
}

func (res *c19Res) show() string {
	switch res.phase {
	case "ok":
		return "value " + trunc(res.out.TypeName()+" "+c19Canon(res.out), 600)
	default:
		return res.phase + ": " + trunc(firstLine(res.msg), 300)
	}
}

func (w *c19Want) show() string {
	switch w.kind {
	case wValue:
		return "value " + trunc(w.val.TypeName()+" "+c19Canon(w.val), 600)
	case wErrValue:
		return "error value containing " + strconv.Quote(w.errText)
	case wPred:
		return "value with: " + w.predDesc
	}
	return "any outcome but a Go panic"
}

// matches reports whether an ok-phase result satisfies the expectation.
func (w *c19Want) matches(out tengo.Object) bool {
	switch w.kind {
	case wValue:
		if w.dropUnmatched {
			return c19CanonDrop(out) == c19CanonDrop(w.val)
		}
		return c19Canon(out) == c19Canon(w.val)
	case wErrValue:
		e, ok := out.(*tengo.Error)
		if !ok {
			return false
		}
		if s, isStr := e.Value.(*tengo.String); isStr {
			return strings.Contains(s.Value, w.errText)
		}
		return e.Value != nil && strings.Contains(e.Value.String(), w.errText)
	case wPred:
		ok := false
		_ = safely(func() error { ok = w.pred(out); return nil })
		return ok
	}
	return true
}

func c19IsLimitErr(res *c19Res) bool {
	if res.phase != "runtime-error" {
		return false
	}
	return errors.Is(res.err, tengo.ErrStringLimit) || errors.Is(res.err, tengo.ErrBytesLimit) ||
		strings.Contains(res.msg, tengo.ErrStringLimit.Error()) || strings.Contains(res.msg, tengo.ErrBytesLimit.Error())
}

// ---------------------------------------------------------------- case

func (c *c19) RunCase(r *fw.Rec, cs fw.Case) {
	tab := c19Table()
	f := tab[cs.Index%len(tab)]
	rng := cs.Rng("c19")
	g := &c19G{rng: rng}
	if f.special != nil {
		f.special(r, cs)
		r.Inc("fn:" + f.full)
		return
	}
	if f.localZone && (cs.Index/len(tab))%2 == 1 {
		old := time.Local
		time.Local = c19Zone
		defer func() { time.Local = old }()
		r.Inc("times-cases-with-non-UTC-local-zone")
	}
	if f.isConst {
		call := c19Call{}
		want := f.ref(&call)
		res := c19Exec(f.script(&call, 0), nil, -1, -1)
		r.Eval()
		c.judge(r, f, "value", &call, call.args, &want, &res, nil)
		r.Inc("fn:" + f.full)
		r.Inc("mode:constant")
		r.Distinct(f.full)
		return
	}
	sibs := c19Fam[f.family]
	distSeen := map[string]bool{}
	for i := 0; i < c19CallsPerCase; i++ {
		mode := []string{"value", "value", "value", "coerce", "value", "type", "limit", "arity"}[i%8]
		if mode == "type" && f.noType {
			mode = "value"
		}
		if mode == "limit" && f.noLimit {
			mode = "value"
		}
		call, want, ok := c.genCall(r, f, g, mode != "value" && mode != "coerce")
		if !ok {
			continue
		}
		switch mode {
		case "value":
			res := c19Exec(f.script(&call, len(call.args)), call.args, -1, -1)
			r.Eval()
			r.Inc("fn:" + f.full)
			r.Inc("mode:value")
			if want.kind == wErrValue {
				r.Inc("mode:value/go-error-input")
			}
			r.Distinct(f.full, "v", call.expr, strings.Join(c19ShowArgs(call.args), ";"))
			if c.judge(r, f, "value", &call, call.args, &want, &res, nil) && r.WantSample() && rng.Intn(40) == 0 {
				r.Sample(map[string]interface{}{"function": f.full, "script": res.src, "args": c19ShowArgs(call.args), "engine": res.show(), "reference": want.show()})
			}
			// did these arguments separate f from its siblings?
			if len(sibs) > 1 && want.kind != wTotal {
				mine := want.show()
				for _, s := range sibs {
					if s == f || distSeen[s.full] {
						continue
					}
					var other c19Want
					if safely(func() error { other = s.ref(&call); return nil }) == nil && other.show() != mine {
						distSeen[s.full] = true
					}
				}
			}
		case "coerce":
			args := append([]tengo.Object{}, call.args...)
			p, tn := g.coerce(f.kinds, args)
			if p < 0 {
				// nothing coercible in this tuple: run it as a plain value call
				res := c19Exec(f.script(&call, len(call.args)), call.args, -1, -1)
				r.Eval()
				r.Inc("fn:" + f.full)
				r.Inc("mode:value")
				c.judge(r, f, "value", &call, call.args, &want, &res, nil)
				continue
			}
			res := c19Exec(f.script(&call, len(args)), args, -1, -1)
			r.Eval()
			r.Inc("mode:coerce")
			r.Distinct(f.full, "c", call.expr, strings.Join(c19ShowArgs(args), ";"))
			if res.phase == "runtime-error" && strings.Contains(res.msg, "invalid type for argument") {
				r.Inc("mode:coerce/rejected")
				continue
			}
			r.Inc("mode:coerce/accepted")
			c.judge(r, f, "coerce", &call, args, &want, &res, map[string]interface{}{"coerced_position": p, "coerced_from": tn, "original_args": c19ShowArgs(call.args)})
		case "type":
			// candidates: documented (non-optional) string positions, every position of the other kinds
			var cand []int
			for p := range call.args {
				if p >= len(f.kinds) {
					break
				}
				k := f.kinds[p]
				if p < f.fixed || k == kBool || k == kAny || (k == kStr && p >= f.minArgs) {
					continue
				}
				cand = append(cand, p)
			}
			if len(cand) == 0 {
				continue
			}
			p := pick(rng, cand)
			args := append([]tengo.Object{}, call.args...)
			args[p] = pick(rng, c19NonConvertible(f.kinds[p]))
			res := c19Exec(f.script(&call, len(args)), args, -1, -1)
			r.Eval()
			r.Inc("mode:type")
			r.Distinct(f.full, "t", fmt.Sprint(p), args[p].TypeName())
			if res.phase == "runtime-error" && strings.Contains(res.msg, "invalid type for argument") {
				continue
			}
			c.violate(r, f, "type", "a non-convertible argument type was not rejected with the run-time error 'invalid type for argument'", args, &res,
				"run-time error: invalid type for argument", map[string]interface{}{"position": p, "passed_type": args[p].TypeName()})
		case "arity":
			maxN := 5
			if len(f.kinds)+1 > maxN {
				maxN = len(f.kinds) + 1
			}
			var cand []int
			for n := f.fixed; n <= maxN; n++ {
				valid := n >= f.minArgs && n <= len(f.kinds)
				for _, o := range f.optArity {
					if o == n {
						valid = true
					}
				}
				if !valid {
					cand = append(cand, n)
				}
			}
			n := pick(rng, cand)
			args := append([]tengo.Object{}, call.args...)
			for len(args) < n {
				args = append(args, vI(int64(len(args))))
			}
			args = args[:n]
			ac := c19Call{}
			res := c19Exec(f.script(&ac, n), args, -1, -1)
			r.Eval()
			r.Inc("mode:arity")
			r.Distinct(f.full, "a", fmt.Sprint(n))
			if res.phase == "runtime-error" && strings.Contains(res.msg, "wrong number of arguments") {
				continue
			}
			c.violate(r, f, "arity", fmt.Sprintf("a call with %d arguments was not rejected with the run-time error 'wrong number of arguments'", n), args, &res,
				"run-time error: wrong number of arguments", nil)
		case "limit":
			ms, mb := -1, -1
			if want.kind == wValue {
				c19MaxLens(want.val, &ms, &mb)
			} else if want.kind == wPred {
				ms = want.maxStr
			}
			if ms < 0 && mb < 0 {
				// no string in this result: plain value call
				res := c19Exec(f.script(&call, len(call.args)), call.args, -1, -1)
				r.Eval()
				r.Inc("fn:" + f.full)
				r.Inc("mode:value")
				c.judge(r, f, "value", &call, call.args, &want, &res, nil)
				continue
			}
			is, ib := 0, 0
			for _, a := range call.args {
				c19MaxLens(a, &is, &ib)
			}
			delta := rng.Intn(2) // 1: one below the result length, 0: exactly the result length
			sl, bl := -1, -1
			over := false
			if ms >= 0 {
				sl = ms - delta
				if sl < is {
					sl = is
				}
				if ms > sl {
					over = true
				}
			}
			if mb >= 0 {
				bl = mb - delta
				if bl < ib {
					bl = ib
				}
				if mb > bl {
					over = true
				}
			}
			res := c19Exec(f.script(&call, len(call.args)), call.args, sl, bl)
			r.Eval()
			r.Inc("mode:limit")
			r.Distinct(f.full, "l", fmt.Sprint(sl, bl), call.expr, strings.Join(c19ShowArgs(call.args), ";"))
			extra := map[string]interface{}{"MaxStringLen": sl, "MaxBytesLen": bl, "longest_result_string": ms, "longest_result_bytes": mb}
			if over {
				// The property statement does not say what a call does when the
				// Go result is longer than a configured maximum: the limit error
				// and the Go result are both accepted, anything else is judged.
				r.Inc("mode:limit/over")
				if c19IsLimitErr(&res) {
					r.Inc("mode:limit/over/limit-error")
					continue
				}
				r.Inc("mode:limit/over/value")
				c.judge(r, f, "limit", &call, call.args, &want, &res, extra)
				continue
			}
			r.Inc("mode:limit/within")
			c.judge(r, f, "limit", &call, call.args, &want, &res, extra)
		}
	}
	if len(sibs) > 1 && len(distSeen) == len(sibs)-1 {
		r.Inc("dist:" + f.full)
	}
}

// genCall draws a right-typed call and its reference; needValue retries until
// the reference is a plain value (modes derived from a valid call).
func (c *c19) genCall(r *fw.Rec, f *c19Fn, g *c19G, needValue bool) (call c19Call, want c19Want, ok bool) {
	for try := 0; try < 8; try++ {
		call = f.gen(g)
		err := safely(func() error { want = f.ref(&call); return nil })
		if err != nil {
			r.Inconc("reference panicked: " + f.full + ": " + trunc(err.Error(), 80))
			return call, want, false
		}
		if !needValue || want.kind == wValue || want.kind == wPred {
			return call, want, true
		}
	}
	return call, want, false
}

// judge compares one engine result with the expectation; true = conforming.
func (c *c19) judge(r *fw.Rec, f *c19Fn, mode string, call *c19Call, args []tengo.Object, want *c19Want, res *c19Res, extra map[string]interface{}) bool {
	switch res.phase {
	case "go-panic", "panic":
		c.violate(r, f, "panic", "the call died with a Go panic (neither a value, an error value nor a tengo run-time error)", args, res, want.show(), extra)
		return false
	case "compile-error":
		r.Inconc("script did not compile: " + f.full + ": " + trunc(firstLine(res.msg), 80))
		return false
	}
	if want.kind == wTotal {
		r.Inc("mode:totality-only")
		return true
	}
	if res.phase == "ok" && want.matches(res.out) {
		return true
	}
	kind, what := "value", "the engine's result differs from the documented Go function applied to the same arguments"
	if mode == "coerce" {
		kind, what = "coerce", "an argument accepted through the documented conversion did not yield the result for the converted value"
	}
	if mode == "limit" {
		kind, what = "limit", "under a configured maximum length the call returned neither the reference value nor (for a result longer than the maximum) the limit error"
	}
	if want.kind == wErrValue {
		kind = "error-value"
		what = "the Go function reports an error for this input; the engine must return it as an error value"
		if res.phase == "runtime-error" {
			what += " (it raised a run-time error instead)"
		}
	} else if res.phase == "runtime-error" {
		what = "the engine raised a run-time error where the documented Go function returns a value"
	}
	c.violate(r, f, kind, what, args, res, want.show(), extra)
	return false
}

func (c *c19) violate(r *fw.Rec, f *c19Fn, kind, what string, args []tengo.Object, res *c19Res, want string, extra map[string]interface{}) {
	d := map[string]interface{}{"function": f.full, "script": res.src, "args": c19ShowArgs(args), "got": res.show(), "want": want}
	if res.stack != "" {
		d["stack"] = trunc(res.stack, 2000)
	}
	if time.Local != time.UTC {
		d["time.Local"] = time.Local.String()
	}
	for k, v := range extra {
		d[k] = v
	}
	sig := kind + ":" + f.full
	if c.stored == nil {
		c.stored = map[string]bool{}
	}
	if c.stored[sig] {
		r.Inc("repeat-of-stored-witness:" + sig)
		return
	}
	c.stored[sig] = true
	r.Violate(sig, f.full+": "+what, d)
}

func (c *c19) Finish(m *fw.Merged, tier string) {
	for _, f := range c19Table() {
		if m.Counters["fn:"+f.full] == 0 {
			m.Fail("table entry never exercised with a judged right-typed call: " + f.full)
		}
		if f.family != "" && len(c19Fam[f.family]) > 1 && m.Counters["dist:"+f.full] == 0 {
			m.Fail("no case separated " + f.full + " from all its siblings of family " + f.family)
		}
	}
	for _, k := range []string{"mode:value", "mode:coerce/accepted", "mode:type", "mode:arity", "mode:limit/over", "mode:limit/within", "mode:value/go-error-input", "mode:constant"} {
		if m.Counters[k] == 0 {
			m.Fail("never observed: " + k)
		}
	}
	var untabled []string
	for k := range m.Counters {
		if strings.HasPrefix(k, "untabled:") {
			untabled = append(untabled, strings.TrimPrefix(k, "untabled:"))
		}
	}
	sort.Strings(untabled)
	for _, k := range untabled {
		m.Fail("module member without a reference in the C19 table: " + k)
	}
}

// ---------------------------------------------------------------- meta entries

var c19Mods = []string{"text", "math", "base64", "hex", "enum", "times"}

var c19OutOfScope = map[string]bool{"times.now": true, "times.since": true, "times.until": true, "times.sleep": true}

func c19Members(mod string) (map[string]tengo.Object, error) {
	res := c19Exec("out := import(\""+mod+"\")\n", nil, -1, -1)
	if res.phase != "ok" {
		return nil, fmt.Errorf("%s: %s", res.phase, res.msg)
	}
	switch v := res.out.(type) {
	case *tengo.ImmutableMap:
		return v.Value, nil
	case *tengo.Map:
		return v.Value, nil
	}
	return nil, fmt.Errorf("import(%q) is %s", mod, res.out.TypeName())
}

// every member of the six modules has a table entry (coverage of the table
// itself; a miss is a harness failure, not a violation)
func c19MetaMembers(r *fw.Rec, cs fw.Case) {
	have := map[string]bool{}
	for _, f := range c19Table() {
		have[f.full] = true
	}
	for _, mod := range c19Mods {
		mem, err := c19Members(mod)
		r.Eval()
		if err != nil {
			r.Inconc("cannot import module: " + err.Error())
			continue
		}
		for k := range mem {
			full := mod + "." + k
			if strings.HasPrefix(k, "__") {
				continue // import bookkeeping (__module_name__), not a documented member
			}
			if c19OutOfScope[full] {
				r.Inc("out-of-scope-members")
				continue
			}
			if have[full] {
				r.Inc("members-with-table-entry")
			} else {
				r.Inc("untabled:" + full)
			}
		}
	}
	r.Distinct("meta.members")
}

var c19DocNameRe = regexp.MustCompile("(?m)^- `([A-Za-z_][A-Za-z_0-9]*)")

// every name the module documentation lists exists in the module
func c19MetaDocNames(r *fw.Rec, cs fw.Case) {
	root := os.Getenv("VERIF_REPO")
	if root == "" {
		root = "/repo"
	}
	for _, mod := range c19Mods {
		b, err := os.ReadFile(root + "/docs/stdlib-" + mod + ".md")
		if err != nil {
			r.Inconc("documentation unreadable: " + mod)
			continue
		}
		doc := string(b)
		if i := strings.Index(doc, "\n## Regexp"); i >= 0 {
			doc = doc[:i] // methods of the Regexp object are not module members
		}
		mem, err := c19Members(mod)
		if err != nil {
			r.Inconc("cannot import module: " + err.Error())
			continue
		}
		for _, m := range c19DocNameRe.FindAllStringSubmatch(doc, -1) {
			name := m[1]
			r.Eval()
			r.Inc("documented-names")
			r.Distinct("meta.docname", mod, name)
			if _, ok := mem[name]; !ok {
				// a misspelt name in the documentation (sprtPi, ln10E) is not a
				// wrong result of any function: counted, not judged
				r.Inc("documented-name-not-in-module:" + mod + "." + name)
			}
		}
	}
}
