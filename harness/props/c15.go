package props

import (
	"errors"
	"fmt"
	"math"
	"math/rand"
	"reflect"
	"sort"
	"strconv"
	"strings"
	"time"

	"github.com/d5/tengo/v2"

	"verif/fw"
	"verif/ref"
)

// C15 — host/script value exchange is coherent over any sequence of API calls.
type c15 struct{}

func init() { fw.Register(&c15{}) }

func (*c15) ID() string    { return "C15" }
func (*c15) Level() string { return "exploration" }

// a case takes milliseconds; an API call that never returns (e.g. a lock left held) is found by the driver's watchdog
func (*c15) Config(tier string) fw.Config { return fw.Config{CaseTimeout: 20 * time.Second} }
func (*c15) NumCases(tier string) int {
	if tier == "thorough" {
		return 200000
	}
	return 10000
}
func (*c15) Rule() string {
	return "two families: (a) conversion — random Go values of every supported type (nil, string, int64, int, bool, rune, byte, float64, []byte, time.Time, error, nested map[string]interface{} / []interface{} / []Object / map[string]Object, Objects) and unsupported ones are passed through FromInterface / Script.Add / Compiled.Set; " +
		"the script itself reports type_name and the value, ToInterface(FromInterface(v)) must be v up to the documented normalisation, unsupported values must be rejected leaving the variable unchanged, and every typed accessor of Variable is compared with an independent coercion table; " +
		"(b) histories — random sequences of up to 40 Add/Remove/Compile/Set/Run/Get/GetAll/IsDefined/Clone calls over a family of 13 small scripts (reading, assigning, shadowing, mutating host variables in place, failing midway) on several live Compiled objects, checked call by call against a sequential model whose Run is the reference interpreter; written values are unique; tengo.Eval is compared with the model as well. " +
		"distinct = distinct value / history; non-trivial = nested value or history with >= 10 calls"
}
func (*c15) Assumptions() []string {
	return []string{
		"normalisation as documented: int -> int64, byte/rune -> rune, []interface{}/[]Object -> []interface{}, maps likewise, error -> an error whose text is the string form of the Tengo error value, Objects returned unchanged",
		"Run in the model is the reference interpreter (harness/ref); Clone deep-copies like the copy builtin",
		"closures capturing local variables are not placed in globals here (recorded finding of C08)",
	}
}

// ---- family (a)

type c15GoVal struct {
	v        interface{}
	wantType string      // tengo type name ("" = must be rejected)
	canon    string      // canonical form of the expected object
	back     interface{} // expected ToInterface result
	nested   bool
}

func c15GenGo(r *rand.Rand, depth int) c15GoVal {
	switch k := r.Intn(17); {
	case k == 0:
		return c15GoVal{v: nil, wantType: "undefined", canon: "undef", back: nil}
	case k == 1:
		s := pick(r, []string{"", "a", "héllo", "日本語", "\xff\xfe", "x y", "123", "010", "0123", "08", "-007", "+5", "0x1F", "0b11", "0o17", "1_000", " 7", "7 ", "1e3", "2.50", ".5", "5.", "0x1p4", "1_0.5", "Inf", "-0"})
		return c15GoVal{v: s, wantType: "string", canon: fmt.Sprintf("s%q", s), back: s}
	case k == 2:
		i := pick(r, []int64{0, 1, -1, 42, math.MaxInt64, math.MinInt64, int64(r.Intn(100000))})
		return c15GoVal{v: i, wantType: "int", canon: fmt.Sprintf("i%d", i), back: i}
	case k == 3:
		i := pick(r, []int{0, 1, -7, 1 << 40, r.Intn(1000)})
		return c15GoVal{v: i, wantType: "int", canon: fmt.Sprintf("i%d", i), back: int64(i)}
	case k == 4:
		b := r.Intn(2) == 0
		return c15GoVal{v: b, wantType: "bool", canon: fmt.Sprint(b), back: b}
	case k == 5:
		c := pick(r, []rune{0, 'a', 'é', '日', 0x10FFFF})
		return c15GoVal{v: c, wantType: "char", canon: fmt.Sprintf("c%d", c), back: c}
	case k == 6:
		c := byte(r.Intn(256))
		return c15GoVal{v: c, wantType: "char", canon: fmt.Sprintf("c%d", c), back: rune(c)}
	case k == 7:
		f := pick(r, []float64{0, 1.5, -2.25, 1e21, math.Inf(1), math.SmallestNonzeroFloat64, float64(r.Intn(100)) / 8})
		return c15GoVal{v: f, wantType: "float", canon: fmt.Sprintf("f%016x", math.Float64bits(f)), back: f}
	case k == 8:
		b := []byte(pick(r, []string{"", "ab", "\x00\xff", "bytes"}))
		return c15GoVal{v: b, wantType: "bytes", canon: fmt.Sprintf("b%x", b), back: b}
	case k == 9:
		t := pick(r, []time.Time{{}, time.Unix(1700000000, 123).UTC(), time.Unix(0, 0).UTC()})
		return c15GoVal{v: t, wantType: "time", canon: fmt.Sprintf("t%d", t.UnixNano()), back: t}
	case k == 10:
		msg := pick(r, []string{"boom", "", "é\"q"})
		return c15GoVal{v: errors.New(msg), wantType: "error", canon: fmt.Sprintf("err(s%q)", msg), back: errors.New("error: " + strconv.Quote(msg))}
	case k == 11 && depth > 0:
		n := r.Intn(4)
		arr := make([]interface{}, n)
		back := make([]interface{}, n)
		var cs []string
		for i := range arr {
			e := c15GenGo(r, depth-1)
			for e.wantType == "" {
				e = c15GenGo(r, depth-1)
			}
			arr[i], back[i] = e.v, e.back
			cs = append(cs, e.canon)
		}
		return c15GoVal{v: arr, wantType: "array", canon: "[" + strings.Join(cs, ",") + "]", back: back, nested: true}
	case k == 12 && depth > 0:
		n := r.Intn(4)
		m := map[string]interface{}{}
		back := map[string]interface{}{}
		cm := map[string]string{}
		for i := 0; i < n; i++ {
			e := c15GenGo(r, depth-1)
			for e.wantType == "" {
				e = c15GenGo(r, depth-1)
			}
			key := pick(r, []string{"a", "b", "k 1", ""})
			m[key], back[key] = e.v, e.back
			cm[key] = e.canon
		}
		keys := make([]string, 0, len(cm))
		for k := range cm {
			keys = append(keys, k)
		}
		sort.Strings(keys)
		var cs []string
		for _, k := range keys {
			cs = append(cs, fmt.Sprintf("%q:%s", k, cm[k]))
		}
		return c15GoVal{v: m, wantType: "map", canon: "{" + strings.Join(cs, ",") + "}", back: back, nested: true}
	case k == 13:
		objs := []tengo.Object{&tengo.Int{Value: 3}, &tengo.String{Value: "o"}}
		return c15GoVal{v: objs, wantType: "array", canon: `[i3,s"o"]`, back: []interface{}{int64(3), "o"}, nested: true}
	case k == 14:
		m := map[string]tengo.Object{"x": &tengo.Float{Value: 2.5}}
		return c15GoVal{v: m, wantType: "map", canon: `{"x":f4004000000000000}`, back: map[string]interface{}{"x": 2.5}, nested: true}
	case k == 15:
		o := &tengo.ImmutableArray{Value: []tengo.Object{&tengo.Int{Value: 1}}}
		return c15GoVal{v: o, wantType: "immutable-array", canon: "I[i1]", back: []interface{}{int64(1)}}
	default:
		// unsupported Go types
		return c15GoVal{v: pick(r, []interface{}{uint(3), float32(1.5), []string{"a"}, struct{ A int }{1}, int16(5), int8(-3), uint64(9), map[string]int{"a": 1}, []int{1}, complex(1, 2),
			map[string]interface{}{"deep": []interface{}{uint8(1), int16(2)}}, []interface{}{1, []interface{}{struct{}{}}}}), wantType: ""}
	}
}

func c15EqualGo(a, b interface{}) bool {
	if ea, ok := a.(error); ok {
		eb, ok2 := b.(error)
		return ok2 && ea.Error() == eb.Error()
	}
	switch x := a.(type) {
	case float64:
		y, ok := b.(float64)
		return ok && (x == y || (math.IsNaN(x) && math.IsNaN(y)))
	case time.Time:
		y, ok := b.(time.Time)
		return ok && x.Equal(y)
	case []interface{}:
		y, ok := b.([]interface{})
		if !ok || len(x) != len(y) {
			return false
		}
		for i := range x {
			if !c15EqualGo(x[i], y[i]) {
				return false
			}
		}
		return true
	case map[string]interface{}:
		y, ok := b.(map[string]interface{})
		if !ok || len(x) != len(y) {
			return false
		}
		for k, v := range x {
			w, ok := y[k]
			if !ok || !c15EqualGo(v, w) {
				return false
			}
		}
		return true
	case []byte:
		y, ok := b.([]byte)
		return ok && string(x) == string(y)
	}
	return reflect.DeepEqual(a, b)
}

func (c *c15) convCase(r *fw.Rec, rng *rand.Rand) {
	g := c15GenGo(rng, 2)
	desc := fmt.Sprintf("%T(%v)", g.v, g.v)
	if len(desc) > 300 {
		desc = desc[:300]
	}
	detail := map[string]interface{}{"go_value": desc, "expected_tengo_type": g.wantType}
	r.Eval()
	// 1. FromInterface
	obj, err := tengo.FromInterface(g.v)
	s := tengo.NewScript([]byte("t := type_name(x)\ny := x\nz := immutable(x)\nw := {im: immutable({v: x}), ar: immutable([x])}\n"))
	addErr := s.Add("x", g.v)
	if g.wantType == "" {
		r.Inc("a:unsupported")
		if err == nil || addErr == nil {
			r.Violate("conv:unsupported-accepted", "a Go value of an unsupported type was accepted", detail)
			return
		}
		// Set must reject it and leave the variable as it was
		s2 := tengo.NewScript([]byte("y := x\n"))
		_ = s2.Add("x", 41)
		cp, _ := s2.Compile()
		if e := cp.Set("x", g.v); e == nil {
			r.Violate("conv:set-unsupported-accepted", "Compiled.Set accepted a Go value of an unsupported type", detail)
			return
		}
		if got := canon(cp.Get("x").Object()); got != "i41" {
			detail["after_rejected_set"] = got
			r.Violate("conv:rejected-set-clobbers", "a rejected Set changed the variable", detail)
			return
		}
		if e := safely(func() error { return cp.RunContext(bg) }); e != nil || canon(cp.Get("y").Object()) != "i41" {
			detail["run_error"] = fmt.Sprint(e)
			r.Violate("conv:rejected-set-clobbers", "after a rejected Set the script no longer runs with the old value", detail)
			return
		}
		return
	}
	r.Inc("a:supported:" + g.wantType)
	if g.nested {
		r.Distinct("a", desc)
	} else {
		r.Distinct("a", desc)
	}
	if err != nil || addErr != nil {
		detail["error"] = fmt.Sprint(err, addErr)
		r.Violate("conv:rejected", "a Go value of a supported type was rejected", detail)
		return
	}
	if obj.TypeName() != g.wantType || canon(obj) != g.canon {
		detail["got_type"] = obj.TypeName()
		detail["got"] = canon(obj)
		detail["want"] = g.canon
		r.Violate("conv:from:"+g.wantType, "FromInterface produced the wrong Tengo type or value", detail)
		return
	}
	// 2. in the script
	cp, cerr := s.Compile()
	if cerr != nil {
		r.Violate("conv:compile", "compile failed: "+cerr.Error(), detail)
		return
	}
	if e := safely(func() error { return cp.RunContext(bg) }); e != nil {
		detail["error"] = e.Error()
		r.Violate("conv:run", "running a script with a host value failed", detail)
		return
	}
	if tn := cp.Get("t").String(); tn != g.wantType {
		detail["type_name_in_script"] = tn
		r.Violate("conv:script-type:"+g.wantType, "the value arrives in the script with the wrong type", detail)
		return
	}
	if y := canon(cp.Get("y").Object()); y != g.canon {
		detail["value_in_script"] = y
		detail["want"] = g.canon
		r.Violate("conv:script-value:"+g.wantType, "the value arrives in the script with the wrong value", detail)
		return
	}
	// 3. back
	back := tengo.ToInterface(obj)
	viaVar := cp.Get("y").Value()
	if !c15EqualGo(back, g.back) || !c15EqualGo(viaVar, g.back) {
		detail["back"] = fmt.Sprintf("%T(%v)", back, back)
		detail["via_variable"] = fmt.Sprintf("%T(%v)", viaVar, viaVar)
		detail["want_back"] = fmt.Sprintf("%T(%v)", g.back, g.back)
		r.Violate("conv:back:"+g.wantType, "converting to an object and back is not the identity up to the documented normalisation", detail)
		return
	}
	// 3b. the same value read back from inside immutable containers made by the script
	viaImm := cp.Get("z").Value()
	viaNested := cp.Get("w").Value()
	wantNested := map[string]interface{}{"im": map[string]interface{}{"v": g.back}, "ar": []interface{}{g.back}}
	if !c15EqualGo(viaImm, g.back) || !c15EqualGo(viaNested, wantNested) {
		detail["via_immutable"] = fmt.Sprintf("%T(%v)", viaImm, viaImm)
		detail["via_nested_immutables"] = fmt.Sprintf("%T(%v)", viaNested, viaNested)
		detail["want_back"] = fmt.Sprintf("%T(%v)", g.back, g.back)
		r.Violate("conv:back-immutable:"+g.wantType, "a value read back from inside an immutable array/map does not convert to the documented Go type", detail)
		return
	}
	// 4. typed accessors against the coercion table
	v := cp.Get("y")
	if p := c15Accessors(v, obj); p != "" {
		detail["accessor"] = p
		r.Violate("conv:accessor:"+firstWord(p), "a typed accessor disagrees with the documented coercion table", detail)
		return
	}
	r.Inc("a:accessors-checked")
}

// c15Accessors compares Variable's typed accessors with an independent table.
func c15Accessors(v *tengo.Variable, o tengo.Object) string {
	var wi int64
	var wf float64
	var wc rune
	var ws string
	wb := true
	var wbytes []byte
	wsOK := true
	switch x := o.(type) {
	case *tengo.Int:
		wi, wf, wc, ws, wb = x.Value, float64(x.Value), rune(x.Value), strconv.FormatInt(x.Value, 10), x.Value != 0
	case *tengo.Float:
		if !(math.IsNaN(x.Value) || math.Abs(x.Value) > 9e18) {
			wi = int64(x.Value)
		} else {
			wi = v.Int64() // platform dependent: not judged
		}
		wf, ws, wb = x.Value, strconv.FormatFloat(x.Value, 'f', -1, 64), !math.IsNaN(x.Value)
	case *tengo.String:
		if n, err := strconv.ParseInt(x.Value, 10, 64); err == nil {
			wi = n
		}
		if f, err := strconv.ParseFloat(x.Value, 64); err == nil {
			wf = f
		}
		ws, wb, wbytes = x.Value, x.Value != "", []byte(x.Value)
	case *tengo.Bool:
		if x == tengo.TrueValue {
			wi = 1
		}
		ws, wb = fmt.Sprint(x == tengo.TrueValue), x == tengo.TrueValue
	case *tengo.Char:
		wi, wc, ws, wb = int64(x.Value), x.Value, string(x.Value), x.Value != 0
	case *tengo.Bytes:
		ws, wb, wbytes = string(x.Value), len(x.Value) > 0, x.Value
	case *tengo.Undefined:
		ws, wb, wsOK = "", false, true
	case *tengo.Time:
		ws, wb = x.Value.String(), !x.Value.IsZero()
	case *tengo.Error:
		ws, wb = x.String(), false
	case *tengo.Array:
		ws, wb = x.String(), len(x.Value) > 0
	case *tengo.ImmutableArray:
		ws, wb = x.String(), len(x.Value) > 0
	case *tengo.Map:
		wsOK = len(x.Value) <= 1
		ws, wb = x.String(), len(x.Value) > 0
	default:
		return ""
	}
	if v.Int64() != wi {
		return fmt.Sprintf("Int64() = %d, want %d", v.Int64(), wi)
	}
	if v.Int() != int(wi) {
		return fmt.Sprintf("Int() = %d, want %d", v.Int(), int(wi))
	}
	if g := v.Float(); g != wf && !(math.IsNaN(g) && math.IsNaN(wf)) {
		return fmt.Sprintf("Float() = %v, want %v", g, wf)
	}
	if v.Char() != wc {
		return fmt.Sprintf("Char() = %d, want %d", v.Char(), wc)
	}
	if v.Bool() != wb {
		return fmt.Sprintf("Bool() = %v, want %v", v.Bool(), wb)
	}
	if wsOK && !multiKeyMap(o) && v.String() != ws {
		return fmt.Sprintf("String() = %q, want %q", v.String(), ws)
	}
	if string(v.Bytes()) != string(wbytes) {
		return fmt.Sprintf("Bytes() = %q, want %q", v.Bytes(), wbytes)
	}
	if _, isErr := o.(*tengo.Error); isErr != (v.Error() != nil) {
		return fmt.Sprintf("Error() = %v", v.Error())
	}
	if _, isU := o.(*tengo.Undefined); isU != v.IsUndefined() {
		return fmt.Sprintf("IsUndefined() = %v", v.IsUndefined())
	}
	if v.ValueType() != o.TypeName() {
		return fmt.Sprintf("ValueType() = %q", v.ValueType())
	}
	if a, isArr := o.(*tengo.Array); isArr != (v.Array() != nil || (isArr && len(a.Value) == 0)) {
		return fmt.Sprintf("Array() = %v", v.Array())
	}
	if _, isMap := o.(*tengo.Map); isMap != (v.Map() != nil) {
		return fmt.Sprintf("Map() = %v", v.Map())
	}
	return ""
}

// ---- family (b): histories against a sequential model

var c15Scripts = []string{
	"out := a + b\n",
	"a = a + 1\n",
	"x := 5\n",
	"if true { a := 100; z := a }\nc := a\n",
	"cnt += 1\nhist = append(hist, cnt)\n",
	"f := func() { a = a * 2 }\nf()\n",
	"",
	"m.k = a\nout := m\n",
	"out := a\nbad := a + \"s\" - 1\nlate := 7\n",
	"hist[0] = a\nq := hist\n",
	"b = undefined\nd := is_undefined(b)\n",
	"s := string(a) + b\nn := len(hist)\n",
	"rows[0].id = a\nrows[1][0] = cnt\nrows[1] = append(rows[1], a)\nout := rows[0].id\n",
	// an error value with a mutable payload kept in a global across runs and clones
	"if !is_error(b) { b = error({n: a, l: [cnt]}) } else { b.value.n = a; b.value.l[0] += 1 }\nout := b\n",
	"hist = [error([a]), hist]\nif is_error(hist[1][0]) { hist[1][0].value[0] = cnt }\nq := hist\n",
	"cfg.hits[0] += a\nout := cfg.hits[0]\n",
	"cfg.hits = append(cfg.hits, cnt)\n",
	// "copy" is a host variable of these histories although it is also the name of a builtin function
	"out := copy\n",
	"copy = len(hist)\nq := is_function(copy)\n",
}

// model value constructors (unique written values)
func c15ModelVal(r *rand.Rand, uniq *int64) (interface{}, ref.Value) {
	*uniq++
	u := *uniq
	switch r.Intn(5) {
	case 0:
		return u, ref.Int(u)
	case 1:
		s := fmt.Sprintf("s%d", u)
		return s, ref.Str(s)
	case 2:
		return []interface{}{u, "e"}, ref.NewArr([]ref.Value{ref.Int(u), ref.Str("e")}, false)
	case 3:
		return map[string]interface{}{"k": u}, ref.NewMap(map[string]ref.Value{"k": ref.Int(u)}, false)
	default:
		return float64(u) + 0.5, ref.Float(float64(u) + 0.5)
	}
}

func c15DeepCopy(v ref.Value) ref.Value {
	switch x := v.(type) {
	case *ref.Arr:
		els := make([]ref.Value, len(x.Els()))
		for i, e := range x.Els() {
			els[i] = c15DeepCopy(e)
		}
		return ref.NewArr(els, false) // Copy() yields mutable containers
	case *ref.Map:
		m := map[string]ref.Value{}
		for k, e := range x.M {
			m[k] = c15DeepCopy(e)
		}
		return ref.NewMap(m, false)
	case *ref.Bytes:
		return &ref.Bytes{B: append([]byte{}, x.B...)}
	case *ref.Err:
		return &ref.Err{V: c15DeepCopy(x.V)}
	}
	return v
}

type c15Compiled struct {
	cp    *tengo.Compiled
	src   string
	state map[string]ref.Value // declared names -> value
	label string
}

func (c *c15) historyCase(r *fw.Rec, rng *rand.Rand) {
	src := pick(rng, c15Scripts)
	var uniq int64 = 1000
	script := tengo.NewScript([]byte(src))
	svars := map[string]ref.Value{}
	var log []string
	add := func(n string, gv interface{}, mv ref.Value) {
		_ = script.Add(n, gv)
		svars[n] = mv
		log = append(log, fmt.Sprintf("script.Add(%q, %v)", n, gv))
	}
	add("a", int64(1), ref.Int(1))
	add("b", "bee", ref.Str("bee"))
	add("cnt", int64(0), ref.Int(0))
	add("hist", []interface{}{int64(0)}, ref.NewArr([]ref.Value{ref.Int(0)}, false))
	add("m", map[string]interface{}{}, ref.NewMap(nil, false))
	add("copy", "cp", ref.Str("cp"))
	// an immutable container from the host with a mutable element inside
	add("cfg", &tengo.ImmutableMap{Value: map[string]tengo.Object{"name": &tengo.String{Value: "c"}, "hits": &tengo.Array{Value: []tengo.Object{&tengo.Int{Value: 0}}}}},
		ref.NewMap(map[string]ref.Value{"name": ref.Str("c"), "hits": ref.NewArr([]ref.Value{ref.Int(0)}, false)}, true))
	add("rows", []interface{}{map[string]interface{}{"id": int64(0)}, []interface{}{int64(1)}},
		ref.NewArr([]ref.Value{ref.NewMap(map[string]ref.Value{"id": ref.Int(0)}, false), ref.NewArr([]ref.Value{ref.Int(1)}, false)}, false))
	var live []*c15Compiled
	detail := func() map[string]interface{} {
		return map[string]interface{}{"script": src, "history": append([]string{}, log...)}
	}
	topNames := func() []string {
		// names a compile declares: script variables + the script's top-level := names
		var out []string
		for _, l := range strings.Split(src, "\n") {
			if i := strings.Index(l, " := "); i > 0 && !strings.HasPrefix(l, " ") && !strings.Contains(l[:i], " ") && !strings.HasPrefix(l, "if") {
				out = append(out, l[:i])
			}
		}
		return out
	}
	nops := 8 + rng.Intn(32)
	for k := 0; k < nops; k++ {
		op := rng.Intn(12)
		if len(live) == 0 && op > 2 {
			op = 2
		}
		switch op {
		case 0: // Add
			n := pick(rng, []string{"a", "b", "extra", "cnt"})
			gv, mv := c15ModelVal(rng, &uniq)
			if n == "cnt" || n == "a" {
				uniq++
				gv, mv = uniq, ref.Int(uniq)
			}
			add(n, gv, mv)
		case 1: // Remove
			n := pick(rng, []string{"extra", "nosuch", "extra"})
			_, had := svars[n]
			got := script.Remove(n)
			log = append(log, fmt.Sprintf("script.Remove(%q) -> %v", n, got))
			r.Eval()
			if got != had {
				r.Violate("history:remove", "Script.Remove returned the wrong value", detail())
				return
			}
			delete(svars, n)
		case 2: // Compile
			cp, err := script.Compile()
			log = append(log, fmt.Sprintf("script.Compile() -> err=%v", err))
			r.Eval()
			if err != nil {
				// scripts reference a, b, cnt, hist, m: all present unless removed (never removed)
				r.Violate("history:compile", "Compile failed: "+err.Error(), detail())
				return
			}
			st := map[string]ref.Value{}
			for n, v := range svars {
				st[n] = v // the compiled object shares the values given to Add (no copy is documented)
			}
			for _, n := range topNames() {
				if _, ok := st[n]; !ok {
					st[n] = ref.Undef{}
				}
			}
			live = append(live, &c15Compiled{cp: cp, src: src, state: st, label: fmt.Sprintf("c%d", len(live))})
		case 3, 4: // Set
			t := pick(rng, live)
			n := pick(rng, []string{"a", "b", "cnt", "nosuch", "out", "x", "copy", "len"})
			gv, mv := c15ModelVal(rng, &uniq)
			if n == "a" || n == "cnt" {
				uniq++
				gv, mv = uniq, ref.Int(uniq)
			}
			bad := rng.Intn(8) == 0
			if bad {
				gv = []string{"unsupported"}
			}
			err := t.cp.Set(n, gv)
			log = append(log, fmt.Sprintf("%s.Set(%q, %v) -> err=%v", t.label, n, gv, err))
			r.Eval()
			_, declared := t.state[n]
			if (err == nil) != (declared && !bad) {
				r.Violate("history:set-result", "Set accepted/rejected wrongly (undeclared names and unsupported values must be rejected)", detail())
				return
			}
			if err == nil {
				t.state[n] = mv
			}
		case 5, 6: // Run
			t := pick(rng, live)
			err := safely(func() error { return t.cp.RunContext(bg) })
			// the model: reference interpreter over the same source with the current host values
			inputs := map[string]ref.Value{}
			for n := range svars {
				if v, ok := t.state[n]; ok {
					inputs[n] = v
				}
			}
			for n, v := range t.state {
				if _, isScriptVar := svars[n]; !isScriptVar {
					_ = v
				}
			}
			out := ref.RunOnce(ref.Program{Src: []byte(t.src), Inputs: func() map[string]ref.Value { return inputs }, Cfg: ref.DefaultConfig()}, ref.Policy{})
			log = append(log, fmt.Sprintf("%s.Run() -> err=%v (model: %s %s)", t.label, err, out.Kind, out.Err))
			r.Eval()
			if out.Kind == "unspecified" || out.Kind == "compile-error" {
				r.Inc("b:model-unspecified")
				return
			}
			if (err == nil) != (out.Kind == "ok") {
				r.Violate("history:run-outcome", "Run ended differently from the model", detail())
				return
			}
			for n, v := range out.Values {
				if _, ok := t.state[n]; ok {
					t.state[n] = v
				}
			}
		case 7, 8: // Get
			t := pick(rng, live)
			n := pick(rng, []string{"a", "b", "cnt", "hist", "m", "out", "x", "c", "late", "nosuch", "z", "q", "d", "s", "n", "rows", "rows", "copy", "len", "cfg", "cfg"})
			got := canon(t.cp.Get(n).Object())
			want := "undef"
			if v, ok := t.state[n]; ok {
				want = ref.Canon(v)
			}
			log = append(log, fmt.Sprintf("%s.Get(%q) -> %s", t.label, n, trunc(got, 80)))
			r.Eval()
			if got != want {
				d := detail()
				d["got"], d["want"], d["name"] = got, want, n
				r.Violate("history:get", "Get does not return the last value the host set or the script assigned", d)
				return
			}
			isDef := t.cp.IsDefined(n)
			_, declared := t.state[n]
			wantDef := declared && want != "undef"
			if isDef != wantDef {
				d := detail()
				d["name"], d["is_defined"], d["want"] = n, isDef, wantDef
				r.Violate("history:isdefined", "IsDefined disagrees with the model", d)
				return
			}
		case 9: // GetAll
			t := pick(rng, live)
			all := map[string]string{}
			for _, v := range t.cp.GetAll() {
				all[v.Name()] = canon(v.Object())
			}
			want := map[string]string{}
			for n, v := range t.state {
				want[n] = ref.Canon(v)
			}
			log = append(log, fmt.Sprintf("%s.GetAll() -> %d variables", t.label, len(all)))
			r.Eval()
			if d := globalsDiff(want, all); len(d) > 0 {
				dd := detail()
				dd["differences(model vs engine)"] = d
				r.Violate("history:getall", "GetAll disagrees with the model", dd)
				return
			}
		default: // Clone
			t := pick(rng, live)
			cl := t.cp.Clone()
			st := map[string]ref.Value{}
			for n, v := range t.state {
				st[n] = c15DeepCopy(v)
			}
			live = append(live, &c15Compiled{cp: cl, src: t.src, state: st, label: fmt.Sprintf("c%d(clone of %s)", len(live), t.label)})
			log = append(log, fmt.Sprintf("%s.Clone()", t.label))
		}
	}
	r.Inc("b:histories")
	r.Count("b:history-calls", int64(len(log)))
	if len(log) >= 10 {
		r.Distinct("b", strings.Join(log, "|"))
	}
	if r.WantSample() && len(log) > 12 && len(log) < 30 {
		r.Sample(map[string]interface{}{"script": src, "history": log})
	}
}

func (c *c15) evalCase(r *fw.Rec, rng *rand.Rand) {
	exprs := []string{"a + b", "a * 2 + len(s)", "[a, b, s]", "{k: a}.k + b", "a > b ? s : undefined", "s + a", "a / b", "nosuch + 1", "func(x) { return x * a }(b)", "", "  ", "a +", "import(\"x\")", "string(a) + s[0]", "[1,2,3][a:b]"}
	e := pick(rng, exprs)
	a, b := int64(rng.Intn(10)), int64(rng.Intn(5))
	params := map[string]interface{}{"a": a, "b": b, "s": "str"}
	var got interface{}
	err := safely(func() error {
		var e2 error
		got, e2 = tengo.Eval(bg, e, params)
		return e2
	})
	r.Eval()
	r.Inc("b:eval")
	detail := map[string]interface{}{"expr": e, "a": a, "b": b, "result": fmt.Sprintf("%T(%v)", got, got), "error": fmt.Sprint(err)}
	if p, ok := isPanic(err); ok {
		detail["stack"] = trunc(p.stack, 2000)
		r.Violate("eval:panic", "tengo.Eval panicked", detail)
		return
	}
	src := fmt.Sprintf("__res__ := (%s)", strings.TrimSpace(e))
	m := ref.RunOnce(ref.Program{Src: []byte(src), Inputs: func() map[string]ref.Value {
		return map[string]ref.Value{"a": ref.Int(a), "b": ref.Int(b), "s": ref.Str("str")}
	}, Cfg: ref.DefaultConfig()}, ref.Policy{})
	if strings.TrimSpace(e) == "" {
		if err == nil {
			r.Violate("eval:empty-accepted", "Eval accepted an empty expression", detail)
		}
		return
	}
	if (err == nil) != (m.Kind == "ok") {
		detail["model"] = m.Kind + ": " + m.Err
		r.Violate("eval:outcome", "Eval ended differently from the model", detail)
		return
	}
	if err == nil {
		obj, _ := tengo.FromInterface(got)
		want := m.Globals["__res__"]
		// ToInterface normalises immutables and errors; compare through the object form of the Go result
		if canon(obj) != want {
			detail["model_value"] = want
			r.Violate("eval:value", "Eval returned a value different from the model", detail)
		}
	}
}

// sharedAddProbe: the object made from a value given to Script.Add is shared by every Compiled the
// Script produces, so an in-place update by one compiled object's run shows in another one that
// was never run or set. Exact history, listed as a known finding.
func (c *c15) sharedAddProbe(r *fw.Rec) {
	s := tengo.NewScript([]byte("a[0] += 1\n"))
	_ = s.Add("a", []interface{}{1})
	c1, e1 := s.Compile()
	if e1 != nil {
		return
	}
	_ = c1.RunContext(bg)
	c2, e2 := s.Compile()
	if e2 != nil {
		return
	}
	r.Eval()
	r.Inc("b:shared-add-probe")
	if got := canon(c2.Get("a").Object()); got != "[i1]" {
		r.Violate("history:add-value-shared-between-compiles", "a freshly compiled object reads a value nobody set on it: the value given to Script.Add was changed in place by another compiled object's run",
			map[string]interface{}{"history": []string{`s := NewScript("a[0] += 1")`, `s.Add("a", []interface{}{1})`, "c1 := s.Compile()", "c1.Run()", "c2 := s.Compile()", `c2.Get("a")`}, "got": got, "want": "[i1] (the last value the host set)"})
	}
}

func (c *c15) RunCase(r *fw.Rec, cs fw.Case) {
	if cs.Index == 0 {
		c.sharedAddProbe(r)
	}
	rng := cs.Rng("c15")
	switch cs.Index % 4 {
	case 0, 1:
		for i := 0; i < 10; i++ {
			c.convCase(r, rng)
		}
	case 2:
		c.historyCase(r, rng)
	default:
		c.historyCase(r, rng)
		c.evalCase(r, rng)
	}
}

func (c *c15) Finish(m *fw.Merged, tier string) {
	for _, k := range []string{"a:unsupported", "a:supported:map", "a:supported:array", "a:supported:error", "a:supported:time", "a:accessors-checked", "b:histories", "b:eval"} {
		if m.Counters[k] == 0 {
			m.Fail("never observed: " + k)
		}
	}
}
