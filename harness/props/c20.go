package props

import (
	"fmt"
	"go/constant"
	goscanner "go/scanner"
	gotoken "go/token"
	"math"
	"math/rand"
	"strings"

	"github.com/d5/tengo/v2/parser"

	"verif/fw"
)

// C20 — parsing reflects the documented grammar and its own printed form.
type c20 struct{}

func init() { fw.Register(&c20{}) }

func (*c20) ID() string    { return "C20" }
func (*c20) Level() string { return "exploration" }
func (*c20) NumCases(tier string) int {
	if tier == "thorough" {
		return 400000
	}
	return 16000
}
func (*c20) Rule() string {
	return "four families per case index: (a) 40 random expression trees (19 binary, 4 unary operators, ternary, call/index/slice/selector chains, literals, depth<=7) printed with the minimum parentheses from an independent precedence table and re-parsed, shapes compared; " +
		"(b) 25 statement token sequences re-laid-out with newline / ';' / line and block comments in every token gap, each compared with the explicit-semicolon form predicted by an independent token rule; " +
		"(c) 120 literal spellings judged against go/scanner+go/constant; (d) 10 generated programs printed with File.String(), re-parsed and re-compiled, instructions and constants compared. " +
		"distinct = distinct source text; non-trivial = at least 3 tokens (a,b,d) / any spelling (c)"
}
func (*c20) Assumptions() []string {
	return []string{
		"precedence/associativity table written from docs/tutorial.md (unary > 5 binary levels, left-assoc > ternary, right-assoc)",
		"semicolon rule: a newline (or a comment containing/ending a line) after identifier, literal, break/continue/return/export/true/false/undefined, ++, --, ), ], } ends the statement",
		"go/scanner + go/constant define literal validity and value; ints must fit int64, floats must be finite; imaginary literals are not Tengo literals",
		"round trip is claimed only for programs whose map keys and module names are plain identifiers",
	}
}

// ---------------------------------------------------------------- (a) trees

type xnode struct {
	kind string // bin, un, cond, call, idx, slice, sel, atom, arr, map, func, error, immutable
	op   string
	kids []*xnode
	text string // atom token text / selector name
	dump string // atom dump
	sprd bool
}

var c20BinOps = [][]string{
	1: {"||"},
	2: {"&&"},
	3: {"==", "!=", "<", "<=", ">", ">="},
	4: {"+", "-", "|", "^"},
	5: {"*", "/", "%", "<<", ">>", "&", "&^"},
}

func c20Prec(op string) int {
	for p := 1; p <= 5; p++ {
		for _, o := range c20BinOps[p] {
			if o == op {
				return p
			}
		}
	}
	return 0
}

func c20Atom(r *rand.Rand) *xnode {
	switch r.Intn(9) {
	case 0, 1, 2:
		n := string(rune('a' + r.Intn(5)))
		return &xnode{kind: "atom", text: n, dump: "id:" + n}
	case 3:
		v := r.Intn(100)
		return &xnode{kind: "atom", text: fmt.Sprint(v), dump: fmt.Sprintf("int:%d", v)}
	case 4:
		return &xnode{kind: "atom", text: `"s"`, dump: `str:"s"`}
	case 5:
		return &xnode{kind: "atom", text: `'c'`, dump: "char:99"}
	case 6:
		switch r.Intn(8) {
		case 0:
			return &xnode{kind: "atom", text: "0x1F", dump: "int:31"}
		case 1:
			return &xnode{kind: "atom", text: "0b11", dump: "int:3"}
		case 2:
			return &xnode{kind: "atom", text: "1e3", dump: fmt.Sprintf("float:%016x", math.Float64bits(1000))}
		case 3:
			return &xnode{kind: "atom", text: "2.", dump: fmt.Sprintf("float:%016x", math.Float64bits(2))}
		}
		return &xnode{kind: "atom", text: "1.5", dump: fmt.Sprintf("float:%016x", math.Float64bits(1.5))}
	case 7:
		t := pick(r, []string{"true", "false", "undefined"})
		return &xnode{kind: "atom", text: t, dump: t}
	default:
		return &xnode{kind: "atom", text: "x", dump: "id:x"}
	}
}

func c20Gen(r *rand.Rand, depth int) *xnode {
	if depth <= 0 {
		return c20Atom(r)
	}
	switch k := r.Intn(20); {
	case k < 8:
		p := 1 + r.Intn(5)
		return &xnode{kind: "bin", op: pick(r, c20BinOps[p]), kids: []*xnode{c20Gen(r, depth-1), c20Gen(r, depth-1)}}
	case k < 10:
		return &xnode{kind: "un", op: pick(r, []string{"+", "-", "!", "^"}), kids: []*xnode{c20Gen(r, depth-1)}}
	case k < 12:
		return &xnode{kind: "cond", kids: []*xnode{c20Gen(r, depth-1), c20Gen(r, depth-1), c20Gen(r, depth-1)}}
	case k < 13:
		n := r.Intn(3)
		kids := []*xnode{c20Gen(r, depth-1)}
		for i := 0; i < n; i++ {
			kids = append(kids, c20Gen(r, depth-2))
		}
		return &xnode{kind: "call", kids: kids, sprd: n > 0 && r.Intn(4) == 0}
	case k < 14:
		return &xnode{kind: "idx", kids: []*xnode{c20Gen(r, depth-1), c20Gen(r, depth-2)}}
	case k < 15:
		var lo, hi *xnode
		if r.Intn(3) != 0 {
			lo = c20Gen(r, depth-2)
		}
		if r.Intn(3) != 0 {
			hi = c20Gen(r, depth-2)
		}
		return &xnode{kind: "slice", kids: []*xnode{c20Gen(r, depth-1), lo, hi}}
	case k < 16:
		return &xnode{kind: "sel", kids: []*xnode{c20Gen(r, depth-1)}, text: pick(r, []string{"f", "g", "key"})}
	case k < 17:
		n := r.Intn(3)
		var kids []*xnode
		for i := 0; i < n; i++ {
			kids = append(kids, c20Gen(r, depth-2))
		}
		return &xnode{kind: "arr", kids: kids}
	case k < 18:
		n := r.Intn(3)
		var kids []*xnode
		for i := 0; i < n; i++ {
			kids = append(kids, c20Gen(r, depth-2))
		}
		return &xnode{kind: "map", kids: kids}
	case k < 19:
		return &xnode{kind: pick(r, []string{"error", "immutable"}), kids: []*xnode{c20Gen(r, depth-1)}}
	default:
		return &xnode{kind: "func", kids: []*xnode{c20Gen(r, depth-1)}}
	}
}

// level: 0 cond, 1..5 binary, 6 unary, 7 postfix/atom
func (n *xnode) level() int {
	switch n.kind {
	case "cond":
		return 0
	case "bin":
		return c20Prec(n.op)
	case "un":
		return 6
	}
	return 7
}

// emit appends the minimal-parenthesis token sequence of n; need is the
// minimum level that may appear unparenthesised in this position.
func (n *xnode) emit(out *[]string, need int) {
	paren := n.level() < need
	if paren {
		*out = append(*out, "(")
	}
	// closing brackets carry a context letter: c call, a array literal, m map literal, b block,
	// p parenthesis, i index/slice, k error()/immutable()/import(), f parameter list
	switch n.kind {
	case "atom":
		*out = append(*out, n.text)
	case "bin":
		p := c20Prec(n.op)
		n.kids[0].emit(out, p) // left-assoc: same level allowed on the left
		*out = append(*out, n.op)
		n.kids[1].emit(out, p+1) // right operand must bind tighter
	case "un":
		*out = append(*out, n.op)
		n.kids[0].emit(out, 6)
	case "cond":
		n.kids[0].emit(out, 1) // condition: any binary expression
		*out = append(*out, "?")
		n.kids[1].emit(out, 0)
		*out = append(*out, ":")
		n.kids[2].emit(out, 0) // right-assoc
	case "call":
		n.kids[0].emit(out, 7)
		*out = append(*out, "(")
		for i, a := range n.kids[1:] {
			if i > 0 {
				*out = append(*out, ",")
			}
			a.emit(out, 0)
		}
		if n.sprd {
			*out = append(*out, "...")
		}
		*out = append(*out, ")c")
	case "idx":
		n.kids[0].emit(out, 7)
		*out = append(*out, "[")
		n.kids[1].emit(out, 0)
		*out = append(*out, "]i")
	case "slice":
		n.kids[0].emit(out, 7)
		*out = append(*out, "[")
		if n.kids[1] != nil {
			n.kids[1].emit(out, 0)
		}
		*out = append(*out, ":")
		if n.kids[2] != nil {
			n.kids[2].emit(out, 0)
		}
		*out = append(*out, "]i")
	case "sel":
		n.kids[0].emit(out, 7)
		*out = append(*out, ".", n.text)
	case "arr":
		*out = append(*out, "[")
		for i, a := range n.kids {
			if i > 0 {
				*out = append(*out, ",")
			}
			a.emit(out, 0)
		}
		*out = append(*out, "]a")
	case "map":
		*out = append(*out, "{")
		for i, a := range n.kids {
			if i > 0 {
				*out = append(*out, ",")
			}
			*out = append(*out, fmt.Sprintf("k%d", i), ":")
			a.emit(out, 0)
		}
		*out = append(*out, "}m")
	case "error", "immutable":
		*out = append(*out, n.kind, "(")
		n.kids[0].emit(out, 0)
		*out = append(*out, ")k")
	case "func":
		*out = append(*out, "func", "(", "p", ")f", "{", "return")
		n.kids[0].emit(out, 0)
		*out = append(*out, "}b")
	}
	if paren {
		*out = append(*out, ")p")
	}
}

func (n *xnode) expected(sb *strings.Builder) {
	if n == nil {
		sb.WriteString("_")
		return
	}
	switch n.kind {
	case "atom":
		sb.WriteString(n.dump)
	case "bin":
		sb.WriteString("(" + n.op + " ")
		n.kids[0].expected(sb)
		sb.WriteString(" ")
		n.kids[1].expected(sb)
		sb.WriteString(")")
	case "un":
		sb.WriteString("(u" + n.op + " ")
		n.kids[0].expected(sb)
		sb.WriteString(")")
	case "cond":
		sb.WriteString("(? ")
		n.kids[0].expected(sb)
		sb.WriteString(" ")
		n.kids[1].expected(sb)
		sb.WriteString(" ")
		n.kids[2].expected(sb)
		sb.WriteString(")")
	case "call":
		sb.WriteString("(call ")
		for i, k := range n.kids {
			if i > 0 {
				sb.WriteString(" ")
			}
			k.expected(sb)
		}
		if n.sprd {
			sb.WriteString(" ...")
		}
		sb.WriteString(")")
	case "idx":
		sb.WriteString("(idx ")
		n.kids[0].expected(sb)
		sb.WriteString(" ")
		n.kids[1].expected(sb)
		sb.WriteString(")")
	case "slice":
		sb.WriteString("(slice ")
		n.kids[0].expected(sb)
		sb.WriteString(" ")
		n.kids[1].expected(sb)
		sb.WriteString(" ")
		n.kids[2].expected(sb)
		sb.WriteString(")")
	case "sel":
		sb.WriteString("(sel ")
		n.kids[0].expected(sb)
		sb.WriteString(" " + n.text + ")")
	case "arr":
		sb.WriteString("[")
		for i, k := range n.kids {
			if i > 0 {
				sb.WriteString(" ")
			}
			k.expected(sb)
		}
		sb.WriteString("]")
	case "map":
		sb.WriteString("{")
		for i, k := range n.kids {
			if i > 0 {
				sb.WriteString(" ")
			}
			fmt.Fprintf(sb, "%q:", fmt.Sprintf("k%d", i))
			k.expected(sb)
		}
		sb.WriteString("}")
	case "error", "immutable":
		sb.WriteString("(" + n.kind + " ")
		n.kids[0].expected(sb)
		sb.WriteString(")")
	case "func":
		sb.WriteString("(func (p) (block (return ")
		n.kids[0].expected(sb)
		sb.WriteString(")))")
	}
}

func (c *c20) treeOne(r *fw.Rec, rng *rand.Rand) {
	t := c20Gen(rng, 1+rng.Intn(7))
	var toks []string
	t.emit(&toks, 0)
	src := "v := " + strings.Join(c20Strip(toks), " ")
	var exp strings.Builder
	exp.WriteString("(file (assign := id:v = ")
	t.expected(&exp)
	exp.WriteString("))")
	f, err := parseSrc([]byte(src))
	r.Eval()
	r.Inc("a:trees")
	r.Inc("a:root:" + t.kind)
	if len(toks) >= 3 {
		r.Distinct("a", src)
	}
	detail := map[string]interface{}{"source": src, "expected_shape": exp.String()}
	if err != nil {
		detail["error"] = err.Error()
		if p, ok := isPanic(err); ok {
			detail["stack"] = trunc(p.stack, 2000)
		}
		r.Violate("a:reject", "minimal-parenthesis text of an expression tree is rejected by the parser", detail)
		return
	}
	got := astDump(f)
	if got != exp.String() {
		detail["parsed_shape"] = got
		r.Violate("a:shape", "source text is grouped differently from the documented precedence/associativity", detail)
		return
	}
	// (d) on the same tree: its printed form parses to the same tree and compiles to the same code. These trees are
	// syntactic (selectors, calls, indexes, spreads applied to every kind of literal), which the typed program
	// generator of the round-trip family never writes.
	var printed string
	if perr := safely(func() error { printed = f.String(); return nil }); perr != nil {
		p, _ := isPanic(perr)
		detail["stack"] = trunc(p.stack, 2000)
		r.Violate("d:printer-panic", "File.String() panicked", detail)
		return
	}
	detail["printed"] = printed
	f2, err := parseSrc([]byte(printed))
	if err != nil {
		detail["error"] = err.Error()
		r.Violate("d:reparse", "the printed form of a parsed program does not parse", detail)
		return
	}
	if b := astDump(f2); b != got {
		detail["reparsed_shape"] = b
		r.Violate("d:ast", "the printed form parses to a different tree", detail)
		return
	}
	const decl = "a := 1; b := 2; c := 3; d := 4; e := 5; x := 6\n"
	c1, e1 := compileRaw([]byte(decl+src), nil, nil)
	c2, e2 := compileRaw([]byte(decl+printed), nil, nil)
	if (e1 == nil) != (e2 == nil) {
		detail["original_error"] = fmt.Sprint(e1)
		detail["printed_error"] = fmt.Sprint(e2)
		r.Violate("d:compile", "original and printed form compile differently", detail)
		return
	}
	r.Inc("d:tree-roundtrips")
	if e1 == nil {
		i1 := strings.Join(c1.BC.FormatInstructions(), ";")
		i2 := strings.Join(c2.BC.FormatInstructions(), ";")
		k1, k2 := strings.Join(constSummary(c1.BC), "\n"), strings.Join(constSummary(c2.BC), "\n")
		if i1 != i2 || k1 != k2 {
			detail["original_instructions"] = i1
			detail["printed_instructions"] = i2
			r.Violate("d:bytecode", "original and printed form compile to different instructions or constants", detail)
			return
		}
		r.Inc("d:tree-identical-bytecode")
	}
	if r.WantSample() && len(toks) > 8 && len(toks) < 40 {
		r.Sample(map[string]interface{}{"family": "a", "source": src, "shape": got})
	}
}

// ------------------------------------------------------------- (b) layouts

var c20Templates = [][]string{
	{"a", ":=", "1"},
	{"a", "=", "b", "+", "c"},
	{"a", "+=", "f", "(", "b", ")c"},
	{"a", "++"},
	{"a", "--"},
	{"a", ".", "b", "[", "0", "]i", "=", "x"},
	{"f", "(", "a", ",", "b", ")c"},
	{"f", "(", "a", "...", ")c"},
	{"x", ":=", "[", "1", ",", "2", "]a"},
	{"x", ":=", "{", "k", ":", "1", ",", "m", ":", "2", "}m"},
	{"x", ":=", "a", "?", "b", ":", "c"},
	{"x", ":=", "!", "a", "&&", "-", "b", "<", "c"},
	{"x", ":=", "a", "[", "1", ":", "2", "]i"},
	{"x", ":=", "a", "[", ":", "]i"},
	{"x", ":=", `"str"`},
	{"x", ":=", "'c'"},
	{"x", ":=", "1.5"},
	{"x", ":=", "true"},
	{"x", ":=", "undefined"},
	{"x", ":=", "error", "(", "a", ")k"},
	{"x", ":=", "immutable", "(", "[", "]a", ")k"},
	{"x", ":=", "import", "(", `"m"`, ")k"},
	{"x", ":=", "func", "(", "p", ",", "...", "q", ")f", "{", "return", "p", "}b"},
	{"x", ":=", "func", "(", ")f", "{", "return", "}b"},
	{"x", ":=", "func", "(", ")f", "{", "a", "++", "}b", "(", ")c"},
	{"if", "a", "{", "b", "=", "1", "}b"},
	{"if", "a", ":=", "f", "(", ")c", ";", "a", "{", "b", "=", "1", "}b", "else", "{", "b", "=", "2", "}b"},
	{"if", "a", "{", "}b", "else", "if", "b", "{", "c", "++", "}b", "else", "{", "}b"},
	{"for", "{", "break", "}b"},
	{"for", "a", "<", "3", "{", "a", "++", ";", "continue", "}b"},
	{"for", "i", ":=", "0", ";", "i", "<", "3", ";", "i", "++", "{", "f", "(", "i", ")c", "}b"},
	{"for", ";", ";", "{", "break", "}b"},
	{"for", "v", "in", "a", "{", "f", "(", "v", ")c", "}b"},
	{"for", "k", ",", "v", "in", "m", "{", "x", "=", "k", "}b"},
	{"export", "{", "a", ":", "1", "}m"},
	{"export", "x"},
	{"f", "(", ")c", ";", "g", "(", ")c"},
	{"a", ":=", "1", ";", "b", ":=", "2", ";", "c", ":=", "a", "+", "b"},
	{"x", ":=", "(", "a", "+", "b", ")p", "*", "c"},
	{"x", ":=", "a", ".", "b", ".", "c", "(", "1", ")c", "[", "2", "]i"},
	{"x", ":=", "f", "(", "func", "(", ")f", "{", "return", "1", "}b", ")c"},
	{"x", ":=", "[", "1", ",", "2", "]a", "[", "0", "]i"},
	{"x", ":=", "a", "<<", "2", "&^", "b"},
	{"m", ".", "f", "=", "func", "(", "a", ")f", "{", "if", "a", "{", "return", "1", "}b", ";", "return", "2", "}b"},
	{"x", ":=", "{", "k", ":", "func", "(", ")f", "{", "return", "[", "1", "]a", "}b", ",", "j", ":", "(", "2", ")p", "}m"},
}

// c20Strip removes the context letters from closing brackets.
func c20Strip(toks []string) []string {
	out := make([]string, len(toks))
	for i, t := range toks {
		out[i] = c20Tok(t)
	}
	return out
}

func c20Tok(t string) string {
	if len(t) == 2 && (t[0] == ')' || t[0] == ']' || t[0] == '}') {
		return t[:1]
	}
	return t
}

// c20NewlineDropped: a newline-generated semicolon directly before this
// closing bracket is ignored by the grammar (call arguments, array and map
// literal elements may end with a newline before the closing bracket, as in
// the tutorial's multi-line map literal).
func c20NewlineDropped(next string) bool {
	return next == ")c" || next == "]a" || next == "}m"
}

// semiAfter: tokens after which a newline terminates the statement
func c20SemiAfter(tok string) bool {
	switch tok {
	case "break", "continue", "return", "export", "true", "false", "undefined", "++", "--", ")", "]", "}":
		return true
	case "if", "else", "for", "in", "func", "error", "immutable", "import":
		return false
	}
	c := tok[0]
	if c == '"' || c == '\'' || c == '`' || (c >= '0' && c <= '9') {
		return true
	}
	if c == '_' || (c >= 'a' && c <= 'z') || (c >= 'A' && c <= 'Z') {
		return true // identifier
	}
	return false
}

type c20Sep struct {
	text string
	nl   bool // contains or ends a line
}

var c20Seps = []c20Sep{
	{" ", false}, {"  \t", false}, {" /* c */ ", false}, {" /**/ ", false},
	{"\n", true}, {" \n ", true}, {"\r\n", true}, {" // c\n", true}, {" /* a\n b */ ", true}, {" /*\n*/ ", true}, {" /* c */ \n", true}, {" /* c */ // d\n ", true},
	{"\n\n", true}, {" /* x */ /* y\n */ ", true},
}

func (c *c20) layoutOne(r *fw.Rec, rng *rand.Rand) {
	// 1-3 templates, joined by ";" tokens
	var toks []string
	nt := 1 + rng.Intn(3)
	for i := 0; i < nt; i++ {
		if i > 0 {
			toks = append(toks, ";")
		}
		if rng.Intn(4) == 0 {
			t := c20Gen(rng, 1+rng.Intn(4))
			toks = append(toks, "y", "=")
			t.emit(&toks, 0)
		} else {
			toks = append(toks, pick(rng, c20Templates)...)
		}
	}
	toks = append([]string{}, toks...)
	// choose separators for each gap; build the laid-out text and the canonical text
	var laid, canon strings.Builder
	nNl := 0
	for i, at := range toks {
		t := c20Tok(at)
		laid.WriteString(t)
		canon.WriteString(t)
		if i == len(toks)-1 {
			break
		}
		sep := c20Seps[0]
		if rng.Intn(3) == 0 {
			sep = pick(rng, c20Seps)
		}
		laid.WriteString(sep.text)
		if sep.nl {
			nNl++
		}
		if sep.nl && c20SemiAfter(t) && !c20NewlineDropped(toks[i+1]) {
			canon.WriteString(" ; ")
			// a statement break directly before a postfix '(' or '[' turns the
			// bracket pair into a parenthesised expression / array literal
			if nx := toks[i+1]; nx == "(" || nx == "[" {
				depth := 0
				for j := i + 1; j < len(toks); j++ {
					switch c20Tok(toks[j]) {
					case "(", "[", "{":
						depth++
					case ")", "]", "}":
						depth--
						if depth == 0 {
							if nx == "(" {
								toks[j] = ")p"
							} else {
								toks[j] = "]a"
							}
						}
					}
					if depth == 0 {
						break
					}
				}
			}
		} else {
			canon.WriteString(" ")
		}
	}
	// trailing newline/comment/EOF variants never change meaning
	laid.WriteString(pick(rng, []string{"", "\n", " // end", " /* end */", "\n\n", ";", " ;\n"}))
	fl, errL := parseSrc([]byte(laid.String()))
	fc, errC := parseSrc([]byte(canon.String()))
	r.EvalN(2)
	r.Inc("b:layouts")
	if nNl > 0 {
		r.Inc("b:with-newline")
	}
	if len(toks) >= 3 {
		r.Distinct("b", laid.String())
	}
	detail := map[string]interface{}{"layout": laid.String(), "explicit_semicolon_form": canon.String()}
	for _, e := range []error{errL, errC} {
		if p, ok := isPanic(e); ok {
			detail["panic"] = p.Error()
			detail["stack"] = trunc(p.stack, 2000)
			r.Violate("b:panic", "parser panicked", detail)
			return
		}
	}
	if (errL == nil) != (errC == nil) {
		detail["layout_error"] = fmt.Sprint(errL)
		detail["explicit_error"] = fmt.Sprint(errC)
		if errC == nil {
			r.Inc("b:legal")
		}
		r.Violate("b:accept-differs", "a layout is accepted/rejected differently from its explicit-semicolon form", detail)
		return
	}
	if errL != nil {
		r.Inc("b:illegal(both rejected)")
		return
	}
	r.Inc("b:legal")
	dl, dc := astDump(fl), astDump(fc)
	if dl != dc {
		detail["layout_ast"] = dl
		detail["explicit_ast"] = dc
		r.Violate("b:ast-differs", "a layout parses differently from its explicit-semicolon form", detail)
		return
	}
	if r.WantSample() && nNl > 1 && len(toks) < 30 {
		r.Sample(map[string]interface{}{"family": "b", "layout": laid.String(), "explicit": canon.String(), "ast": dl})
	}
}

// ------------------------------------------------------------ (c) literals

func c20GenLiteral(r *rand.Rand) string {
	digs := func(alpha string, n int, us bool) string {
		var sb strings.Builder
		for i := 0; i < n; i++ {
			sb.WriteByte(alpha[r.Intn(len(alpha))])
			if us && i < n-1 && r.Intn(5) == 0 {
				sb.WriteByte('_')
				if r.Intn(8) == 0 {
					sb.WriteByte('_')
				}
			}
		}
		return sb.String()
	}
	us := r.Intn(3) == 0
	switch r.Intn(16) {
	case 0:
		return digs("0123456789", 1+r.Intn(20), us)
	case 1:
		return pick(r, []string{"0x", "0X"}) + pick(r, []string{"", "_"}) + digs("0123456789abcdefABCDEF", r.Intn(18), us)
	case 2:
		return pick(r, []string{"0b", "0B"}) + pick(r, []string{"", "_"}) + digs("01", r.Intn(66), us) + pick(r, []string{"", "", "2"})
	case 3:
		return pick(r, []string{"0o", "0O", "0"}) + pick(r, []string{"", "_"}) + digs("01234567", r.Intn(23), us) + pick(r, []string{"", "", "8", "9"})
	case 4:
		return pick(r, []string{"9223372036854775807", "9223372036854775808", "0x7fffffffffffffff", "0x8000000000000000", "0o777777777777777777777", "0o1000000000000000000000",
			"0b111111111111111111111111111111111111111111111111111111111111111", "18446744073709551615", "0777777777777777777777", "01000000000000000000000", "00", "0_0", "0__0", "1_", "_1", "0_", "0x_", "0b", "0o", "08", "09", "0e0", "0x1p0"})
	case 5:
		return digs("0123456789", r.Intn(6), us) + "." + digs("0123456789", r.Intn(6), us)
	case 6:
		return digs("0123456789", 1+r.Intn(5), us) + pick(r, []string{"e", "E"}) + pick(r, []string{"", "+", "-"}) + digs("0123456789", r.Intn(4), us)
	case 7:
		return digs("0123456789", r.Intn(4), false) + "." + digs("0123456789", r.Intn(4), false) + pick(r, []string{"e", "E"}) + pick(r, []string{"", "+", "-"}) + digs("0123456789", 1+r.Intn(3), false)
	case 8:
		return pick(r, []string{"0x", "0X"}) + digs("0123456789abcdef", r.Intn(5), us) + pick(r, []string{"", "."}) + digs("0123456789abcdef", r.Intn(5), us) +
			pick(r, []string{"p", "P", "", "e"}) + pick(r, []string{"", "+", "-"}) + digs("0123456789", r.Intn(4), false)
	case 9:
		return pick(r, []string{"1e308", "1e309", "1.8e308", "1e-400", "4.9e-324", "1e400", "0x1p1024", "0x1p-1080", "1e+", "1e", ".e1", ".5", "5.", "1.5.", "1..2", "1_.5", "1._5", "1.5_e1", "1.5e_1", "1.5e1_",
			"0.0", "00.5", "08.5", "09e1", "1i", "1.5i", "0b1.0", "0o1.5", "0b1e1", "0x.p1", "0x1.p1", "0X_1FFFP-16", "0x1e2", "0b1p1"})
	case 10:
		// char literals
		body := pick(r, []string{"a", "é", "日", "🙂", `\n`, `\t`, `\\`, `\'`, `\"`, `\0`, `\00`, `\000`, `\377`, `\400`, `\x41`, `\x4`, `\xff`, `é`, `\u12`, `\ud800`, `\udfff`, `\U0001F600`, `\U00110000`, `\U0010FFFF`,
			"", "ab", `\q`, `\a`, `\b`, `\f`, `\r`, `\v`, "'", "\n", `\x`, `\8`, " ", "\t", "\xff", `a\`})
		return "'" + body + "'"
	case 11:
		// interpreted strings
		n := r.Intn(5)
		var sb strings.Builder
		sb.WriteByte('"')
		for i := 0; i < n; i++ {
			sb.WriteString(pick(r, []string{"a", "é", "日本", " ", `\n`, `\t`, `\\`, `\"`, `\'`, `\0`, `\101`, `\x41`, `\xff`, `é`, `\ud800`, `\U0001F600`, `\U00110000`, `\q`, `\x4`, "'", "`", "\t", "\xff", `\a\b\f\r\v`, "%", "{}"}))
		}
		sb.WriteByte('"')
		if r.Intn(12) == 0 {
			return sb.String()[:sb.Len()-1] // unterminated
		}
		return sb.String()
	case 12:
		// raw strings
		n := r.Intn(5)
		var sb strings.Builder
		sb.WriteByte('`')
		for i := 0; i < n; i++ {
			sb.WriteString(pick(r, []string{"a", "é", `\n`, `\`, `"`, "'", "\n", "\r", "\r\n", "\t", " ", "\xff", "日"}))
		}
		sb.WriteByte('`')
		if r.Intn(12) == 0 {
			return sb.String()[:sb.Len()-1]
		}
		return sb.String()
	case 13:
		return fmt.Sprint(r.Int63())
	case 14:
		return fmt.Sprintf("%g", math.Float64frombits(r.Uint64()))
	default:
		return fmt.Sprintf("%d.%de%d", r.Intn(100), r.Intn(1000), r.Intn(700)-350)
	}
}

type c20LitRef struct {
	ok   bool
	kind string // int float char string
	dump string
	why  string
}

func c20RefLiteral(lit string) c20LitRef {
	src := []byte(lit)
	fset := gotoken.NewFileSet()
	file := fset.AddFile("", fset.Base(), len(src))
	var s goscanner.Scanner
	nerr := 0
	firstErr := ""
	s.Init(file, src, func(_ gotoken.Position, msg string) {
		nerr++
		if firstErr == "" {
			firstErr = msg
		}
	}, 0)
	_, tok, text := s.Scan()
	_, tok2, text2 := s.Scan()
	if tok2 == gotoken.SEMICOLON && text2 == "\n" {
		_, tok2, _ = s.Scan()
	}
	if nerr > 0 {
		return c20LitRef{why: "go/scanner: " + firstErr}
	}
	if tok2 != gotoken.EOF {
		return c20LitRef{why: "more than one token"}
	}
	switch tok {
	case gotoken.INT:
		v := constant.MakeFromLiteral(text, tok, 0)
		i, exact := constant.Int64Val(v)
		if v.Kind() != constant.Int || !exact {
			return c20LitRef{why: "integer does not fit int64"}
		}
		return c20LitRef{ok: true, kind: "int", dump: fmt.Sprintf("int:%d", i)}
	case gotoken.FLOAT:
		v := constant.MakeFromLiteral(text, tok, 0)
		if v.Kind() == constant.Unknown {
			return c20LitRef{why: "go/constant cannot represent the literal"}
		}
		f, _ := constant.Float64Val(v)
		if math.IsInf(f, 0) {
			return c20LitRef{why: "float overflows float64"}
		}
		return c20LitRef{ok: true, kind: "float", dump: fmt.Sprintf("float:%016x", math.Float64bits(f))}
	case gotoken.CHAR:
		v := constant.MakeFromLiteral(text, tok, 0)
		i, _ := constant.Int64Val(v)
		return c20LitRef{ok: true, kind: "char", dump: fmt.Sprintf("char:%d", i)}
	case gotoken.STRING:
		v := constant.MakeFromLiteral(text, tok, 0)
		return c20LitRef{ok: true, kind: "string", dump: fmt.Sprintf("str:%q", constant.StringVal(v))}
	}
	return c20LitRef{why: "not a literal token: " + tok.String()}
}

func (c *c20) literalOne(r *fw.Rec, rng *rand.Rand) {
	lit := c20GenLiteral(rng)
	ref := c20RefLiteral(lit)
	src := "v := " + lit
	buf := []byte(src)
	f, err := parseSrc(buf)
	r.Eval()
	r.Inc("c:literals")
	if string(buf) != src {
		// the literal no longer denotes anything if reading it rewrites the text it was read from
		r.Violate("c:source-modified", "parsing a literal modified the source bytes it was given (a second parse of the same buffer sees another text)",
			map[string]interface{}{"literal": lit, "literal_hex": fmt.Sprintf("%x", lit), "buffer_after_hex": fmt.Sprintf("%x", buf)})
		return
	}
	r.Distinct("c", lit)
	detail := map[string]interface{}{"literal": lit, "literal_hex": fmt.Sprintf("%x", lit), "reference": map[string]interface{}{"accepted": ref.ok, "value": ref.dump, "why": ref.why}}
	if p, ok := isPanic(err); ok {
		detail["panic"] = p.Error()
		detail["stack"] = trunc(p.stack, 2000)
		r.Violate("c:panic", "parser panicked on a literal", detail)
		return
	}
	// what did tengo see?
	got, gotOK := "", false
	if err == nil && len(f.Stmts) >= 1 {
		if as, ok := f.Stmts[0].(*parser.AssignStmt); ok && len(as.RHS) == 1 && c20OnlyStmt(f) {
			switch as.RHS[0].(type) {
			case *parser.IntLit, *parser.FloatLit, *parser.CharLit, *parser.StringLit:
				got, gotOK = astDump(as.RHS[0]), true
			}
		}
	}
	if err == nil && !gotOK {
		// parsed as something else (e.g. an expression of several tokens): the reference must not call it a literal
		if ref.ok {
			detail["parsed"] = astDump(f)
			r.Violate("c:not-literal", "a valid Go literal is not parsed as one literal", detail)
		} else {
			r.Inc("c:both-non-literal")
		}
		return
	}
	if ref.ok {
		r.Inc("c:ref-accepts:" + ref.kind)
	} else {
		r.Inc("c:ref-rejects")
	}
	if ref.ok != gotOK {
		if err != nil {
			detail["error"] = err.Error()
		} else {
			detail["parsed_value"] = got
		}
		if ref.ok {
			r.Violate("c:rejects-valid", "a literal valid in Go's literal syntax is rejected", detail)
		} else {
			r.Violate("c:accepts-invalid", "a spelling that Go's literal syntax rejects is accepted", detail)
		}
		return
	}
	if ref.ok && got != ref.dump {
		detail["parsed_value"] = got
		r.Violate("c:value", "literal denotes a different value than in Go's literal syntax", detail)
		return
	}
	if r.WantSample() && ref.ok && len(lit) > 6 {
		r.Sample(map[string]interface{}{"family": "c", "literal": lit, "value": got})
	}
}

func c20OnlyStmt(f *parser.File) bool {
	n := 0
	for _, s := range f.Stmts {
		if _, ok := s.(*parser.EmptyStmt); !ok {
			n++
		}
	}
	return n == 1
}

func (c *c20) RunCase(r *fw.Rec, cs fw.Case) {
	rng := cs.Rng("c20")
	switch cs.Index % 4 {
	case 0:
		for i := 0; i < 40; i++ {
			c.treeOne(r, rng)
		}
	case 1:
		for i := 0; i < 25; i++ {
			c.layoutOne(r, rng)
		}
	case 2:
		for i := 0; i < 120; i++ {
			c.literalOne(r, rng)
		}
	default:
		c.roundTrip(r, rng, cs)
	}
}

func (c *c20) Finish(m *fw.Merged, tier string) {
	for _, k := range []string{"a:trees", "a:root:bin", "a:root:un", "a:root:cond", "b:layouts", "b:with-newline", "b:legal", "b:illegal(both rejected)",
		"d:roundtrips", "d:identical-bytecode", "d:tree-roundtrips", "d:tree-identical-bytecode", "c:literals", "c:ref-accepts:int", "c:ref-accepts:float", "c:ref-accepts:char", "c:ref-accepts:string", "c:ref-rejects"} {
		if m.Counters[k] == 0 {
			m.Fail("never observed: " + k)
		}
	}
}

// (d) printed-form round trip — see c20rt.go
