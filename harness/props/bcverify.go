package props

import (
	"fmt"
	"sort"

	"github.com/d5/tengo/v2"
	"github.com/d5/tengo/v2/parser"
	"github.com/d5/tengo/v2/token"
)

// fnInfo is what the verifier learned about one compiled function.
type fnInfo struct {
	fn      *tengo.CompiledFunction
	isMain  bool
	heights map[int]int // instruction offset -> operand stack height before it
	starts  map[int]bool
	maxFree int // highest free-variable index used, -1 if none
	nfree   int // free variables supplied by the CLOSURE sites (min), -1 = loaded by CONST only / unknown
	maxH    int
	byConst bool // loaded by a CONST instruction somewhere
	byClos  bool // loaded by a CLOSURE instruction somewhere
}

type bcProblem struct {
	Fn   int
	Off  int
	What string
}

func (p bcProblem) String() string {
	return fmt.Sprintf("function #%d offset %04d: %s", p.Fn, p.Off, p.What)
}

// stackEffect returns the change of the operand stack height for the
// fall-through edge and for the jump edge of an instruction.
func stackEffect(op byte, operands []int) (fall, jump int, ok bool) {
	switch op {
	case parser.OpConstant, parser.OpNull, parser.OpTrue, parser.OpFalse, parser.OpGetGlobal, parser.OpGetLocal,
		parser.OpGetFree, parser.OpGetFreePtr, parser.OpGetLocalPtr, parser.OpGetBuiltin:
		return 1, 0, true
	case parser.OpPop, parser.OpSetGlobal, parser.OpSetLocal, parser.OpDefineLocal, parser.OpSetFree,
		parser.OpBinaryOp, parser.OpEqual, parser.OpNotEqual, parser.OpIndex:
		return -1, 0, true
	case parser.OpSliceIndex:
		return -2, 0, true
	case parser.OpLNot, parser.OpBComplement, parser.OpMinus, parser.OpError, parser.OpImmutable,
		parser.OpIteratorInit, parser.OpIteratorNext, parser.OpIteratorKey, parser.OpIteratorValue:
		return 0, 0, true
	case parser.OpJumpFalsy:
		return -1, -1, true
	case parser.OpAndJump, parser.OpOrJump:
		return -1, 0, true
	case parser.OpJump:
		return 0, 0, true
	case parser.OpArray, parser.OpMap:
		return 1 - operands[0], 0, true
	case parser.OpSetSelGlobal, parser.OpSetSelLocal, parser.OpSetSelFree:
		return -(operands[1] + 1), 0, true
	case parser.OpCall:
		return -operands[0], 0, true
	case parser.OpClosure:
		return 1 - operands[1], 0, true
	case parser.OpReturn, parser.OpSuspend:
		return 0, 0, true
	}
	return 0, 0, false
}

var binaryTokens = map[int]bool{}

func init() {
	for _, t := range []token.Token{token.Add, token.Sub, token.Mul, token.Quo, token.Rem, token.And, token.Or, token.Xor, token.AndNot, token.Shl, token.Shr,
		token.Less, token.LessEq, token.Greater, token.GreaterEq} {
		binaryTokens[int(t)] = true
	}
}

// verifyBytecode checks the structural soundness of every function of bc.
func verifyBytecode(bc *tengo.Bytecode, numGlobals int) ([]bcProblem, []*fnInfo) {
	var problems []bcProblem
	fns := allFunctions(bc)
	infos := make([]*fnInfo, len(fns))
	byConst := map[int]*fnInfo{}
	for i, f := range fns {
		infos[i] = &fnInfo{fn: f, isMain: i == 0, heights: map[int]int{}, starts: map[int]bool{}, maxFree: -1, nfree: -1}
	}
	ci := 1
	for k, c := range bc.Constants {
		if _, ok := c.(*tengo.CompiledFunction); ok {
			byConst[k] = infos[ci]
			ci++
		}
	}
	nb := tengo.VerifNumBuiltins()
	add := func(fi, off int, format string, a ...interface{}) {
		if len(problems) < 50 {
			problems = append(problems, bcProblem{fi, off, fmt.Sprintf(format, a...)})
		}
	}
	// pass 1: decode, operand ranges
	for fi, info := range infos {
		ins := info.fn.Instructions
		for i := 0; i < len(ins); {
			op := ins[i]
			if int(op) >= len(parser.OpcodeOperands) || parser.OpcodeNames[op] == "" {
				add(fi, i, "unknown opcode %d", op)
				break
			}
			need := 0
			for _, w := range parser.OpcodeOperands[op] {
				need += w
			}
			if i+1+need > len(ins) {
				add(fi, i, "%s: operands run past the end of the instruction stream", parser.OpcodeNames[op])
				break
			}
			_, operands, sz := readOperandsAt(ins, i)
			info.starts[i] = true
			switch op {
			case parser.OpConstant:
				if operands[0] >= len(bc.Constants) {
					add(fi, i, "CONST %d: no such constant (%d constants)", operands[0], len(bc.Constants))
				} else if ti, isFn := byConst[operands[0]]; isFn {
					ti.byConst = true // a function loaded without a closure must not use free variables (checked in pass 2)
				}
			case parser.OpClosure:
				if operands[0] >= len(bc.Constants) {
					add(fi, i, "CLOSURE %d: no such constant (%d constants)", operands[0], len(bc.Constants))
				} else if ti, isFn := byConst[operands[0]]; !isFn {
					add(fi, i, "CLOSURE %d: constant is %s, not a compiled function", operands[0], bc.Constants[operands[0]].TypeName())
				} else {
					ti.byClos = true
					if ti.nfree < 0 || operands[1] < ti.nfree {
						ti.nfree = operands[1]
					}
				}
			case parser.OpGetLocal, parser.OpSetLocal, parser.OpDefineLocal, parser.OpGetLocalPtr, parser.OpSetSelLocal:
				if info.isMain {
					add(fi, i, "%s in the main function (it has no locals)", parser.OpcodeNames[op])
				} else if operands[0] >= info.fn.NumLocals {
					add(fi, i, "%s %d: function has %d locals", parser.OpcodeNames[op], operands[0], info.fn.NumLocals)
				}
			case parser.OpGetFree, parser.OpSetFree, parser.OpGetFreePtr, parser.OpSetSelFree:
				if operands[0] > info.maxFree {
					info.maxFree = operands[0]
				}
			case parser.OpGetBuiltin:
				if operands[0] >= nb {
					add(fi, i, "BUILTIN %d: only %d builtin functions", operands[0], nb)
				}
			case parser.OpGetGlobal, parser.OpSetGlobal, parser.OpSetSelGlobal:
				if operands[0] >= numGlobals {
					add(fi, i, "%s %d: only %d global slots", parser.OpcodeNames[op], operands[0], numGlobals)
				}
			case parser.OpBinaryOp:
				if !binaryTokens[operands[0]] {
					add(fi, i, "BINARYOP %d: not a binary operator token", operands[0])
				}
			case parser.OpCall:
				if operands[1] > 1 || (operands[1] == 1 && operands[0] < 1) {
					add(fi, i, "CALL %d %d: malformed spread flag", operands[0], operands[1])
				}
			case parser.OpReturn:
				if operands[0] > 1 {
					add(fi, i, "RET %d: operand must be 0 or 1", operands[0])
				}
				if info.isMain {
					add(fi, i, "RET in the main function")
				}
			case parser.OpMap:
				if operands[0]%2 != 0 {
					add(fi, i, "MAP %d: odd number of key/value slots", operands[0])
				}
			}
			switch op {
			case parser.OpSetSelGlobal, parser.OpSetSelLocal, parser.OpSetSelFree:
				if operands[1] < 1 {
					add(fi, i, "%s with %d selectors", parser.OpcodeNames[op], operands[1])
				}
			}
			i += sz
		}
		if info.fn.NumParameters > info.fn.NumLocals && !info.isMain {
			add(fi, 0, "NumParameters %d > NumLocals %d", info.fn.NumParameters, info.fn.NumLocals)
		}
	}
	// pass 2: free-variable counts
	for fi, info := range infos {
		if info.maxFree >= 0 {
			// a function constant that no instruction loads (its CLOSURE was dead code) cannot run
			if info.byConst {
				add(fi, 0, "uses free variable %d but is loaded by a CONST instruction (no closure supplies free variables)", info.maxFree)
			} else if info.byClos && info.maxFree >= info.nfree {
				add(fi, 0, "uses free variable %d but its CLOSURE supplies only %d", info.maxFree, info.nfree)
			}
		}
	}
	// pass 3: abstract interpretation of the operand stack height
	for fi, info := range infos {
		ins := info.fn.Instructions
		if len(ins) == 0 {
			add(fi, 0, "empty instruction stream")
			continue
		}
		type item struct{ off, h int }
		work := []item{{0, 0}}
		for len(work) > 0 {
			it := work[len(work)-1]
			work = work[:len(work)-1]
			if it.off == len(ins) {
				add(fi, it.off, "control falls off the end of the function (no return)")
				continue
			}
			if it.off > len(ins) || !info.starts[it.off] {
				add(fi, it.off, "control reaches offset %d which is not an instruction boundary of this function", it.off)
				continue
			}
			if h, seen := info.heights[it.off]; seen {
				if h != it.h {
					add(fi, it.off, "operand stack height differs along paths: %d vs %d", h, it.h)
				}
				continue
			}
			info.heights[it.off] = it.h
			if it.h > info.maxH {
				info.maxH = it.h
			}
			op, operands, sz := readOperandsAt(ins, it.off)
			fall, jmp, ok := stackEffect(op, operands)
			if !ok {
				add(fi, it.off, "no stack effect known for opcode %d", op)
				continue
			}
			// operands consumed must exist
			consumed := 0
			switch op {
			case parser.OpPop, parser.OpSetGlobal, parser.OpSetLocal, parser.OpDefineLocal, parser.OpSetFree, parser.OpLNot, parser.OpBComplement, parser.OpMinus,
				parser.OpError, parser.OpImmutable, parser.OpIteratorInit, parser.OpIteratorNext, parser.OpIteratorKey, parser.OpIteratorValue, parser.OpJumpFalsy, parser.OpAndJump, parser.OpOrJump:
				consumed = 1
			case parser.OpBinaryOp, parser.OpEqual, parser.OpNotEqual, parser.OpIndex:
				consumed = 2
			case parser.OpSliceIndex:
				consumed = 3
			case parser.OpArray, parser.OpMap:
				consumed = operands[0]
			case parser.OpSetSelGlobal, parser.OpSetSelLocal, parser.OpSetSelFree:
				consumed = operands[1] + 1
			case parser.OpCall:
				consumed = operands[0] + 1
			case parser.OpClosure:
				consumed = operands[1]
			case parser.OpReturn:
				consumed = operands[0]
			}
			if it.h < consumed {
				add(fi, it.off, "%s needs %d operands, stack height is %d", parser.OpcodeNames[op], consumed, it.h)
				continue
			}
			switch op {
			case parser.OpReturn:
				if it.h != operands[0] {
					add(fi, it.off, "RET %d with operand stack height %d", operands[0], it.h)
				}
				continue
			case parser.OpSuspend:
				if !info.isMain {
					add(fi, it.off, "SUSPEND is reachable outside the main function")
				}
				if it.h != 0 {
					add(fi, it.off, "SUSPEND with operand stack height %d", it.h)
				}
				continue
			case parser.OpJump:
				work = append(work, item{operands[0], it.h})
				continue
			case parser.OpJumpFalsy, parser.OpAndJump, parser.OpOrJump:
				work = append(work, item{operands[0], it.h + jmp})
			}
			work = append(work, item{it.off + sz, it.h + fall})
		}
	}
	sort.Slice(problems, func(i, j int) bool {
		if problems[i].Fn != problems[j].Fn {
			return problems[i].Fn < problems[j].Fn
		}
		return problems[i].Off < problems[j].Off
	})
	return problems, infos
}
