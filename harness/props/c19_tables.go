package props

import (
	"encoding/base64"
	"encoding/hex"
	"fmt"
	"math"
	"regexp"
	"sort"
	"strconv"
	"strings"
	"time"

	"github.com/d5/tengo/v2"
)

// Reference table of C19, written from docs/stdlib-{text,math,base64,hex,enum,times}.md:
// for every documented name the Go function the documentation names (or
// paraphrases from the Go documentation), called directly.

func c19BuildTable() []*c19Fn {
	t := []*c19Fn{
		{mod: "meta", name: "members", special: c19MetaMembers},
		{mod: "meta", name: "docnames", special: c19MetaDocNames},
	}
	t = append(t, c19Text()...)
	t = append(t, c19Math()...)
	t = append(t, c19Enc()...)
	t = append(t, c19Enum()...)
	t = append(t, c19Times()...)
	return t
}

func c19Mk(mod, name, family string, kinds []c19Kind, gen func(g *c19G) c19Call, ref func(c *c19Call) c19Want) *c19Fn {
	return &c19Fn{mod: mod, name: name, family: family, kinds: kinds, minArgs: len(kinds), gen: gen, ref: ref}
}

func c19Args(xs ...tengo.Object) c19Call { return c19Call{args: xs} }

// ================================================================= text

var c19Pats = []string{"a+", "(a)(b)?", "[0-9]+", "(\\w+)@(\\w+)", "^", "", "a|b", "(?i)ab", "\\s+", "é", "(a)|(b)", ".", "b*", "(?P<x>a)(b)", "[^a]", "\\bx", ",",
	"(a+)(b+)", "日", "x*", "(?:a|(b))+", "$"}
var c19BadPats = []string{"(", "[a", "a**", "\\", "(?P<n", "a{2,1}", "*", "(?z)", "[z-a]", ")", "a{1001}", "\\8", "(?i"}

func (g *c19G) pattern(allowBad bool) string {
	if allowBad && g.rng.Intn(4) == 0 {
		return pick(g.rng, c19BadPats)
	}
	return pick(g.rng, c19Pats)
}

func (g *c19G) reText() string {
	if g.rng.Intn(4) == 0 {
		return g.str()
	}
	var sb strings.Builder
	n := g.rng.Intn(9)
	for i := 0; i < n; i++ {
		sb.WriteString(pick(g.rng, []string{"a", "b", "ab", "aab", "1", "22", " ", "x", "é", "日", "@", "w@v", ",", "B", "A", "\t", "abb"}))
	}
	return c19Clip(sb.String(), 40)
}

func c19MatchMap(s string, b, e int) tengo.Object {
	return &tengo.Map{Value: map[string]tengo.Object{"text": vS(s[b:e]), "begin": vI(int64(b)), "end": vI(int64(e))}}
}

// "an array holding all matches, each of which is an array of map object that
// contains matching text, begin and end (exclusive) index" / undefined
func c19RefFind(re *regexp.Regexp, s string, n int) c19Want {
	ms := re.FindAllStringSubmatchIndex(s, n)
	if ms == nil {
		return wantV(tengo.UndefinedValue)
	}
	out := &tengo.Array{}
	for _, m := range ms {
		sub := &tengo.Array{Value: []tengo.Object{}}
		for i := 0; i+1 < len(m); i += 2 {
			if m[i] < 0 {
				continue // group did not participate: docs silent, may be omitted
			}
			sub.Value = append(sub.Value, c19MatchMap(s, m[i], m[i+1]))
		}
		out.Value = append(out.Value, sub)
	}
	w := wantV(out)
	w.dropUnmatched = true
	return w
}

// count omitted: the docs list the parameter but do not say what leaving it
// out means; both natural readings (first match only / all matches) are accepted
func c19RefFindNoCount(re *regexp.Regexp, s string) c19Want {
	a, b := c19RefFind(re, s, 1), c19RefFind(re, s, -1)
	ca, cb := c19CanonDrop(a.val), c19CanonDrop(b.val)
	if ca == cb {
		return a
	}
	return c19Want{kind: wPred, maxStr: -1, predDesc: "the matches for count 1 " + trunc(ca, 250) + " or for count -1 " + trunc(cb, 250),
		pred: func(out tengo.Object) bool { c := c19CanonDrop(out); return c == ca || c == cb }}
}

func c19RefPad(left bool, s string, n int, pad string) c19Want {
	if len(s) >= n {
		return wantV(vS(s))
	}
	if pad == "" {
		return wantTotal()
	}
	need := n - len(s)
	if need%len(pad) == 0 {
		fill := strings.Repeat(pad, need/len(pad))
		if left {
			return wantV(vS(fill + s))
		}
		return wantV(vS(s + fill))
	}
	// partial repetition of the pad string: the docs do not say which part is used
	rep := strings.Repeat(pad, need/len(pad)+2)
	return c19Want{kind: wPred, maxStr: n,
		predDesc: fmt.Sprintf("string of byte length %d that %s %q, the rest being a run of %q", n, map[bool]string{true: "ends with", false: "starts with"}[left], s, pad),
		pred: func(out tengo.Object) bool {
			o, ok := out.(*tengo.String)
			if !ok || len(o.Value) != n {
				return false
			}
			if left {
				return strings.HasSuffix(o.Value, s) && strings.Contains(rep, o.Value[:need])
			}
			return strings.HasPrefix(o.Value, s) && strings.Contains(rep, o.Value[len(s):])
		}}
}

func c19Text() []*c19Fn {
	var t []*c19Fn
	add := func(f *c19Fn) *c19Fn { t = append(t, f); return f }
	S, I, F := kStr, kInt, kFloat

	genSS := func(g *c19G) c19Call { s, sub := g.pairSS(); return c19Args(vS(s), vS(sub)) }
	genS := func(g *c19G) c19Call { return c19Args(vS(g.str())) }

	for _, e := range []struct {
		n string
		f func(a, b string) string
	}{{"trim", strings.Trim}, {"trim_left", strings.TrimLeft}, {"trim_prefix", strings.TrimPrefix}, {"trim_right", strings.TrimRight}, {"trim_suffix", strings.TrimSuffix}} {
		fn := e.f
		add(c19Mk("text", e.n, "text:SS->S", []c19Kind{S, S}, genSS, func(c *c19Call) c19Want { return wantV(vS(fn(aS(c, 0), aS(c, 1)))) }))
	}
	for _, e := range []struct {
		n string
		f func(a, b string) bool
	}{{"contains", strings.Contains}, {"contains_any", strings.ContainsAny}, {"equal_fold", strings.EqualFold}, {"has_prefix", strings.HasPrefix}, {"has_suffix", strings.HasSuffix}} {
		fn := e.f
		add(c19Mk("text", e.n, "text:SS->B", []c19Kind{S, S}, genSS, func(c *c19Call) c19Want { return wantV(vB(fn(aS(c, 0), aS(c, 1)))) }))
	}
	for _, e := range []struct {
		n string
		f func(a, b string) int
	}{{"compare", strings.Compare}, {"count", strings.Count}, {"index", strings.Index}, {"index_any", strings.IndexAny}, {"last_index", strings.LastIndex}, {"last_index_any", strings.LastIndexAny}} {
		fn := e.f
		add(c19Mk("text", e.n, "text:SS->I", []c19Kind{S, S}, genSS, func(c *c19Call) c19Want { return wantV(vI(int64(fn(aS(c, 0), aS(c, 1))))) }))
	}
	for _, e := range []struct {
		n string
		f func(a string) string
	}{{"title", strings.Title}, {"to_lower", strings.ToLower}, {"to_title", strings.ToTitle}, {"to_upper", strings.ToUpper}, {"trim_space", strings.TrimSpace}, {"quote", strconv.Quote}} {
		fn := e.f
		add(c19Mk("text", e.n, "text:S->S", []c19Kind{S}, genS, func(c *c19Call) c19Want { return wantV(vS(fn(aS(c, 0)))) }))
	}
	add(c19Mk("text", "fields", "", []c19Kind{S}, genS, func(c *c19Call) c19Want { return wantV(vSs(strings.Fields(aS(c, 0)))) }))
	for _, e := range []struct {
		n string
		f func(a, b string) []string
	}{{"split", strings.Split}, {"split_after", strings.SplitAfter}} {
		fn := e.f
		add(c19Mk("text", e.n, "text:SS->Ss", []c19Kind{S, S}, genSS, func(c *c19Call) c19Want { return wantV(vSs(fn(aS(c, 0), aS(c, 1)))) }))
	}
	for _, e := range []struct {
		n string
		f func(a, b string, n int) []string
	}{{"split_n", strings.SplitN}, {"split_after_n", strings.SplitAfterN}} {
		fn := e.f
		add(c19Mk("text", e.n, "text:SSI->Ss", []c19Kind{S, S, I},
			func(g *c19G) c19Call { s, sub := g.pairSS(); return c19Args(vS(s), vS(sub), vI(g.small(-1, 4))) },
			func(c *c19Call) c19Want { return wantV(vSs(fn(aS(c, 0), aS(c, 1), int(aI(c, 2))))) }))
	}

	// join(arr, sep)
	add(c19Mk("text", "join", "", []c19Kind{kArr, S},
		func(g *c19G) c19Call {
			n := g.rng.Intn(6)
			ss := make([]string, n)
			for i := range ss {
				ss[i] = c19Clip(g.toks(g.rng.Intn(4)), 12)
			}
			var arr tengo.Object = vSs(ss)
			if g.rng.Intn(4) == 0 {
				arr = &tengo.ImmutableArray{Value: arr.(*tengo.Array).Value}
			}
			return c19Args(arr, vS(pick(g.rng, []string{",", "", ", ", "日", "ab", "-", " "})))
		},
		func(c *c19Call) c19Want {
			var els []tengo.Object
			switch a := c.args[0].(type) {
			case *tengo.Array:
				els = a.Value
			case *tengo.ImmutableArray:
				els = a.Value
			}
			ss := make([]string, len(els))
			for i, e := range els {
				ss[i] = e.(*tengo.String).Value
			}
			return wantV(vS(strings.Join(ss, aS(c, 1))))
		}))

	// repeat(s, count)
	add(c19Mk("text", "repeat", "", []c19Kind{S, I},
		func(g *c19G) c19Call {
			s := c19Clip(g.str(), 8)
			return c19Args(vS(s), vI(pick(g.rng, []int64{0, 1, 2, 3, 5, 10, 50, g.small(0, 50)})))
		},
		func(c *c19Call) c19Want { return wantV(vS(strings.Repeat(aS(c, 0), int(aI(c, 1))))) }))

	// replace(s, old, new, n)
	add(c19Mk("text", "replace", "", []c19Kind{S, S, S, I},
		func(g *c19G) c19Call {
			s, old := g.pairSS()
			if g.rng.Intn(6) == 0 {
				// empty search string: the replacement goes before every rune (1- to 4-byte) and at the end
				s, old = pick(g.rng, []string{"日本語", "héllo wörld", "a€b😀c", "😀", "ab", "日a本b", "\xff日\xfe", g.str()}), ""
			}
			nw := pick(g.rng, []string{"", "X", "日本", "ab", "ba", old, old + old, "--", "é"})
			return c19Args(vS(s), vS(old), vS(nw), vI(g.small(-1, 4)))
		},
		func(c *c19Call) c19Want {
			return wantV(vS(strings.Replace(aS(c, 0), aS(c, 1), aS(c, 2), int(aI(c, 3)))))
		}))

	// substr(s, lower, upper)
	f := add(c19Mk("text", "substr", "", []c19Kind{S, I, I},
		func(g *c19G) c19Call {
			s := g.str()
			n := len(s)
			lo := g.rng.Intn(n + 1)
			hi := lo + g.rng.Intn(n-lo+1)
			switch g.rng.Intn(8) {
			case 0:
				return c19Args(vS(s), vI(int64(lo))) // upper omitted
			case 1:
				return c19Args(vS(s), vI(g.small(-3, n+3)), vI(g.small(-3, n+3)))
			}
			return c19Args(vS(s), vI(int64(lo)), vI(int64(hi)))
		},
		func(c *c19Call) c19Want {
			if len(c.args) < 3 {
				// upper omitted: Go's s[lower:]
				if s, lo := aS(c, 0), aI(c, 1); lo >= 0 && lo <= int64(len(s)) {
					return wantV(vS(s[lo:]))
				}
				return wantTotal()
			}
			s, lo, hi := aS(c, 0), aI(c, 1), aI(c, 2)
			if lo < 0 || hi < lo || hi > int64(len(s)) {
				return wantTotal() // outside the domain of s[lower:upper]
			}
			return wantV(vS(s[lo:hi]))
		}))
	f.optArity = []int{2}

	// pad_left / pad_right (s, pad_len[, pad_with])
	for _, left := range []bool{true, false} {
		left := left
		name := "pad_right"
		if left {
			name = "pad_left"
		}
		f := add(c19Mk("text", name, "text:pad", []c19Kind{S, I, S},
			func(g *c19G) c19Call {
				if g.rng.Intn(6) == 0 {
					// short s, pad length not a multiple of the pad string
					e := pick(g.rng, []struct {
						s   string
						n   int64
						pad string
					}{{"", 5, "xy"}, {"a", 8, "abc"}, {"", 10, "日"}, {"ab", 9, "-=+*"}, {"", 1, "xy"}, {"x", 6, "ab"}, {"", 7, "abc"}})
					return c19Args(vS(e.s), vI(e.n), vS(e.pad))
				}
				s := c19Clip(g.str(), 20)
				n := pick(g.rng, []int64{0, 1, int64(len(s)), int64(len(s)) + 1, int64(len(s)) + 2, int64(len(s)) + 6, 10, 25, 50, g.small(0, 50)})
				if g.rng.Intn(3) == 0 {
					return c19Args(vS(s), vI(n))
				}
				return c19Args(vS(s), vI(n), vS(pick(g.rng, []string{"0", "xy", "abc", " ", "*", "é", "日", "ab", "", "-="})))
			},
			func(c *c19Call) c19Want {
				pad := " "
				if len(c.args) == 3 {
					pad = aS(c, 2)
				}
				return c19RefPad(left, aS(c, 0), int(aI(c, 1)), pad)
			}))
		f.minArgs = 2
	}

	// atoi: "the result of ParseInt(s, 10, 0) converted to type int"
	intStrs := []string{"123", "-5", "+7", "abc", "", "9223372036854775807", "9223372036854775808", "-9223372036854775808", "-9223372036854775809", " 1", "1 ", "1_000", "0x1f", "0", "-0", "007",
		"1e3", "12a", "١٢", "0b101", "0o17", "z", "ff", "-ff", "7fffffffffffffff", "11111111", "128", "-129", "32768", "2147483648"}
	genIntStr := func(g *c19G) string {
		if g.rng.Intn(3) == 0 {
			return strconv.FormatInt(g.int(), 10)
		}
		return pick(g.rng, intStrs)
	}
	add(c19Mk("text", "atoi", "", []c19Kind{S},
		func(g *c19G) c19Call { return c19Args(vS(genIntStr(g))) },
		func(c *c19Call) c19Want {
			n, err := strconv.ParseInt(aS(c, 0), 10, 0)
			if err != nil {
				return wantE(err)
			}
			return wantV(vI(int64(int(n))))
		}))
	add(c19Mk("text", "format_bool", "", []c19Kind{kBool},
		func(g *c19G) c19Call { return c19Args(vB(g.rng.Intn(2) == 0)) },
		func(c *c19Call) c19Want { return wantV(vS(strconv.FormatBool(!c.args[0].IsFalsy()))) }))
	add(c19Mk("text", "format_float", "", []c19Kind{F, S, I, I},
		func(g *c19G) c19Call {
			return c19Args(vF(g.float()), vS(pick(g.rng, []string{"e", "E", "f", "g", "G", "b", "x", "X", "f", "g"})),
				vI(pick(g.rng, []int64{-1, 0, 1, 2, 3, 6, 10, 17, 20})), vI(pick(g.rng, []int64{64, 64, 32})))
		},
		func(c *c19Call) c19Want {
			return wantV(vS(strconv.FormatFloat(aF(c, 0), aS(c, 1)[0], int(aI(c, 2)), int(aI(c, 3)))))
		}))
	add(c19Mk("text", "format_int", "", []c19Kind{I, I},
		func(g *c19G) c19Call {
			return c19Args(vI(g.int()), vI(pick(g.rng, []int64{2, 8, 10, 16, 36, 3, 7, g.small(2, 36)})))
		},
		func(c *c19Call) c19Want { return wantV(vS(strconv.FormatInt(aI(c, 0), int(aI(c, 1))))) }))
	// itoa "is shorthand for format_int(i, 10)"
	add(c19Mk("text", "itoa", "", []c19Kind{I},
		func(g *c19G) c19Call { return c19Args(vI(g.int())) },
		func(c *c19Call) c19Want { return wantV(vS(strconv.FormatInt(aI(c, 0), 10))) }))
	add(c19Mk("text", "parse_bool", "", []c19Kind{S},
		func(g *c19G) c19Call {
			return c19Args(vS(pick(g.rng, []string{"1", "t", "T", "TRUE", "true", "True", "0", "f", "F", "FALSE", "false", "False", "", "yes", "tRUE", "2", " true", "no", "TrUe", "01"})))
		},
		func(c *c19Call) c19Want {
			b, err := strconv.ParseBool(aS(c, 0))
			if err != nil {
				return wantE(err)
			}
			return wantV(vB(b))
		}))
	floatStrs := []string{"1.5", "-0", "1e10", "1e400", "-1e400", "0x1p-2", "inf", "-Inf", "NaN", "nan", "abc", "", "1.5x", " 1", "1_0.5", ".5", "5.", "1e-400", "3.4028236e38", "3.4e39", "16777217", "0.1",
		"1.0000001", "1e", "+3", "infinity", "1.797693134862315708145274237317043567981e+308", "1.8e308", "4.9e-324", "2e-324", "1.401298464324817e-45", "0.000000000000000000000000000000000000000000001"}
	add(c19Mk("text", "parse_float", "", []c19Kind{S, I},
		func(g *c19G) c19Call {
			s := pick(g.rng, floatStrs)
			if g.rng.Intn(3) == 0 {
				s = strconv.FormatFloat(g.float(), byte("efg"[g.rng.Intn(3)]), -1, 64)
			}
			return c19Args(vS(s), vI(pick(g.rng, []int64{64, 32})))
		},
		func(c *c19Call) c19Want {
			v, err := strconv.ParseFloat(aS(c, 0), int(aI(c, 1)))
			if err != nil {
				return wantE(err)
			}
			return wantV(vF(v))
		}))
	add(c19Mk("text", "parse_int", "", []c19Kind{S, I, I},
		func(g *c19G) c19Call {
			return c19Args(vS(genIntStr(g)), vI(pick(g.rng, []int64{10, 10, 0, 2, 8, 16, 36, 1, 37, -1, 3})), vI(pick(g.rng, []int64{64, 64, 0, 8, 16, 32, 7, 1, 65, -1})))
		},
		func(c *c19Call) c19Want {
			v, err := strconv.ParseInt(aS(c, 0), int(aI(c, 1)), int(aI(c, 2)))
			if err != nil {
				return wantE(err)
			}
			return wantV(vI(v))
		}))
	add(c19Mk("text", "unquote", "", []c19Kind{S},
		func(g *c19G) c19Call {
			s := g.str()
			switch g.rng.Intn(8) {
			case 0:
				return c19Args(vS(s)) // usually not a literal
			case 1:
				return c19Args(vS("`" + strings.ReplaceAll(s, "`", "") + "`"))
			case 2:
				return c19Args(vS(pick(g.rng, []string{"'a'", "'日'", "'\\n'", "'ab'", "''", "\"", "\"a", "a\"", "\"\\q\"", "\"\\x4\"", "\"\\u00e9\"", "\"\\xff\"", "\"a\nb\"", "`a\nb`", "'\\''", "\"'\"", "\"\\'\""})))
			case 3:
				return c19Args(vS(strconv.QuoteToASCII(s)))
			}
			return c19Args(vS(strconv.Quote(s)))
		},
		func(c *c19Call) c19Want {
			v, err := strconv.Unquote(aS(c, 0))
			if err != nil {
				return wantE(err)
			}
			return wantV(vS(v))
		}))

	// ---- regular expressions
	add(c19Mk("text", "re_match", "", []c19Kind{S, S},
		func(g *c19G) c19Call { return c19Args(vS(g.pattern(true)), vS(g.reText())) },
		func(c *c19Call) c19Want {
			ok, err := regexp.MatchString(aS(c, 0), aS(c, 1))
			if err != nil {
				return wantE(err)
			}
			return wantV(vB(ok))
		}))
	counts := []int64{-1, -1, 0, 1, 2, 3, 10}
	f = add(c19Mk("text", "re_find", "", []c19Kind{S, S, I},
		func(g *c19G) c19Call {
			if g.rng.Intn(8) == 0 {
				return c19Args(vS(g.pattern(false)), vS(g.reText())) // count omitted
			}
			return c19Args(vS(g.pattern(true)), vS(g.reText()), vI(pick(g.rng, counts)))
		},
		func(c *c19Call) c19Want {
			re, err := regexp.Compile(aS(c, 0))
			if err != nil {
				return wantE(err)
			}
			if len(c.args) < 3 {
				return c19RefFindNoCount(re, aS(c, 1))
			}
			return c19RefFind(re, aS(c, 1), int(aI(c, 2)))
		}))
	f.optArity = []int{2}
	repls := []string{"X", "$1", "[$0]", "${1}x", "$$", "", "<$2>", "$x", "日", "$1$1$1$1"}
	add(c19Mk("text", "re_replace", "", []c19Kind{S, S, S},
		func(g *c19G) c19Call { return c19Args(vS(g.pattern(true)), vS(g.reText()), vS(pick(g.rng, repls))) },
		func(c *c19Call) c19Want {
			re, err := regexp.Compile(aS(c, 0))
			if err != nil {
				return wantE(err)
			}
			return wantV(vS(re.ReplaceAllString(aS(c, 1), aS(c, 2))))
		}))
	f = add(c19Mk("text", "re_split", "", []c19Kind{S, S, I},
		func(g *c19G) c19Call {
			if g.rng.Intn(8) == 0 {
				return c19Args(vS(g.pattern(false)), vS(g.reText()))
			}
			return c19Args(vS(g.pattern(true)), vS(g.reText()), vI(pick(g.rng, counts)))
		},
		func(c *c19Call) c19Want {
			re, err := regexp.Compile(aS(c, 0))
			if err != nil {
				return wantE(err)
			}
			if len(c.args) < 3 {
				return wantV(vSs(re.Split(aS(c, 1), -1))) // count omitted: no limit (Go's n < 0)
			}
			return wantV(vSs(re.Split(aS(c, 1), int(aI(c, 2)))))
		}))
	f.optArity = []int{2}
	// re_compile(pattern) => Regexp/error: an object with the four documented methods
	add(c19Mk("text", "re_compile", "", []c19Kind{S},
		func(g *c19G) c19Call {
			c := c19Args(vS(g.pattern(true)))
			c.pre = "re := m.re_compile(a0)\n"
			c.expr = "is_error(re) ? re : [is_callable(re.match), is_callable(re.find), is_callable(re.replace), is_callable(re.split)]"
			return c
		},
		func(c *c19Call) c19Want {
			if _, err := regexp.Compile(aS(c, 0)); err != nil {
				return wantE(err)
			}
			return wantV(vArr(vB(true), vB(true), vB(true), vB(true)))
		}))
	meth := func(name string, kinds []c19Kind, gen func(g *c19G) c19Call, ref func(re *regexp.Regexp, c *c19Call) c19Want) *c19Fn {
		f := add(c19Mk("text", "regexp."+name, "", kinds, gen, func(c *c19Call) c19Want { return ref(regexp.MustCompile(aS(c, 0)), c) }))
		f.fixed = 1
		f.callExpr = func(names []string) string {
			if len(names) == 0 {
				names = []string{"\"a\""}
			}
			return "m.re_compile(" + names[0] + ")." + name + "(" + strings.Join(names[1:], ", ") + ")"
		}
		return f
	}
	meth("match", []c19Kind{S, S},
		func(g *c19G) c19Call { return c19Args(vS(g.pattern(false)), vS(g.reText())) },
		func(re *regexp.Regexp, c *c19Call) c19Want { return wantV(vB(re.MatchString(aS(c, 1)))) })
	f = meth("find", []c19Kind{S, S, I},
		func(g *c19G) c19Call {
			if g.rng.Intn(8) == 0 {
				return c19Args(vS(g.pattern(false)), vS(g.reText()))
			}
			return c19Args(vS(g.pattern(false)), vS(g.reText()), vI(pick(g.rng, counts)))
		},
		func(re *regexp.Regexp, c *c19Call) c19Want {
			if len(c.args) < 3 {
				return c19RefFindNoCount(re, aS(c, 1))
			}
			return c19RefFind(re, aS(c, 1), int(aI(c, 2)))
		})
	f.optArity = []int{2}
	meth("replace", []c19Kind{S, S, S},
		func(g *c19G) c19Call { return c19Args(vS(g.pattern(false)), vS(g.reText()), vS(pick(g.rng, repls))) },
		func(re *regexp.Regexp, c *c19Call) c19Want { return wantV(vS(re.ReplaceAllString(aS(c, 1), aS(c, 2)))) })
	f = meth("split", []c19Kind{S, S, I},
		func(g *c19G) c19Call {
			if g.rng.Intn(8) == 0 {
				return c19Args(vS(g.pattern(false)), vS(g.reText()))
			}
			return c19Args(vS(g.pattern(false)), vS(g.reText()), vI(pick(g.rng, counts)))
		},
		func(re *regexp.Regexp, c *c19Call) c19Want {
			if len(c.args) < 3 {
				return wantV(vSs(re.Split(aS(c, 1), -1)))
			}
			return wantV(vSs(re.Split(aS(c, 1), int(aI(c, 2)))))
		})
	f.optArity = []int{2}
	return t
}

// ================================================================= math

func c19Math() []*c19Fn {
	var t []*c19Fn
	add := func(f *c19Fn) *c19Fn { t = append(t, f); return f }
	konst := func(name string, v tengo.Object) {
		add(&c19Fn{mod: "math", name: name, isConst: true, ref: func(*c19Call) c19Want { return wantV(v) }})
	}
	// names as the module provides them; the documented spelling is checked by meta.docnames
	for _, e := range []struct {
		n string
		v float64
	}{{"e", math.E}, {"pi", math.Pi}, {"phi", math.Phi}, {"sqrt2", math.Sqrt2}, {"sqrtE", math.SqrtE}, {"sqrtPi", math.SqrtPi}, {"sqrtPhi", math.SqrtPhi}, {"ln2", math.Ln2},
		{"log2E", math.Log2E}, {"ln10", math.Ln10}, {"log10E", math.Log10E}, {"maxFloat32", math.MaxFloat32}, {"smallestNonzeroFloat32", math.SmallestNonzeroFloat32},
		{"maxFloat64", math.MaxFloat64}, {"smallestNonzeroFloat64", math.SmallestNonzeroFloat64}} {
		konst(e.n, vF(e.v))
	}
	for _, e := range []struct {
		n string
		v int64
	}{{"maxInt", math.MaxInt}, {"minInt", math.MinInt}, {"maxInt8", math.MaxInt8}, {"minInt8", math.MinInt8}, {"maxInt16", math.MaxInt16}, {"minInt16", math.MinInt16},
		{"maxInt32", math.MaxInt32}, {"minInt32", math.MinInt32}, {"maxInt64", math.MaxInt64}, {"minInt64", math.MinInt64}} {
		konst(e.n, vI(e.v))
	}
	F, I := kFloat, kInt
	genF := func(g *c19G) c19Call { return c19Args(vF(g.float())) }
	genFF := func(g *c19G) c19Call {
		x, y := g.float(), g.float()
		if g.rng.Intn(3) == 0 {
			// asymmetric small pair: pow(2,3) vs pow(3,2), mod vs remainder, dim vs -dim
			x, y = pick(g.rng, []float64{2, 3, 5.5, -7.5, 10, 0.5, 7}), pick(g.rng, []float64{3, 2, -2, 4, 0.25, 1.5, -3})
		}
		return c19Args(vF(x), vF(y))
	}
	for _, e := range []struct {
		n string
		f func(float64) float64
	}{{"abs", math.Abs}, {"acos", math.Acos}, {"acosh", math.Acosh}, {"asin", math.Asin}, {"asinh", math.Asinh}, {"atan", math.Atan}, {"atanh", math.Atanh}, {"cbrt", math.Cbrt},
		{"ceil", math.Ceil}, {"cos", math.Cos}, {"cosh", math.Cosh}, {"erf", math.Erf}, {"erfc", math.Erfc}, {"exp", math.Exp}, {"exp2", math.Exp2}, {"expm1", math.Expm1},
		{"floor", math.Floor}, {"gamma", math.Gamma}, {"j0", math.J0}, {"j1", math.J1}, {"log", math.Log}, {"log10", math.Log10}, {"log1p", math.Log1p}, {"log2", math.Log2},
		{"logb", math.Logb}, {"sin", math.Sin}, {"sinh", math.Sinh}, {"sqrt", math.Sqrt}, {"tan", math.Tan}, {"tanh", math.Tanh}, {"trunc", math.Trunc}, {"y0", math.Y0}, {"y1", math.Y1}} {
		fn := e.f
		add(c19Mk("math", e.n, "math:F->F", []c19Kind{F}, genF, func(c *c19Call) c19Want { return wantV(vF(fn(aF(c, 0)))) }))
	}
	for _, e := range []struct {
		n string
		f func(a, b float64) float64
	}{{"atan2", math.Atan2}, {"copysign", math.Copysign}, {"dim", math.Dim}, {"hypot", math.Hypot}, {"max", math.Max}, {"min", math.Min}, {"mod", math.Mod},
		{"nextafter", math.Nextafter}, {"pow", math.Pow}, {"remainder", math.Remainder}} {
		fn := e.f
		add(c19Mk("math", e.n, "math:FF->F", []c19Kind{F, F}, genFF, func(c *c19Call) c19Want { return wantV(vF(fn(aF(c, 0), aF(c, 1)))) }))
	}
	add(c19Mk("math", "ilogb", "", []c19Kind{F}, genF, func(c *c19Call) c19Want { return wantV(vI(int64(math.Ilogb(aF(c, 0))))) }))
	add(c19Mk("math", "inf", "", []c19Kind{I},
		func(g *c19G) c19Call { return c19Args(vI(pick(g.rng, []int64{0, 1, -1, 5, -5, g.int()}))) },
		func(c *c19Call) c19Want {
			s := 1
			if aI(c, 0) < 0 {
				s = -1
			}
			return wantV(vF(math.Inf(s)))
		}))
	add(c19Mk("math", "is_inf", "", []c19Kind{F, I},
		func(g *c19G) c19Call {
			f := g.float()
			if g.rng.Intn(2) == 0 {
				f = pick(g.rng, []float64{math.Inf(1), math.Inf(-1)})
			}
			return c19Args(vF(f), vI(g.small(-2, 2)))
		},
		func(c *c19Call) c19Want { return wantV(vB(math.IsInf(aF(c, 0), int(aI(c, 1))))) }))
	for _, e := range []struct {
		n string
		f func(float64) bool
	}{{"is_nan", math.IsNaN}, {"signbit", math.Signbit}} {
		fn := e.f
		add(c19Mk("math", e.n, "math:F->B", []c19Kind{F}, genF, func(c *c19Call) c19Want { return wantV(vB(fn(aF(c, 0)))) }))
	}
	for _, e := range []struct {
		n string
		f func(int, float64) float64
	}{{"jn", math.Jn}, {"yn", math.Yn}} {
		fn := e.f
		add(c19Mk("math", e.n, "math:IF->F", []c19Kind{I, F},
			func(g *c19G) c19Call {
				x := g.float()
				if g.rng.Intn(2) == 0 {
					x = math.Abs((g.rng.Float64()) * 30)
				}
				return c19Args(vI(g.small(-4, 12)), vF(x))
			},
			func(c *c19Call) c19Want { return wantV(vF(fn(int(aI(c, 0)), aF(c, 1)))) }))
	}
	add(c19Mk("math", "ldexp", "", []c19Kind{F, I},
		func(g *c19G) c19Call {
			return c19Args(vF(g.float()), vI(pick(g.rng, []int64{0, 1, -1, 10, -10, 1023, 1024, -1074, -1075, 2000, -2000, g.small(-60, 60)})))
		},
		func(c *c19Call) c19Want { return wantV(vF(math.Ldexp(aF(c, 0), int(aI(c, 1))))) }))
	add(c19Mk("math", "nan", "", []c19Kind{}, func(g *c19G) c19Call { return c19Args() }, func(c *c19Call) c19Want { return wantV(vF(math.NaN())) }))
	add(c19Mk("math", "pow10", "", []c19Kind{I},
		func(g *c19G) c19Call {
			return c19Args(vI(pick(g.rng, []int64{0, 1, -1, 2, 22, 23, 308, 309, -323, -324, -400, 400, g.small(-330, 310)})))
		},
		func(c *c19Call) c19Want { return wantV(vF(math.Pow10(int(aI(c, 0))))) }))
	for _, f := range t {
		f.noLimit = true
	}
	return t
}

// ================================================================= base64 / hex

func (g *c19G) bytes() []byte {
	if g.rng.Intn(6) == 0 {
		return []byte(g.str())
	}
	n := pick(g.rng, []int{0, 1, 2, 3, 4, 5, 6, 7, 8, 9, 15, 16, 17, 30, 40, g.rng.Intn(41)})
	b := make([]byte, n)
	for i := range b {
		if g.rng.Intn(3) == 0 {
			b[i] = pick(g.rng, []byte{0xfb, 0xff, 0xfe, 0x3e, 0x3f, 0xef, 0xbf}) // make '+', '/', '-', '_' appear
		} else {
			b[i] = byte(g.rng.Intn(256))
		}
	}
	return b
}

func c19Enc() []*c19Fn {
	var t []*c19Fn
	add := func(f *c19Fn) *c19Fn { t = append(t, f); return f }
	encs := []struct {
		n string
		e *base64.Encoding
	}{{"", base64.StdEncoding}, {"raw_", base64.RawStdEncoding}, {"url_", base64.URLEncoding}, {"raw_url_", base64.RawURLEncoding}}
	genY := func(g *c19G) c19Call { return c19Args(vY(g.bytes())) }
	genEncoded := func(g *c19G) c19Call {
		b := g.bytes()
		s := pick(g.rng, encs).e.EncodeToString(b)
		switch g.rng.Intn(10) {
		case 0:
			s = g.str()
		case 1:
			if len(s) > 0 {
				i := g.rng.Intn(len(s))
				s = s[:i] + pick(g.rng, []string{"!", "=", " ", "\n", "é", ""}) + s[i+1:]
			}
		case 2:
			s += pick(g.rng, []string{"=", "==", "A", "\n", "\r\n"})
		}
		return c19Args(vS(s))
	}
	for _, e := range encs {
		enc := e.e
		add(c19Mk("base64", e.n+"encode", "base64:enc", []c19Kind{kBytes}, genY, func(c *c19Call) c19Want { return wantV(vS(enc.EncodeToString(aY(c, 0)))) }))
	}
	for _, e := range encs {
		enc := e.e
		add(c19Mk("base64", e.n+"decode", "base64:dec", []c19Kind{kStr}, genEncoded, func(c *c19Call) c19Want {
			b, err := enc.DecodeString(aS(c, 0))
			if err != nil {
				return wantE(err)
			}
			return wantV(vY(b))
		}))
	}
	add(c19Mk("hex", "encode", "", []c19Kind{kBytes}, genY, func(c *c19Call) c19Want { return wantV(vS(hex.EncodeToString(aY(c, 0)))) }))
	add(c19Mk("hex", "decode", "", []c19Kind{kStr},
		func(g *c19G) c19Call {
			s := hex.EncodeToString(g.bytes())
			switch g.rng.Intn(8) {
			case 0:
				s = strings.ToUpper(s)
			case 1:
				s += "a"
			case 2:
				s = g.str()
			case 3:
				if len(s) > 0 {
					i := g.rng.Intn(len(s))
					s = s[:i] + pick(g.rng, []string{"g", " ", "x", "é"}) + s[i+1:]
				}
			}
			return c19Args(vS(s))
		},
		func(c *c19Call) c19Want {
			b, err := hex.DecodeString(aS(c, 0))
			if err != nil {
				return wantE(err)
			}
			return wantV(vY(b))
		}))
	return t
}

// ================================================================= enum

func c19Truthy(o tengo.Object) bool {
	switch v := o.(type) {
	case *tengo.Int:
		return v.Value != 0
	case *tengo.Bool:
		return v == tengo.TrueValue
	case *tengo.String:
		return len(v.Value) > 0
	case *tengo.Array:
		return len(v.Value) > 0
	case *tengo.Undefined:
		return false
	}
	panic("c19Truthy: unexpected " + o.TypeName())
}

type c19Cb struct {
	src string
	fn  func(k, v tengo.Object) tengo.Object
}

func c19IntOf(o tengo.Object) int64 { return o.(*tengo.Int).Value }

// callbacks over (key, int value); behaviour known to the reference
var c19Cbs = []c19Cb{
	{"func(k, v) { return v % 2 == 0 }", func(k, v tengo.Object) tengo.Object { return vB(c19IntOf(v)%2 == 0) }},
	{"func(k, v) { return v > 2 }", func(k, v tengo.Object) tengo.Object { return vB(c19IntOf(v) > 2) }},
	{"func(k, v) { return v }", func(k, v tengo.Object) tengo.Object { return v }},
	{"func(k, v) { return v * 10 }", func(k, v tengo.Object) tengo.Object { return vI(c19IntOf(v) * 10) }},
	{"func(k, v) { return [k, v] }", func(k, v tengo.Object) tengo.Object { return vArr(k, v) }},
	{"func(k, v) { return k }", func(k, v tengo.Object) tengo.Object { return k }},
	{"func(k, v) { return false }", func(k, v tengo.Object) tengo.Object { return vB(false) }},
	{"func(k, v) { return undefined }", func(k, v tengo.Object) tengo.Object { return tengo.UndefinedValue }},
	{"m.key", func(k, v tengo.Object) tengo.Object { return k }},
	{"m.value", func(k, v tengo.Object) tengo.Object { return v }},
	{"func(k, v) { return v == 4 }", func(k, v tengo.Object) tengo.Object { return vB(c19IntOf(v) == 4) }},
	{"func(k, v) { return v < 0 }", func(k, v tengo.Object) tengo.Object { return vB(c19IntOf(v) < 0) }},
}

type c19KV struct{ k, v tengo.Object }

// items of an enumerable in iteration order (maps: sorted keys; the verdicts
// on multi-key maps are order-insensitive); ok=false: not enumerable
func c19Items(x tengo.Object) (items []c19KV, isArr, ok bool) {
	switch a := x.(type) {
	case *tengo.Array:
		for i, e := range a.Value {
			items = append(items, c19KV{vI(int64(i)), e})
		}
		return items, true, true
	case *tengo.ImmutableArray:
		for i, e := range a.Value {
			items = append(items, c19KV{vI(int64(i)), e})
		}
		return items, true, true
	case *tengo.Map:
		return c19MapItems(a.Value), false, true
	case *tengo.ImmutableMap:
		return c19MapItems(a.Value), false, true
	}
	return nil, false, false
}

func c19MapItems(m map[string]tengo.Object) []c19KV {
	keys := make([]string, 0, len(m))
	for k := range m {
		keys = append(keys, k)
	}
	sort.Strings(keys)
	var items []c19KV
	for _, k := range keys {
		items = append(items, c19KV{vS(k), m[k]})
	}
	return items
}

func (g *c19G) enumX() tengo.Object {
	ints := func(n int) []tengo.Object {
		out := make([]tengo.Object, n)
		for i := range out {
			out[i] = vI(g.small(-3, 6))
		}
		return out
	}
	switch g.rng.Intn(10) {
	case 0:
		// not enumerable
		return pick(g.rng, []tengo.Object{vI(5), vF(1.5), tengo.TrueValue, tengo.UndefinedValue, &tengo.Char{Value: 'x'}, vT(time.Unix(1e9, 0)), vI(0)})
	case 1:
		return &tengo.ImmutableArray{Value: ints(g.rng.Intn(6))}
	case 2, 3:
		m := map[string]tengo.Object{}
		n := g.rng.Intn(5)
		for i := 0; i < n; i++ {
			m[pick(g.rng, []string{"a", "b", "c", "d", "e", "key", "日"})] = vI(g.small(-3, 6))
		}
		if g.rng.Intn(4) == 0 {
			return &tengo.ImmutableMap{Value: m}
		}
		return &tengo.Map{Value: m}
	case 4:
		return vArr(pick(g.rng, [][]tengo.Object{{}, {vI(0)}, {vI(4)}, {vI(1), vI(2), vI(3), vI(4), vI(5)}, {vI(2), vI(4), vI(6)}, {vI(0), vI(0)}, {vI(-1), vI(3), vI(4), vI(4)}})...)
	}
	return vArr(ints(g.rng.Intn(8))...)
}

func c19Enum() []*c19Fn {
	var t []*c19Fn
	mk := func(name string, gen func(g *c19G) c19Call, ref func(c *c19Call) c19Want) *c19Fn {
		f := c19Mk("enum", name, "", []c19Kind{kAny, kAny}, gen, ref)
		f.noType, f.noLimit = true, true
		t = append(t, f)
		return f
	}
	genCb := func(name string) func(g *c19G) c19Call {
		return func(g *c19G) c19Call {
			c := c19Args(g.enumX())
			c.aux = g.rng.Intn(len(c19Cbs))
			c.expr = "m." + name + "(a0, " + c19Cbs[c.aux].src + ")"
			return c
		}
	}
	undef := wantV(tengo.UndefinedValue)
	// any-of: result must be the canonical form of one of the candidates
	anyOf := func(cands []tengo.Object) c19Want {
		if len(cands) == 1 {
			return wantV(cands[0])
		}
		set := map[string]bool{}
		var names []string
		for _, c := range cands {
			set[c19Canon(c)] = true
			names = append(names, c19Canon(c))
		}
		return c19Want{kind: wPred, maxStr: -1, predDesc: "one of " + strings.Join(names, " | ") + " (map iteration order is unspecified)",
			pred: func(out tengo.Object) bool { return set[c19Canon(out)] }}
	}
	unordered := func(els []tengo.Object) c19Want {
		want, _ := c19SortedElems(vArr(els...))
		return c19Want{kind: wPred, maxStr: -1, predDesc: "array with the elements (any order) " + want,
			pred: func(out tengo.Object) bool { got, ok := c19SortedElems(out); return ok && got == want }}
	}
	mk("all", genCb("all"), func(c *c19Call) c19Want {
		items, _, ok := c19Items(c.args[0])
		if !ok {
			return undef
		}
		for _, it := range items {
			if !c19Truthy(c19Cbs[c.aux].fn(it.k, it.v)) {
				return wantV(vB(false))
			}
		}
		return wantV(vB(true))
	})
	mk("any", genCb("any"), func(c *c19Call) c19Want {
		items, _, ok := c19Items(c.args[0])
		if !ok {
			return undef
		}
		for _, it := range items {
			if c19Truthy(c19Cbs[c.aux].fn(it.k, it.v)) {
				return wantV(vB(true))
			}
		}
		return wantV(vB(false))
	})
	mk("chunk",
		func(g *c19G) c19Call { return c19Args(g.enumX(), vI(g.small(1, 5))) },
		func(c *c19Call) c19Want {
			items, isArr, ok := c19Items(c.args[0])
			if !ok || !isArr {
				return undef
			}
			size := int(aI(c, 1))
			out := []tengo.Object{}
			for i := 0; i < len(items); i += size {
				var ch []tengo.Object
				for j := i; j < i+size && j < len(items); j++ {
					ch = append(ch, items[j].v)
				}
				out = append(out, vArr(ch...))
			}
			return wantV(vArr(out...))
		})
	mk("at",
		func(g *c19G) c19Call {
			x := g.enumX()
			items, _, ok := c19Items(x)
			if !ok || len(items) == 0 {
				return c19Args(x, pick(g.rng, []tengo.Object{vI(0), vS("a")}))
			}
			return c19Args(x, pick(g.rng, items).k)
		},
		func(c *c19Call) c19Want {
			items, _, ok := c19Items(c.args[0])
			if !ok {
				return undef
			}
			for _, it := range items {
				if c19Canon(it.k) == c19Canon(c.args[1]) {
					return wantV(it.v)
				}
			}
			return wantTotal() // absent key / index: not described by the docs
		})
	mk("each",
		func(g *c19G) c19Call {
			c := c19Args(g.enumX())
			c.pre = "acc := []\n"
			c.expr = "[m.each(a0, func(k, v) { acc = append(acc, [k, v]) }), acc]"
			return c
		},
		func(c *c19Call) c19Want {
			items, isArr, _ := c19Items(c.args[0])
			var acc []tengo.Object
			for _, it := range items {
				acc = append(acc, vArr(it.k, it.v))
			}
			if isArr || len(items) <= 1 {
				return wantV(vArr(tengo.UndefinedValue, vArr(acc...)))
			}
			want, _ := c19SortedElems(vArr(acc...))
			return c19Want{kind: wPred, maxStr: -1, predDesc: "[undefined, visited] with visited (any order) = " + want,
				pred: func(out tengo.Object) bool {
					o, ok := out.(*tengo.Array)
					if !ok || len(o.Value) != 2 || o.Value[0] != tengo.UndefinedValue {
						return false
					}
					got, ok := c19SortedElems(o.Value[1])
					return ok && got == want
				}}
		})
	mk("filter", genCb("filter"), func(c *c19Call) c19Want {
		items, isArr, ok := c19Items(c.args[0])
		if !ok || !isArr {
			return undef
		}
		out := []tengo.Object{}
		for _, it := range items {
			if c19Truthy(c19Cbs[c.aux].fn(it.k, it.v)) {
				out = append(out, it.v)
			}
		}
		return wantV(vArr(out...))
	})
	finder := func(key bool) func(c *c19Call) c19Want {
		return func(c *c19Call) c19Want {
			items, isArr, ok := c19Items(c.args[0])
			if !ok {
				return undef
			}
			var cands []tengo.Object
			for _, it := range items {
				if c19Truthy(c19Cbs[c.aux].fn(it.k, it.v)) {
					r := it.v
					if key {
						r = it.k
					}
					if isArr {
						return wantV(r) // arrays: the first
					}
					cands = append(cands, r)
				}
			}
			if len(cands) == 0 {
				return undef
			}
			return anyOf(cands)
		}
	}
	mk("find", genCb("find"), finder(false))
	mk("find_key", genCb("find_key"), finder(true))
	mk("map", genCb("map"), func(c *c19Call) c19Want {
		items, isArr, ok := c19Items(c.args[0])
		if !ok {
			return undef
		}
		out := []tengo.Object{}
		for _, it := range items {
			out = append(out, c19Cbs[c.aux].fn(it.k, it.v))
		}
		if isArr || len(items) <= 1 {
			return wantV(vArr(out...))
		}
		return unordered(out)
	})
	genKV := func(g *c19G) c19Call {
		vals := []tengo.Object{vI(g.int()), vS(g.str()), vF(1.5), tengo.UndefinedValue, vArr(vI(1)), tengo.TrueValue}
		a, b := pick(g.rng, vals), pick(g.rng, vals)
		if c19Canon(a) == c19Canon(b) {
			b = vS("other")
		}
		return c19Args(a, b)
	}
	mk("key", genKV, func(c *c19Call) c19Want { return wantV(c.args[0]) })
	mk("value", genKV, func(c *c19Call) c19Want { return wantV(c.args[1]) })
	return t
}

// ================================================================= times

const c19TimeStringLayout = "2006-01-02 15:04:05.999999999 -0700 MST"

var c19Layouts = []string{time.ANSIC, time.UnixDate, time.RubyDate, time.RFC822, time.RFC822Z, time.RFC850, time.RFC1123, time.RFC1123Z, time.RFC3339, time.RFC3339Nano,
	time.Kitchen, time.Stamp, time.StampMilli, time.StampMicro, time.StampNano, "2006-01-02", "Jan 2, 2006 at 3:04pm (MST)", "02/01/06 15h04", "Monday January _2 .000 Z0700", "2006-002", "", "no verbs", "日本 2006年1月2日"}

func c19Times() []*c19Fn {
	var t []*c19Fn
	add := func(f *c19Fn) *c19Fn { f.localZone = true; t = append(t, f); return f }
	konst := func(name string, v tengo.Object) {
		add(&c19Fn{mod: "times", name: name, isConst: true, ref: func(*c19Call) c19Want { return wantV(v) }})
	}
	for _, e := range []struct{ n, v string }{{"format_ansic", time.ANSIC}, {"format_unix_date", time.UnixDate}, {"format_ruby_date", time.RubyDate}, {"format_rfc822", time.RFC822},
		{"format_rfc822z", time.RFC822Z}, {"format_rfc850", time.RFC850}, {"format_rfc1123", time.RFC1123}, {"format_rfc1123z", time.RFC1123Z}, {"format_rfc3339", time.RFC3339},
		{"format_rfc3339_nano", time.RFC3339Nano}, {"format_kitchen", time.Kitchen}, {"format_stamp", time.Stamp}, {"format_stamp_milli", time.StampMilli},
		{"format_stamp_micro", time.StampMicro}, {"format_stamp_nano", time.StampNano}} {
		konst(e.n, vS(e.v))
	}
	for _, e := range []struct {
		n string
		v time.Duration
	}{{"nanosecond", time.Nanosecond}, {"microsecond", time.Microsecond}, {"millisecond", time.Millisecond}, {"second", time.Second}, {"minute", time.Minute}, {"hour", time.Hour}} {
		konst(e.n, vI(int64(e.v)))
	}
	for _, e := range []struct {
		n string
		v time.Month
	}{{"january", time.January}, {"february", time.February}, {"march", time.March}, {"april", time.April}, {"may", time.May}, {"june", time.June}, {"july", time.July},
		{"august", time.August}, {"september", time.September}, {"october", time.October}, {"november", time.November}, {"december", time.December}} {
		konst(e.n, vI(int64(e.v)))
	}
	S, I, T := kStr, kInt, kTime
	durStrs := []string{"300ms", "-1.5h", "2h45m", "1h", "0", "1", "", "1d", "1.5", "µs", "5µs", "5us", "1h1m1s1ms1us1ns", "+3s", "-0", ".5s", "1e3s", "9223372036s", "9223372037s", "1 h", "3000000h", "0.000000001s", "1ns", "-2m3.4s"}
	add(c19Mk("times", "parse_duration", "", []c19Kind{S},
		func(g *c19G) c19Call {
			if g.rng.Intn(3) == 0 {
				return c19Args(vS(time.Duration(g.dur()).String()))
			}
			return c19Args(vS(pick(g.rng, durStrs)))
		},
		func(c *c19Call) c19Want {
			d, err := time.ParseDuration(aS(c, 0))
			if err != nil {
				return wantE(err)
			}
			return wantV(vI(int64(d)))
		}))
	genD := func(g *c19G) c19Call { return c19Args(vI(g.dur())) }
	for _, e := range []struct {
		n string
		f func(time.Duration) float64
	}{{"duration_hours", time.Duration.Hours}, {"duration_minutes", time.Duration.Minutes}, {"duration_seconds", time.Duration.Seconds}} {
		fn := e.f
		add(c19Mk("times", e.n, "times:D->F", []c19Kind{I}, genD, func(c *c19Call) c19Want { return wantV(vF(fn(time.Duration(aI(c, 0))))) }))
	}
	add(c19Mk("times", "duration_nanoseconds", "", []c19Kind{I}, genD, func(c *c19Call) c19Want { return wantV(vI(time.Duration(aI(c, 0)).Nanoseconds())) }))
	add(c19Mk("times", "duration_string", "", []c19Kind{I}, genD, func(c *c19Call) c19Want { return wantV(vS(time.Duration(aI(c, 0)).String())) }))
	add(c19Mk("times", "month_string", "", []c19Kind{I},
		func(g *c19G) c19Call {
			return c19Args(vI(pick(g.rng, []int64{1, 2, 3, 4, 5, 6, 7, 8, 9, 10, 11, 12, 0, 13, -1, g.small(1, 12)})))
		},
		func(c *c19Call) c19Want { return wantV(vS(time.Month(aI(c, 0)).String())) }))

	locNames := append([]string{"UTC", "Local", "", "Nowhere/X", "../etc/passwd", "utc", "Asia/Tokyo", "America/New_York", "Europe/Berlin"}, c19TZNames...)
	// date(year, month, day, hour, min, sec, nsec[, loc])
	f := add(c19Mk("times", "date", "", []c19Kind{I, I, I, I, I, I, I, S},
		func(g *c19G) c19Call {
			var a []tengo.Object
			if g.rng.Intn(2) == 0 {
				// all seven components pairwise different: a transposition is visible
				vals := []int64{2001 + int64(g.rng.Intn(30)), 3, 17, 5, 41, 29, 123456789}
				a = []tengo.Object{vI(vals[0]), vI(vals[1] + int64(g.rng.Intn(8))), vI(vals[2] + int64(g.rng.Intn(10))), vI(vals[3] + int64(g.rng.Intn(15))), vI(vals[4] + int64(g.rng.Intn(15))),
					vI(vals[5] + int64(g.rng.Intn(8))), vI(vals[6] + int64(g.rng.Intn(1000)))}
			} else {
				a = []tengo.Object{vI(g.small(1, 3000)), vI(g.small(-5, 20)), vI(g.small(-40, 400)), vI(g.small(-30, 50)), vI(g.small(-70, 130)), vI(g.small(-70, 130)),
					vI(pick(g.rng, []int64{0, 1, 999999999, 1000000000, -1, 2500000000, g.nsec()}))}
			}
			if g.rng.Intn(3) == 0 {
				a = append(a, vS(pick(g.rng, locNames)))
			}
			return c19Call{args: a}
		},
		func(c *c19Call) c19Want {
			loc := time.Local
			if len(c.args) == 8 {
				var err error
				if loc, err = time.LoadLocation(aS(c, 7)); err != nil {
					return wantE(err)
				}
			}
			return wantV(vT(time.Date(int(aI(c, 0)), time.Month(aI(c, 1)), int(aI(c, 2)), int(aI(c, 3)), int(aI(c, 4)), int(aI(c, 5)), int(aI(c, 6)), loc)))
		}))
	f.minArgs = 7
	// parse(format, s)
	add(c19Mk("times", "parse", "", []c19Kind{S, S},
		func(g *c19G) c19Call {
			layout := pick(g.rng, c19Layouts)
			s := g.time().Format(layout)
			switch g.rng.Intn(8) {
			case 0:
				s = g.str()
			case 1:
				layout = pick(g.rng, c19Layouts)
			case 2:
				if len(s) > 0 {
					s = s[:g.rng.Intn(len(s))]
				}
			}
			return c19Args(vS(layout), vS(s))
		},
		func(c *c19Call) c19Want {
			v, err := time.Parse(aS(c, 0), aS(c, 1))
			if err != nil {
				return wantE(err)
			}
			return wantV(vT(v))
		}))
	add(c19Mk("times", "unix", "", []c19Kind{I, I},
		func(g *c19G) c19Call {
			return c19Args(vI(g.sec()), vI(pick(g.rng, []int64{0, 1, 999999999, 1000000000, -1, 2500000000, -1500000000, g.nsec()})))
		},
		func(c *c19Call) c19Want { return wantV(vT(time.Unix(aI(c, 0), aI(c, 1)))) }))
	add(c19Mk("times", "add", "", []c19Kind{T, I},
		func(g *c19G) c19Call { return c19Args(vT(g.time()), vI(g.dur())) },
		func(c *c19Call) c19Want { return wantV(vT(aT(c, 0).Add(time.Duration(aI(c, 1))))) }))
	add(c19Mk("times", "add_date", "", []c19Kind{T, I, I, I},
		func(g *c19G) c19Call {
			p := g.rng.Perm(9) // three different offsets
			return c19Args(vT(g.time()), vI(int64(p[0]-4)), vI(int64(p[1]-4)), vI(int64(p[2]-4)*pick(g.rng, []int64{1, 1, 7, 31})))
		},
		func(c *c19Call) c19Want {
			return wantV(vT(aT(c, 0).AddDate(int(aI(c, 1)), int(aI(c, 2)), int(aI(c, 3)))))
		}))
	genTT := func(g *c19G) c19Call {
		a := g.time()
		b := g.time()
		switch g.rng.Intn(5) {
		case 0:
			b = a
		case 1:
			b = a.In(g.loc()) // same instant, other location
		case 2:
			b = a.Add(time.Duration(pick(g.rng, []int64{1, -1, 1e9, -1e9, 3600e9})))
		}
		return c19Args(vT(a), vT(b))
	}
	add(c19Mk("times", "sub", "", []c19Kind{T, T}, genTT, func(c *c19Call) c19Want { return wantV(vI(int64(aT(c, 0).Sub(aT(c, 1))))) }))
	add(c19Mk("times", "after", "times:TT->B", []c19Kind{T, T}, genTT, func(c *c19Call) c19Want { return wantV(vB(aT(c, 0).After(aT(c, 1)))) }))
	add(c19Mk("times", "before", "times:TT->B", []c19Kind{T, T}, genTT, func(c *c19Call) c19Want { return wantV(vB(aT(c, 0).Before(aT(c, 1)))) }))
	genT := func(g *c19G) c19Call { return c19Args(vT(g.time())) }
	for _, e := range []struct {
		n string
		f func(time.Time) int64
	}{{"time_year", func(t time.Time) int64 { return int64(t.Year()) }}, {"time_month", func(t time.Time) int64 { return int64(t.Month()) }},
		{"time_day", func(t time.Time) int64 { return int64(t.Day()) }}, {"time_weekday", func(t time.Time) int64 { return int64(t.Weekday()) }},
		{"time_hour", func(t time.Time) int64 { return int64(t.Hour()) }}, {"time_minute", func(t time.Time) int64 { return int64(t.Minute()) }},
		{"time_second", func(t time.Time) int64 { return int64(t.Second()) }}, {"time_nanosecond", func(t time.Time) int64 { return int64(t.Nanosecond()) }},
		{"time_unix", func(t time.Time) int64 { return t.Unix() }}} {
		fn := e.f
		add(c19Mk("times", e.n, "times:T->I", []c19Kind{T}, genT, func(c *c19Call) c19Want { return wantV(vI(fn(aT(c, 0)))) }))
	}
	add(c19Mk("times", "time_unix_nano", "", []c19Kind{T},
		func(g *c19G) c19Call { return c19Args(vT(g.timeNear())) },
		func(c *c19Call) c19Want { return wantV(vI(aT(c, 0).UnixNano())) }))
	add(c19Mk("times", "time_format", "", []c19Kind{T, S},
		func(g *c19G) c19Call {
			l := pick(g.rng, c19Layouts)
			if g.rng.Intn(6) == 0 {
				l = g.str()
			}
			return c19Args(vT(g.time()), vS(l))
		},
		func(c *c19Call) c19Want { return wantV(vS(aT(c, 0).Format(aS(c, 1)))) }))
	add(c19Mk("times", "time_location", "times:T->S", []c19Kind{T}, genT, func(c *c19Call) c19Want { return wantV(vS(aT(c, 0).Location().String())) }))
	add(c19Mk("times", "time_string", "times:T->S", []c19Kind{T}, genT, func(c *c19Call) c19Want { return wantV(vS(aT(c, 0).Format(c19TimeStringLayout))) }))
	add(c19Mk("times", "is_zero", "", []c19Kind{T},
		func(g *c19G) c19Call {
			if g.rng.Intn(3) == 0 {
				return c19Args(vT(time.Time{}.In(g.loc())))
			}
			return c19Args(vT(g.time()))
		},
		func(c *c19Call) c19Want { return wantV(vB(aT(c, 0).IsZero())) }))
	add(c19Mk("times", "in_location", "", []c19Kind{T, S},
		func(g *c19G) c19Call { return c19Args(vT(g.time()), vS(pick(g.rng, locNames))) },
		func(c *c19Call) c19Want {
			loc, err := time.LoadLocation(aS(c, 1))
			if err != nil {
				return wantE(err)
			}
			return wantV(vT(aT(c, 0).In(loc)))
		}))
	add(c19Mk("times", "to_local", "times:T->T", []c19Kind{T}, genT, func(c *c19Call) c19Want { return wantV(vT(aT(c, 0).Local())) }))
	add(c19Mk("times", "to_utc", "times:T->T", []c19Kind{T}, genT, func(c *c19Call) c19Want { return wantV(vT(aT(c, 0).UTC())) }))
	return t
}
