package props

import (
	"fmt"
	"math/rand"
	"strings"

	"github.com/d5/tengo/v2"

	"verif/fw"
	"verif/gen"
)

// constant pool without addresses: functions by their instructions
func constSummary(bc *tengo.Bytecode) []string {
	var out []string
	for _, c := range bc.Constants {
		switch v := c.(type) {
		case *tengo.CompiledFunction:
			out = append(out, fmt.Sprintf("fn(params=%d,varargs=%v,locals=%d):%s", v.NumParameters, v.VarArgs, v.NumLocals, strings.Join(tengo.FormatInstructions(v.Instructions, 0), ";")))
		default:
			out = append(out, c.TypeName()+":"+canon(c))
		}
	}
	return out
}

// roundTrip is family (d): the printed form of a parsed program parses again
// and compiles to the same instructions and constants.
func (c *c20) roundTrip(r *fw.Rec, rng *rand.Rand, cs fw.Case) {
	for i := 0; i < 10; i++ {
		opts := gen.Options{MaxStmts: 3 + rng.Intn(14), MaxDepth: 2 + rng.Intn(3), IdentKeys: true}
		switch rng.Intn(3) {
		case 0:
			opts.ControlHeavy = true
		case 1:
			opts.ClosureHeavy = true
		}
		var src string
		if cs.Index/4 < len(c20RTDirected) && i == 0 {
			src = c20RTDirected[cs.Index/4]
		} else {
			src = gen.Generate(gen.New(rng, opts)).Src
			if rng.Intn(4) == 0 {
				src = "lib := import(\"lib\")\n" + src + "\nexport {a: lib.ten}\n"
			}
		}
		f, err := parseSrc([]byte(src))
		if err != nil {
			r.Inc("d:unparsable-original")
			continue
		}
		var printed string
		perr := safely(func() error { printed = f.String(); return nil })
		r.Eval()
		r.Inc("d:roundtrips")
		r.Distinct("d", src)
		detail := map[string]interface{}{"source": src, "printed": printed}
		if perr != nil {
			p, _ := isPanic(perr)
			detail["stack"] = trunc(p.stack, 2000)
			r.Violate("d:printer-panic", "File.String() panicked", detail)
			return
		}
		f2, err := parseSrc([]byte(printed))
		if err != nil {
			detail["error"] = err.Error()
			r.Violate("d:reparse", "the printed form of a parsed program does not parse", detail)
			return
		}
		if a, b := astDump(f), astDump(f2); a != b {
			detail["original_ast"] = a
			detail["reparsed_ast"] = b
			r.Violate("d:ast", "the printed form parses to a different tree", detail)
			return
		}
		c1, e1 := compileRaw([]byte(src), nil, c12ModuleMap())
		c2, e2 := compileRaw([]byte(printed), nil, c12ModuleMap())
		if (e1 == nil) != (e2 == nil) {
			detail["original_error"] = fmt.Sprint(e1)
			detail["printed_error"] = fmt.Sprint(e2)
			r.Violate("d:compile", "original and printed form compile differently", detail)
			return
		}
		if e1 != nil {
			r.Inc("d:compile-error(both)")
			continue
		}
		i1 := strings.Join(c1.BC.FormatInstructions(), ";")
		i2 := strings.Join(c2.BC.FormatInstructions(), ";")
		k1, k2 := strings.Join(constSummary(c1.BC), "\n"), strings.Join(constSummary(c2.BC), "\n")
		if i1 != i2 || k1 != k2 {
			detail["original_instructions"] = i1
			detail["printed_instructions"] = i2
			if k1 != k2 {
				detail["original_constants"] = k1
				detail["printed_constants"] = k2
			}
			r.Violate("d:bytecode", "original and printed form compile to different instructions or constants", detail)
			return
		}
		r.Inc("d:identical-bytecode")
		if r.WantSample() && len(src) < 300 {
			r.Sample(map[string]interface{}{"family": "d", "source": src, "printed": printed})
		}
	}
}

var c20RTDirected = []string{
	// selectors, indexes, calls and slices applied directly to number literals
	"a := 1 .y\nb := 0x1F .z\nc := 1.5.w\nd := 2[0]\ne := 3 .k.j\nf := (4).m\ng := 5 .n[0]\nh := 7 .f(1)\ni := -8 .q\nj := 1e3.r\nk := 0b11 .s\nl := 9[1:2]\n",
	"x := - -a1\ny := + +2\nz := 1 - - -3\nw := !-x\nv := - (-y)\nu := a - -b\n",
	"a := [1, 2][0]\nb := {k: 1}.k\nc := func(p, ...q) { return p }(1, [2]...)\nd := a ? b : c ? a : b\ne := (a ? b : c) ? a : b\n",
	"for i := 0; i < 3; i++ { if i == 1 { continue } else if i == 2 { break } else { x := i } }\nfor k, v in {a: 1} { y := k }\nfor v in [1] { z := v }\nfor { break }\nfor a < 3 { a++ }\n",
	"s := \"q\\\"q\" + `raw` + 'c' + '\\n'\nm := {a: {b: [1, {c: 2}]}}\nm.a.b[1].c += 1\nm[\"a\"].b = immutable([1])\ne := error(\"x\")\nu := undefined\nt := true && !false || 1.5 > 0x10\n",
	"if x := 1; x > 0 { y := x } else { y := -x }\nf := func() { return }\ng := func() { return 1 }\nexport {f: f, g: g}\n",
}
