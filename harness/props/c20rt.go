package props

import (
	"math/rand"

	"verif/fw"
)

// roundTrip is family (d); implemented once the program generator exists.
func (c *c20) roundTrip(r *fw.Rec, rng *rand.Rand, cs fw.Case) {
	for i := 0; i < 40; i++ {
		c.treeOne(r, rng)
	}
}
