package props

import (
	"fmt"
	"math/rand"
	"sort"
	"strings"

	"github.com/d5/tengo/v2"

	"verif/fw"
)

// C09 — immutable values cannot be changed by any sequence of operations.
type c09 struct{}

func init() { fw.Register(&c09{}) }

func (*c09) ID() string    { return "C09" }
func (*c09) Level() string { return "exploration" }
func (*c09) NumCases(tier string) int {
	if tier == "thorough" {
		return 150000
	}
	return 8000
}
func (*c09) Rule() string {
	return "each case = one immutable value built from fresh literals (immutable(...) of nested arrays/maps of every element type incl. shared sub-structures, freeze(...) of nested mutable data, a module export, a builtin-module table) bound to a host-declared global, " +
		"followed by a random sequence of up to 12 operations applied to it and to everything derived from it (index/selector/compound assignment, append, splice, delete, slices then writes, + then writes, copy then writes, iteration with writes, passing to functions and closures that write, spread into variadics, storing in other containers and writing through them, re-wrapping with immutable/freeze). " +
		"Every operation is its own RunContext on the same Compiled (a run-time error ends only that step); after every step the monitor snapshots the immutable value through Compiled.Get and compares it with the snapshot taken right after creation: the whole tree for frozen values, the immutable spine (element identities and scalar values) for shallow ones. " +
		"For freeze additionally: result == argument, argument unchanged, no mutable container reachable from the result, later writes to the argument invisible in the result. distinct = distinct script; non-trivial = at least 4 steps ran"
}
func (*c09) Assumptions() []string {
	return []string{
		"values are built from fresh literals, so no mutable alias of the immutable storage exists before it becomes immutable (the proviso of the property)",
		"for merely shallow-immutable values the mutable children may legitimately change; only the immutable spine is compared",
		"error values are opaque to freeze (they compare by identity); containers wrapped in errors are not generated; the two exact inputs that show a frozen value changing through an error payload are probed separately and listed as known findings",
	}
}

// snapshot of an immutable value: deep canonical form, or the spine.
func c09Deep(o tengo.Object) string { return canon(o) }

func c09Spine(o tengo.Object) string {
	elem := func(e tengo.Object) string {
		switch e.(type) {
		case *tengo.Array, *tengo.Map, *tengo.ImmutableArray, *tengo.ImmutableMap, *tengo.Error, *tengo.Bytes, *tengo.CompiledFunction, *tengo.UserFunction, *tengo.BuiltinFunction:
			return fmt.Sprintf("%s@%p", e.TypeName(), e)
		}
		return canon(e)
	}
	switch v := o.(type) {
	case *tengo.ImmutableArray:
		parts := make([]string, len(v.Value))
		for i, e := range v.Value {
			parts[i] = elem(e)
		}
		return "I[" + strings.Join(parts, ",") + "]"
	case *tengo.ImmutableMap:
		keys := make([]string, 0, len(v.Value))
		for k := range v.Value {
			keys = append(keys, k)
		}
		sort.Strings(keys)
		parts := make([]string, len(keys))
		for i, k := range keys {
			parts[i] = k + ":" + elem(v.Value[k])
		}
		return "I{" + strings.Join(parts, ",") + "}"
	}
	return "NOT-IMMUTABLE:" + o.TypeName()
}

// mutableReachable reports a mutable container reachable from a frozen value.
func mutableReachable(o tengo.Object, path string, seen map[tengo.Object]bool) string {
	if seen[o] {
		return ""
	}
	switch v := o.(type) {
	case *tengo.Array:
		return path + " is a mutable array"
	case *tengo.Map:
		return path + " is a mutable map"
	case *tengo.ImmutableArray:
		seen[o] = true
		for i, e := range v.Value {
			if p := mutableReachable(e, fmt.Sprintf("%s[%d]", path, i), seen); p != "" {
				return p
			}
		}
	case *tengo.ImmutableMap:
		seen[o] = true
		for k, e := range v.Value {
			if p := mutableReachable(e, path+"."+k, seen); p != "" {
				return p
			}
		}
	}
	return ""
}

// ---- value literals (fresh, nested)

func c09Lit(r *rand.Rand, depth int, isMap bool, noFn bool) string {
	scalar := func() string {
		if noFn {
			// functions never compare equal, so freeze(x) == x cannot hold for values containing them
			return pick(r, []string{"1", "2", "-7", "2.5", "true", "\"s\"", "'c'", "undefined", "bytes(\"ab\")", "error(\"e\")", "time(5)"})
		}
		return pick(r, []string{"1", "2", "-7", "2.5", "true", "\"s\"", "'c'", "undefined", "bytes(\"ab\")", "error(\"e\")", "time(5)", "func() { return 1 }", "len"})
	}
	elem := func() string {
		if depth > 0 && r.Intn(2) == 0 {
			return c09Lit(r, depth-1, r.Intn(2) == 0, noFn)
		}
		return scalar()
	}
	if isMap {
		keys := []string{"a", "b", "k", "z"}
		n := 1 + r.Intn(3)
		var parts []string
		for i := 0; i < n; i++ {
			parts = append(parts, keys[i]+": "+elem())
		}
		return "{" + strings.Join(parts, ", ") + "}"
	}
	n := 1 + r.Intn(4)
	var parts []string
	for i := 0; i < n; i++ {
		parts = append(parts, elem())
	}
	return "[" + strings.Join(parts, ", ") + "]"
}

// ---- operations. I = the immutable value, d1..d3 derived values, X/Y = fresh values
var c09Ops = []string{
	"imm[0] = X", "imm[1] = X", "imm.a = X", "imm[\"k\"] = X", "imm.newkey = X", "imm[0][0] = X", "imm[1][0] = X", "imm.a.a = X", "imm.a[0] = X", "imm[0].b = X", "imm.b.k.z = X",
	"imm[0] += 1", "imm.a += 1", "imm[0] = imm[0]", "imm[-1] = X", "imm[99] = X", "imm[\"0\"] = X",
	"d1 = append(imm, X); d1[0] = Y; d1[len(d1)-1] = Y", "d1 = append(imm, X, Y); d2 = append(imm, Y); d1[0] = 5; d2[1] = 6",
	"d1 = imm[0:2]; d1[0] = Y", "d1 = imm[:]; d1[len(d1)-1] = Y; d1 = append(d1, X); d1[0] = X", "d1 = imm[1:]; splice(d1, 0, 1, X, Y)", "d1 = imm[:1]; d2 = append(d1, X); d2[0] = Y",
	"d1 = imm + immutable([X]); d1[0] = Y", "d1 = imm + immutable([]); d1[0] = Y; d1 = append(d1, X)", "d1 = immutable([X]) + imm; d1[1] = Y",
	"d1 = copy(imm); d1[0] = Y; d1.a = Y; d1[\"k\"] = X", "d1 = copy(imm); if is_array(d1[0]) { d1[0][0] = Y }; if is_map(d1.a) { d1.a.q = Y }; if is_array(d1.a) { d1.a[0] = Y }",
	"splice(imm, 0, 1)", "splice(imm)", "splice(imm, 0, 0, X)", "delete(imm, \"a\")", "delete(imm, \"k\")",
	"for k, v in imm { v = X; k = Y }", "for v in imm { if is_array(v) && len(v) > 0 { v[0] = X }; if is_map(v) { v.w = X } }", "for i, v in imm { imm[i] = X }",
	"f := func(a) { a[0] = X }; f(imm)", "f := func(a) { a.a = X; return a }; d1 = f(imm)", "f := func(a) { g := func() { a[0] = Y; a.k = Y }; g(); return a }; d1 = f(imm)",
	"f := func(...a) { a[0] = X; return a }; d1 = f(imm...); d1[0] = Y", "f := func(a, ...r) { r[0] = Y; return r }; d1 = f(imm...); splice(d1, 0)",
	"d1 = [imm, imm]; d1[0][0] = X; d1[1].a = X", "d2 = {x: imm}; d2.x[0] = X; d2.x.k = X; d2[\"x\"][\"a\"] = Y", "d1 = [imm]; d2 = copy(d1); d2[0][0] = X; d2[0].a = X",
	"d1 = immutable(imm); d1[0] = X", "d1 = freeze(imm); d1[0] = X; d1.a = X", "d1 = freeze(imm); d2 = append(d1, X); d2[0] = Y; d2[1] = Y", "d1 = freeze(imm); d2 = d1[:]; d2[0] = Y",
	"d1 = imm; d1 = append(d1, X); d1[0] = Y; d1 = d1[:0]; d1 = append(d1, Y)", "d3 = imm[0]; if is_array(d3) { d3[0] = X; d3 = append(d3, Y) }; if is_map(d3) { d3.q = Y; delete(d3, \"a\") }",
	"d3 = imm.a; if is_array(d3) { splice(d3, 0) }; if is_map(d3) { d3.a = X }", "d1 = string(imm); d2 = len(imm); d3 = imm == imm", "d1 = type_name(imm); d2 = is_immutable_array(imm) || is_immutable_map(imm)",
	"g := func(...a) { return a }; d1 = g(imm...); d1[0] = X", "d1 = {a: 0}; for k, v in imm { d1[k] = v }; d1.a = X", "imm.pi = 3", "imm.abs = X", "imm.__module_name__ = \"x\"",
}

// c09RandSliceOp: a slice of the immutable value with random bounds (empty, one element, the tail, the whole, bounds at
// and beyond the length) followed by a growing or writing operation on the slice; repeated so that spare capacity of the
// first result is what the second one writes into.
func c09RandSliceOp(r *rand.Rand) string {
	bound := func() string {
		return pick(r, []string{"", "0", "1", "2", "3", "len(imm)", "len(imm)-1", "len(imm)-2", "99", "-1"})
	}
	src := pick(r, []string{"imm", "imm", "imm", "freeze(imm)", "immutable(imm)", "imm[0]", "imm.a"})
	var sb strings.Builder
	sb.WriteString("d1 = " + src + "[" + bound() + ":" + bound() + "]; ")
	for i, n := 0, 1+r.Intn(3); i < n; i++ {
		sb.WriteString(pick(r, []string{"d1 = append(d1, X); ", "d2 = append(d1, Y); ", "d2 = append(d1, X, Y, X); ", "d1 = append(d1); ", "if len(d1) > 0 { d1[0] = Y }; ", "d1 = splice(d1, 0, 0, X); ",
			"splice(d1, 0, 0, Y, Y); ", "d2 = d1[:]; d2 = append(d2, X); ", "d1 = d1[:0]; d1 = append(d1, Y); ", "d2 = d1 + [X]; d2[0] = Y; ", "if len(d1) > 1 { d1[len(d1)-1] = X }; "}))
	}
	return sb.String()
}

func c09Subst(r *rand.Rand, op string) string {
	vals := []string{"99", "\"w\"", "[7, 8]", "{q: 1}", "undefined", "-1", "true"}
	op = strings.ReplaceAll(op, "X", pick(r, vals))
	op = strings.ReplaceAll(op, "Y", pick(r, vals))
	return op
}

const c09ModSrc = "cnt := 0\nexport {data: [1, [2, 3], {k: 4}], cfg: {a: {a: 1}, k: \"v\"}, a: [5, 6], k: 7, next: func() { cnt += 1; return cnt }}\n"

// freeze leaves error values as they are, so a container wrapped in an error stays mutable below a
// frozen value: exact inputs, listed as known findings
var c09ErrPayloadProbes = []struct{ name, src string }{
	{"array-in-error-in-array", `f := freeze([error([1])]); f[0].value[0] = 9; r := f[0].value[0]`},
	{"map-in-error-in-map", `f := freeze({e: error({a: 1})}); f.e.value.a = 2; r := f.e.value.a`},
}

func (c *c09) errPayloadProbes(r *fw.Rec) {
	for _, p := range c09ErrPayloadProbes {
		eng := runEngine([]byte(p.src), engineOpts{Budget: 100_000})
		r.Eval()
		r.Inc("freeze-error-payload-probes")
		if eng.Phase == "runtime-error" || (eng.Phase == "ok" && eng.Globals["r"] == "i1") {
			continue // the write failed, or left the frozen value unchanged
		}
		r.Violate("freeze:error-payload-mutable:"+p.name, "a write through an error value inside a frozen value succeeded and changed it",
			map[string]interface{}{"script": p.src, "outcome": eng.Phase + ": " + eng.Err, "value read back": eng.Globals["r"], "value frozen": "1"})
	}
}

// c09ExportShapes: module bodies whose export operand reaches the final instructions in different
// ways (conditional and short-circuit operands, operands whose last code byte has a particular value:
// 17 array elements, the 18th local), always yielding a container.
func c09ExportShapes() []string {
	locals := ""
	for i := 0; i < 17; i++ {
		locals += fmt.Sprintf("v%d := %d\n", i, i)
	}
	return []string{
		c09ModSrc,
		"a := [1, [2, 3], {k: 4}]\nb := {k: 7}\nc := true\nexport c ? a : immutable(b)\n",
		"a := [1, [2, 3], {k: 4}]\nb := {k: 7, a: [5]}\nc := false\nexport c ? immutable(a) : b\n",
		"a := {a: [5, 6], k: 7}\nexport a || immutable([])\n",
		"a := [0, [1]]\nexport a && [a, immutable(a)][0]\n",
		"export [1, 2, 3, 4, 5, 6, 7, 8, 9, 10, 11, 12, 13, 14, 15, 16, [17]]\n",
		locals + "v17 := [1, [2], {k: 3}]\nexport v17\n",
		locals + "v17 := {a: [1], k: 2}\nv18 := 0\nexport v17\n",
		"a := [1, 2, [3]]\nexport (func() { return a })()\n",
		"a := [1, 2, [3]]\nexport a[0:2] + [[9]]\n",
		"m := {a: {a: 1}, k: [1]}\nexport {a: m.a, k: m.k, data: [m]}\n",
	}
}

// cyclicFreeze: freeze applied to structures that contain themselves, also through shallow-immutable wrappers (an
// immutable array shares the storage of the array it was made from, so it can be made to contain itself). Nothing
// mutable may be reachable from the result, and a write through the result must fail. Only identity-safe observations
// are made (no rendering, copying or comparing of the cyclic values: see the C05 finding).
var c09CyclicFreeze = []struct{ src, write string }{
	{"a := [1, 2]; w := immutable([a]); a[1] = w; f := freeze(w)", "f[0][1][0][0] = 99"},
	{"a := [1, 2]; w := immutable([a]); a[1] = w; f := freeze(a)", "f[1][0][0] = 99"},
	{"a := [0]; i := immutable(a); a[0] = i; f := freeze(i)", "f[0][0] = 99"},
	{"m := {}; w := immutable({m: m}); m.w = w; f := freeze(w)", "f.m.w.m.z = 99"},
	{"m := {}; w := immutable({m: m}); m.w = w; f := freeze(m)", "f.w.m.z = 99"},
	{"a := [0]; b := {x: a}; w := immutable([b]); a[0] = w; f := freeze(w)", "f[0].x[0][0].y = 99"},
	{"a := [0, 0]; w1 := immutable([a]); w2 := immutable({k: w1}); a[0] = w2; a[1] = w1; f := freeze(w2)", "f.k[0][1][0][0] = 99"},
	{"a := [0]; a[0] = a; f := freeze(a)", "f[0][0] = 99"},
	{"a := {}; b := {p: a}; a.p = b; f := freeze(a)", "f.p.p.q = 99"},
	{"a := [0]; w := immutable({arr: a}); a[0] = [w, [w]]; f := freeze(w)", "f.arr[0][1][0].arr[0] = 99"},
}

func (c *c09) cyclicFreeze(r *fw.Rec) {
	for _, p := range c09CyclicFreeze {
		src := "f := undefined\nif step == 0 { " + strings.Replace(p.src, "f := ", "f = ", 1) + " }\nif step == 1 { " + p.write + " }\n"
		s := tengo.NewScript([]byte(src))
		_ = s.Add("step", 0)
		cp, err := s.Compile()
		detail := map[string]interface{}{"script": src}
		if err != nil {
			r.Inc("compile-error(harness):" + trunc(firstLine(err.Error()), 70))
			continue
		}
		if e := safely(func() error { return cp.RunContext(bg) }); e != nil {
			detail["error"] = e.Error()
			r.Violate("cyclic-freeze:failed", "freezing a structure that contains itself failed", detail)
			continue
		}
		r.Eval()
		f := cp.Get("f").Object()
		switch f.(type) {
		case *tengo.ImmutableArray, *tengo.ImmutableMap:
		default:
			detail["type"] = f.TypeName()
			r.Violate("cyclic-freeze:not-immutable", "the result of freeze is not of an immutable type", detail)
			continue
		}
		if where := mutableReachable(f, "f", map[tengo.Object]bool{}); where != "" {
			detail["reachable"] = where
			r.Violate("freeze:mutable-reachable", "a mutable container is reachable from the result of freeze", detail)
			continue
		}
		_ = cp.Set("step", 1)
		if e := safely(func() error { return cp.RunContext(bg) }); e == nil {
			detail["write"] = p.write
			r.Violate("cyclic-freeze:write-accepted", "a write through the result of freeze succeeded", detail)
			continue
		}
		r.Inc("cyclic-freeze-checked")
	}
}

func (c *c09) RunCase(r *fw.Rec, cs fw.Case) {
	if cs.Index == 0 {
		c.errPayloadProbes(r)
	}
	if cs.Index == 1 {
		c.cyclicFreeze(r)
	}
	rng := cs.Rng("c09")
	family := cs.Index % 6
	var init string
	deep := false
	desc := ""
	switch family {
	case 0, 1:
		isMap := rng.Intn(2) == 0
		init = "imm = immutable(" + c09Lit(rng, 1+rng.Intn(2), isMap, false) + ")"
		desc = "immutable-expr"
	case 2, 3:
		isMap := rng.Intn(2) == 0
		lit := c09Lit(rng, 1+rng.Intn(2), isMap, true)
		// no errors/functions inside frozen values: freeze leaves them as they are (identity-compared)
		init = "src = " + lit + "; imm = freeze(src)"
		if rng.Intn(3) == 0 {
			init = "src = immutable(" + lit + "); imm = freeze(src)"
		}
		deep = true
		desc = "freeze"
		switch rng.Intn(8) {
		case 0:
			// values that are already immutable at the top but not below it: module tables and look-alikes
			init = "src = immutable({__module_name__: \"m\", a: " + c09Lit(rng, 1, false, true) + ", k: " + c09Lit(rng, 1, true, true) + "}); imm = freeze(src)"
			desc = "freeze(module-like map)"
		case 1:
			init = "src = import(\"pmdata\"); imm = freeze(src)"
			desc = "freeze(source module)"
		case 2:
			init = "src = import(\"hostdata\"); imm = freeze(src)"
			desc = "freeze(host module)"
		}
	case 4:
		init = "imm = import(\"pm\")"
		desc = "module-export"
	default:
		init = "imm = import(\"math\")"
		desc = "builtin-module"
	}
	detail0 := ""
	nsteps := 3 + rng.Intn(10)
	var sb strings.Builder
	sb.WriteString("if step == -1 { " + init + "; eqf = (src == undefined) || (imm == src) }\n")
	var steps []string
	for i := 0; i < nsteps; i++ {
		op := c09Subst(rng, pick(rng, c09Ops))
		if rng.Intn(5) == 0 {
			op = c09Subst(rng, c09RandSliceOp(rng))
		}
		if deep && rng.Intn(4) == 0 {
			// writes to the freeze argument must stay invisible in the result
			op = pick(rng, []string{"if is_array(src) { src[0] = 123 }; if is_map(src) { src.a = 123 }", "if is_array(src) && is_array(src[0]) { src[0][0] = 77 }; if is_map(src) && is_map(src.a) { src.a.k = 77 }",
				"if is_array(src) { src = append(src, 1); splice(src, 0, 1) }", "if is_map(src) { delete(src, \"a\"); src.zz = [1] }"})
		}
		steps = append(steps, op)
		sb.WriteString(fmt.Sprintf("if step == %d { %s }\n", i, op))
	}
	src := sb.String()
	r.Logf("---- script ----\n%s", src)
	s := tengo.NewScript([]byte(src))
	for _, n := range []string{"imm", "src", "d1", "d2", "d3", "eqf"} {
		_ = s.Add(n, nil)
	}
	_ = s.Add("step", -1)
	mm := stdModules()
	pmSrc := c09ModSrc
	if family == 4 {
		pmSrc = pick(rng, c09ExportShapes())
		detail0 = pmSrc
	}
	mm.AddSourceModule("pm", []byte(pmSrc))
	mm.AddSourceModule("pmdata", []byte("export {data: [1, [2, 3], {k: 4}], cfg: {a: {a: 1}, k: \"v\"}, a: [5, 6], k: 7}\n"))
	ti := func(i int64) tengo.Object { return &tengo.Int{Value: i} }
	mm.AddBuiltinModule("hostdata", map[string]tengo.Object{
		"data": &tengo.Array{Value: []tengo.Object{ti(1), &tengo.Array{Value: []tengo.Object{ti(2), ti(3)}}, &tengo.Map{Value: map[string]tengo.Object{"k": ti(4)}}}},
		"cfg":  &tengo.Map{Value: map[string]tengo.Object{"a": &tengo.Map{Value: map[string]tengo.Object{"a": ti(1)}}, "k": &tengo.String{Value: "v"}}},
		"a":    &tengo.Array{Value: []tengo.Object{ti(5), ti(6)}},
		"k":    ti(7)})
	s.SetImports(mm)
	cp, err := s.Compile()
	if err != nil {
		r.Inc("compile-error(harness):" + trunc(firstLine(err.Error()), 70))
		r.Logf("compile error: %v", err)
		return
	}
	detail := map[string]interface{}{"script": src, "family": desc}
	if detail0 != "" {
		detail["module pm"] = detail0
	}
	if e := safely(func() error { return cp.RunContext(bg) }); e != nil {
		if p, ok := isPanic(e); ok {
			detail["stack"] = trunc(p.stack, 2000)
			r.Violate("panic:init", "creating the immutable value panicked", detail)
		} else {
			r.Inc("init-failed:" + trunc(firstLine(e.Error()), 50))
		}
		return
	}
	r.Eval()
	r.Inc("family:" + desc)
	imm := cp.Get("imm").Object()
	switch imm.(type) {
	case *tengo.ImmutableArray, *tengo.ImmutableMap:
	default:
		detail["type"] = imm.TypeName()
		r.Violate("not-immutable:"+desc, "the value is not of an immutable type after creation", detail)
		return
	}
	snap := c09Spine
	if deep {
		snap = c09Deep
	}
	first := snap(imm)
	firstStr := canon(imm)
	detail["snapshot_after_creation"] = first
	if deep {
		// freeze laws
		if eq := cp.Get("eqf").Object(); eq != tengo.TrueValue {
			detail["src"] = canon(cp.Get("src").Object())
			r.Violate("freeze:not-equal", "freeze(x) is not equal to x", detail)
			return
		}
		if p := mutableReachable(imm, "result", map[tengo.Object]bool{}); p != "" {
			detail["reachable"] = p
			r.Violate("freeze:mutable-reachable", "a mutable container is reachable from the result of freeze", detail)
			return
		}
		r.Inc("freeze-laws-checked")
	}
	ran := 0
	for i, op := range steps {
		_ = cp.Set("step", i)
		e := safely(func() error { return cp.RunContext(bg) })
		r.Eval()
		ran++
		if p, ok := isPanic(e); ok {
			detail["step"] = op
			detail["stack"] = trunc(p.stack, 2000)
			r.Violate("panic:step", "an operation on an immutable value panicked", detail)
			return
		}
		if e != nil {
			r.Inc("step:error")
		} else {
			r.Inc("step:ok")
		}
		cur := cp.Get("imm").Object()
		if cur != imm {
			detail["step"] = op
			r.Violate("rebound", "the global holding the immutable value was replaced (harness defect or engine wrote through a stale slot)", detail)
			return
		}
		if now := snap(cur); now != first {
			detail["step"] = op
			detail["step_index"] = i
			detail["steps_before"] = steps[:i]
			detail["error_of_step"] = fmt.Sprint(e)
			detail["snapshot_now"] = now
			detail["value_after_creation"] = firstStr
			detail["value_now"] = canon(cur)
			r.Violate("changed:"+desc+":"+c09OpKind(op), "an immutable value changed", detail)
			return
		}
	}
	if ran >= 4 {
		r.Distinct(src)
	}
	if r.WantSample() && ran >= 5 && len(src) < 900 {
		r.Sample(map[string]interface{}{"script": src, "family": desc, "steps_run": ran, "snapshot": first})
	}
}

func c09OpKind(op string) string {
	for _, k := range []string{"append", "splice", "delete", "copy", "freeze", "immutable(", "for ", "func", " + ", "[:", "[0:", "[1:"} {
		if strings.Contains(op, k) {
			return strings.Trim(k, " (")
		}
	}
	return "assign"
}

func (c *c09) Finish(m *fw.Merged, tier string) {
	for _, k := range []string{"family:immutable-expr", "family:freeze", "family:module-export", "family:builtin-module", "freeze-laws-checked", "cyclic-freeze-checked", "step:ok", "step:error"} {
		if m.Counters[k] == 0 {
			m.Fail("never observed: " + k)
		}
	}
}
