package props

import "testing"

func TestC08Compile(t *testing.T) {
	for _, f := range c08Families {
		if _, err := c08Compile(f); err != nil {
			t.Errorf("%s: %v", f.name, err)
		}
	}
}
