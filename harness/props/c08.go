package props

import (
	"context"
	"fmt"
	"math/rand"
	"runtime"
	"sort"
	"strings"
	"sync"
	"time"

	"github.com/anishathalye/porcupine"
	"github.com/d5/tengo/v2"

	"verif/fw"
)

// C08 — clones of a compiled script run concurrently without interference.
type c08 struct{}

func init() { fw.Register(&c08{}) }

func (*c08) ID() string    { return "C08" }
func (*c08) Level() string { return "exploration" }
func (*c08) NumCases(tier string) int {
	if tier == "thorough" {
		return 3000
	}
	return 200
}
func (*c08) Config(tier string) fw.Config {
	return fw.Config{CaseTimeout: 100 * time.Second, Env: []string{"GORACE=halt_on_error=1"}, Race: true, Workers: 8}
}
func (*c08) Rule() string {
	return "each case = one script family aimed at shared state (indexing/iterating shared string constants, run-time failures in main and in module files, builtin and source modules, closures, mutable array/map inputs, format (sync.Pool), comparing/copying shared constants) compiled once; " +
		"(1) 8 clones taken before any run (and, for scripts without closures in globals, after a run) execute 6 runs each on 8 goroutines with inputs unique per (clone, iteration); every result is compared with the sequential baseline of the same inputs; Set/Run on one clone must be invisible in the others and in the original; ReplaceBuiltinModule on one clone, on the original, or on a clone that has itself been cloned, races with the others running and must stay invisible to them; " +
		"(2) 4 clients issue random Set/Get/IsDefined/GetAll/Run/Clone calls on ONE Compiled; the history (call/return stamps from one monotonic clock, unique written values) is checked for linearizability against a sequential model with porcupine; " +
		"(3) the whole harness runs under the Go race detector with halt_on_error=1, so any unsynchronised access in tengo frames ends the worker and is reported with its stacks; yield points inside Clone widen interleavings. " +
		"distinct = distinct (family, seed); non-trivial = all concurrent cases"
}
func (*c08) Assumptions() []string {
	return []string{
		"the race detector and porcupine decide the interleavings that actually occurred (8 goroutines per worker on 16 cores, injected yields); nothing enumerates all interleavings",
		"a porcupine timeout is inconclusive",
		"clones taken after a run whose globals hold closures share the captured variables (known finding, probed separately and deterministically)",
	}
}

type c08Family struct {
	name     string
	src      string
	inputs   func(id int64) map[string]interface{} // unique per clone/iteration
	closures bool                                  // leaves closures in globals
	mods     bool
}

const c08Lib = "base := 10\nadd := func(a, b) { return a + b + base }\nboom := func(x) {\n  return x + \"s\" - 1\n}\nexport {add: add, boom: boom, name: \"lib\"}\n"

var c08Families = []c08Family{
	{"shared string constant (index, iterate, slice)", "s := \"héllo wörld, 日本語!\"\nout := [s[inp % 7], len(s), s[1:4]]\nfor i, c in s { if i == inp % 5 { out = append(out, c) } }\nt := \"héllo wörld, 日本語!\"[inp % 3]\n",
		func(id int64) map[string]interface{} { return map[string]interface{}{"inp": id} }, false, false},
	{"run-time failure in main / module files", "lib := import(\"lib\")\nout := inp\nif inp % 3 == 0 {\n  x := inp + \"a\" - 1\n} else if inp % 3 == 1 {\n  y := lib.boom(inp)\n}\nout = lib.add(inp, 1)\n",
		func(id int64) map[string]interface{} { return map[string]interface{}{"inp": id} }, false, true},
	{"builtin and source modules", "lib := import(\"lib\")\ntext := import(\"text\")\nmath := import(\"math\")\nout := [lib.add(inp, inp), text.to_upper(\"abc\" + inp), math.abs(-inp), lib.name, text.repeat(\"x\", inp % 4)]\n",
		func(id int64) map[string]interface{} { return map[string]interface{}{"inp": id} }, false, true},
	{"closures", "mk := func(n) { return func() { n += 1; return n } }\nc := mk(inp)\nout := [c(), c(), (func() { return inp * 2 })()]\n",
		func(id int64) map[string]interface{} { return map[string]interface{}{"inp": id} }, true, false},
	{"mutable input containers", "arr[0] = inp\narr = append(arr, inp)\nm.k = inp\nm.list[0] = inp\nout := [arr, m, len(arr)]\n",
		func(id int64) map[string]interface{} {
			return map[string]interface{}{"inp": id, "arr": []interface{}{0, 1}, "m": map[string]interface{}{"k": 0, "list": []interface{}{0}}}
		}, false, false},
	{"state inherited from the original (immutable and nested inputs set once)", "cfg.hits[inp % 3] += inp\nrows[0].id += 1\nrows[1][0] += inp\nout := [cfg.hits, rows, cfg.name]\n",
		func(id int64) map[string]interface{} { return map[string]interface{}{"inp": id} }, false, false},
	{"state inherited from the original (error values with mutable payloads)", "errs[0].value.n += inp\nerrs[1].value[0] += 1\nbox.e.value.k = inp\nout := [errs, box, is_error(errs[0])]\n",
		func(id int64) map[string]interface{} { return map[string]interface{}{"inp": id} }, false, false},
	{"state inherited from the original (empty containers filled by the run)", "seen[\"k\" + inp] = inp\nbag.items[\"i\" + inp] = [inp]\narr0 = append(arr0, inp)\nnest[0][\"n\"] = inp\nout := [len(seen), len(bag.items), len(arr0), nest]\n",
		func(id int64) map[string]interface{} { return map[string]interface{}{"inp": id} }, false, false},
	{"state inherited from the original (bytes filled in place by a host function)", "fill(buf, inp)\nfill(box.b, inp + 1)\nout := [buf, box.b, len(buf)]\n",
		func(id int64) map[string]interface{} { return map[string]interface{}{"inp": id} }, false, false},
	{"format and string building", "out := format(\"%d-%s-%v-%05d-%x\", inp, \"x\", [inp, \"s\"], inp, inp)\no2 := \"v=\" + inp + '-' + 1.5\n",
		func(id int64) map[string]interface{} { return map[string]interface{}{"inp": id} }, false, false},
	{"compare and copy shared constants", "k := [1, 2, [3, \"four\"], {a: 5.5}]\nout := [copy(k) == k, \"const\" == \"const\", k[2][1][inp % 4], immutable(k)[3].a + inp, 'c' + 1]\nfz := freeze(k)\n",
		func(id int64) map[string]interface{} { return map[string]interface{}{"inp": id} }, false, false},
	{"loops, arithmetic, maps", "out := 0\nm := {}\nfor i := 0; i < 20; i++ { out += i * inp; m[\"k\" + (i % 3)] = out }\nn := len(m)\nfor x in [1.5, 2.5] { out = out + int(x) }\n",
		func(id int64) map[string]interface{} { return map[string]interface{}{"inp": id} }, false, false},
}

func c08Compile(f c08Family) (*tengo.Compiled, error) {
	s := tengo.NewScript([]byte(f.src))
	for n, v := range f.inputs(0) {
		_ = s.Add(n, v)
	}
	if strings.HasPrefix(f.name, "state inherited from the original (immutable") {
		// set once on the original; every clone must get its own deep copy
		_ = s.Add("cfg", &tengo.ImmutableMap{Value: map[string]tengo.Object{"name": &tengo.String{Value: "cfg"},
			"hits": &tengo.Array{Value: []tengo.Object{&tengo.Int{Value: 0}, &tengo.Int{Value: 0}, &tengo.Int{Value: 0}}}}})
		_ = s.Add("rows", []interface{}{map[string]interface{}{"id": 1}, []interface{}{10, 20}})
	}
	if strings.HasPrefix(f.name, "state inherited from the original (bytes") {
		_ = s.Add("buf", make([]byte, 8))
		_ = s.Add("box", map[string]interface{}{"b": make([]byte, 4)})
		_ = s.Add("fill", &tengo.UserFunction{Name: "fill", Value: func(args ...tengo.Object) (tengo.Object, error) {
			// native code writing into the bytes value it was given (as rand.read or a file read does)
			if len(args) != 2 {
				return nil, tengo.ErrWrongNumArguments
			}
			b, ok1 := args[0].(*tengo.Bytes)
			n, ok2 := args[1].(*tengo.Int)
			if !ok1 || !ok2 {
				return nil, tengo.ErrInvalidArgumentType{Name: "first", Expected: "bytes", Found: args[0].TypeName()}
			}
			for i := range b.Value {
				b.Value[i] = byte(n.Value + int64(i))
			}
			return tengo.UndefinedValue, nil
		}})
	}
	if strings.HasPrefix(f.name, "state inherited from the original (empty") {
		_ = s.Add("seen", map[string]interface{}{})
		_ = s.Add("bag", map[string]interface{}{"items": map[string]interface{}{}})
		_ = s.Add("arr0", []interface{}{})
		_ = s.Add("nest", []interface{}{map[string]interface{}{}})
	}
	if strings.HasPrefix(f.name, "state inherited from the original (error") {
		mk := func(v tengo.Object) *tengo.Error { return &tengo.Error{Value: v} }
		_ = s.Add("errs", &tengo.Array{Value: []tengo.Object{
			mk(&tengo.Map{Value: map[string]tengo.Object{"n": &tengo.Int{Value: 0}}}),
			mk(&tengo.Array{Value: []tengo.Object{&tengo.Int{Value: 0}}})}})
		_ = s.Add("box", &tengo.Map{Value: map[string]tengo.Object{"e": mk(&tengo.Map{Value: map[string]tengo.Object{"k": &tengo.Int{Value: 0}}})}})
	}
	mm := stdModules()
	mm.AddSourceModule("lib", []byte(c08Lib))
	s.SetImports(mm)
	return s.Compile()
}

func c08RunOne(cp *tengo.Compiled, in map[string]interface{}) string {
	for n, v := range in {
		if err := cp.Set(n, v); err != nil {
			return "set-error: " + err.Error()
		}
	}
	err := cp.RunContext(bg)
	var sb strings.Builder
	if err != nil {
		sb.WriteString("error: " + err.Error() + "\n")
	}
	vars := cp.GetAll()
	sort.Slice(vars, func(i, j int) bool { return vars[i].Name() < vars[j].Name() })
	for _, v := range vars {
		sb.WriteString(v.Name() + "=" + canon(v.Object()) + ";")
	}
	return sb.String()
}

func (c *c08) isolationCase(r *fw.Rec, rng *rand.Rand, fam c08Family) {
	cp, err := c08Compile(fam)
	if err != nil {
		r.Inc("harness-compile-error")
		return
	}
	const K, iters = 8, 6
	afterRun := !fam.closures && rng.Intn(2) == 0
	if afterRun {
		_ = c08RunOne(cp, fam.inputs(7))
	}
	// the source of all clones in this case (kept untouched)
	ref := cp.Clone()
	want := make([][]string, K)
	origBefore := c08Snapshot(cp)
	clones := make([]*tengo.Compiled, K)
	// yields inside Clone widen the window in which globals are copied
	tengo.VerifYield = func(point string) {
		if point == "clone.copy_global" {
			runtime.Gosched()
		}
	}
	var wg sync.WaitGroup
	got := make([][]string, K)
	start := make(chan struct{})
	// where the builtin module is replaced: 0 = on a leaf clone, 1 = on the ORIGINAL while its clones run,
	// 2 = on a clone that has itself been cloned (its child must not notice)
	replaceOn := 0
	if fam.mods {
		replaceOn = rng.Intn(3)
	}
	replaced := map[string]tengo.Object{"abs": &tengo.UserFunction{Name: "abs", Value: func(args ...tengo.Object) (tengo.Object, error) {
		return &tengo.Float{Value: 12345}, nil
	}}}
	var cloned sync.WaitGroup // in mode 1 every clone is taken before the original is modified (a later clone would rightly inherit the replacement)
	cloned.Add(K)
	for i := 0; i < K; i++ {
		got[i] = make([]string, iters)
		wg.Add(1)
		go func(i int) {
			defer wg.Done()
			<-start
			clones[i] = cp.Clone() // clones are also TAKEN concurrently
			cloned.Done()
			if replaceOn == 1 {
				cloned.Wait()
			}
			for j := 0; j < iters; j++ {
				cl := clones[i]
				if j%5 == 4 {
					cl = clones[i].Clone() // a clone of a clone
					if fam.mods && i == 0 && replaceOn == 2 {
						clones[i].ReplaceBuiltinModule("math", replaced)
					}
				}
				if fam.mods && i == 0 && j%3 == 0 {
					switch replaceOn {
					case 0:
						// replacing a builtin module on one clone must not disturb the others
						cl.ReplaceBuiltinModule("math", replaced)
					case 1:
						cp.ReplaceBuiltinModule("math", replaced)
					}
				}
				got[i][j] = c08RunOne(cl, fam.inputs(int64(i*1000+j+1)))
			}
		}(i)
	}
	close(start)
	done := make(chan struct{})
	go func() { wg.Wait(); close(done) }()
	switch fw.WaitOrHang(done, 60*time.Second) {
	case "hang":
		r.Violate("isolation:deadlock:"+fam.name, "concurrent clone executions did not finish (blocked for 60 s, or 60 s of CPU time spent)", map[string]interface{}{"script": fam.src})
		panic("verif: worker abandoned after a hang")
	case "inconclusive":
		fw.AbandonInconclusive("concurrent clone executions had not finished after 1200 s on a loaded machine")
	}
	tengo.VerifYield = nil
	// sequential baseline AFTER the concurrent phase (so that lazily initialised
	// shared state is first touched concurrently): replay every clone's own
	// sequence of runs on clones of the untouched reference
	for i := 0; i < K; i++ {
		want[i] = make([]string, iters)
		bc := ref.Clone()
		for j := 0; j < iters; j++ {
			cl := bc
			if j%5 == 4 {
				cl = bc.Clone()
			}
			want[i][j] = c08RunOne(cl, fam.inputs(int64(i*1000+j+1)))
		}
	}
	r.EvalN(K * iters)
	r.Inc("concurrent-runs:" + fam.name)
	r.Count("clone-executions", K*iters)
	r.Distinct(fam.name, fmt.Sprint(rng.Int63()))
	detail := map[string]interface{}{"script": fam.src, "family": fam.name, "clones_after_a_run": afterRun}
	for i := 0; i < K; i++ {
		for j := 0; j < iters; j++ {
			w := want[i][j]
			if fam.mods && i == 0 && (replaceOn == 0 || (replaceOn == 2 && j > 4)) {
				continue // this clone runs with a replaced builtin module: only the others (and, in mode 2, its child) are compared
			}
			if got[i][j] != w {
				detail["clone"] = i
				detail["iteration"] = j
				detail["concurrent"] = trunc(got[i][j], 1500)
				detail["sequential"] = trunc(w, 1500)
				r.Violate("isolation:result:"+fam.name, "a clone running concurrently produced a result different from its sequential run with the same inputs", detail)
				return
			}
		}
	}
	if fam.mods {
		r.Inc(fmt.Sprintf("replace-builtin-module:mode%d", replaceOn))
	}
	if after := c08Snapshot(cp); after != origBefore {
		detail["original_before"] = trunc(origBefore, 1000)
		detail["original_after"] = trunc(after, 1000)
		r.Violate("isolation:original-changed:"+fam.name, "running clones changed the original compiled script", detail)
		return
	}
	if r.WantSample() {
		r.Sample(map[string]interface{}{"family": fam.name, "script": fam.src, "goroutines": K, "runs_per_clone": iters, "example_result": trunc(got[1][1], 300)})
	}
}

func c08Snapshot(cp *tengo.Compiled) string {
	vars := cp.GetAll()
	sort.Slice(vars, func(i, j int) bool { return vars[i].Name() < vars[j].Name() })
	var sb strings.Builder
	for _, v := range vars {
		sb.WriteString(v.Name() + "=" + canon(v.Object()) + ";")
	}
	return sb.String()
}

// ---- (2) linearizability of the API on one object

type c08Op struct {
	Kind string // set get run clone isdef
	Key  string
	Val  int64
}

type c08State struct{ a, b, out int64 } // -1 = undefined

func (c *c08) historyCase(r *fw.Rec, rng *rand.Rand) {
	s := tengo.NewScript([]byte("out = a * 1000 + b\n"))
	_ = s.Add("a", 1)
	_ = s.Add("b", 2)
	_ = s.Add("out", nil)
	cp, err := s.Compile()
	if err != nil {
		r.Inc("harness-compile-error")
		return
	}
	const clients, opsPer = 4, 14
	t0 := time.Now()
	var mu sync.Mutex
	var ops []porcupine.Operation
	var wg sync.WaitGroup
	nextVal := int64(10)
	var valMu sync.Mutex
	uniq := func() int64 { valMu.Lock(); defer valMu.Unlock(); nextVal++; return nextVal }
	seeds := make([]int64, clients)
	for i := range seeds {
		seeds[i] = rng.Int63()
	}
	readVar := func(x *tengo.Compiled, k string) int64 {
		v := x.Get(k)
		if v.IsUndefined() {
			return -1
		}
		return v.Int64()
	}
	for cl := 0; cl < clients; cl++ {
		wg.Add(1)
		go func(cl int) {
			defer wg.Done()
			lr := rand.New(rand.NewSource(seeds[cl]))
			for k := 0; k < opsPer; k++ {
				var in c08Op
				var out interface{}
				switch lr.Intn(9) {
				case 0, 1:
					in = c08Op{Kind: "set", Key: pick(lr, []string{"a", "b"}), Val: uniq()}
				case 2, 3, 4:
					in = c08Op{Kind: "get", Key: pick(lr, []string{"a", "b", "out"})}
				case 5, 6:
					in = c08Op{Kind: "run"}
				case 7:
					in = c08Op{Kind: "clone"}
				default:
					in = c08Op{Kind: "isdef", Key: pick(lr, []string{"out", "a", "nosuch"})}
				}
				call := time.Since(t0).Nanoseconds()
				switch in.Kind {
				case "set":
					out = cp.Set(in.Key, in.Val) == nil
				case "get":
					out = readVar(cp, in.Key)
				case "run":
					out = cp.RunContext(bg) == nil
				case "clone":
					x := cp.Clone()
					out = c08State{readVar(x, "a"), readVar(x, "b"), readVar(x, "out")}
				case "isdef":
					out = cp.IsDefined(in.Key)
				}
				ret := time.Since(t0).Nanoseconds()
				mu.Lock()
				ops = append(ops, porcupine.Operation{ClientId: cl, Input: in, Call: call, Output: out, Return: ret})
				mu.Unlock()
				if lr.Intn(3) == 0 {
					runtime.Gosched()
				}
			}
		}(cl)
	}
	wg.Wait()
	model := porcupine.Model{
		Init: func() interface{} { return c08State{1, 2, -1} },
		Step: func(st, in, out interface{}) (bool, interface{}) {
			s := st.(c08State)
			op := in.(c08Op)
			switch op.Kind {
			case "set":
				if op.Key == "a" {
					s.a = op.Val
				} else {
					s.b = op.Val
				}
				return out.(bool), s
			case "get":
				v := map[string]int64{"a": s.a, "b": s.b, "out": s.out}[op.Key]
				return out.(int64) == v, s
			case "run":
				s.out = s.a*1000 + s.b
				return out.(bool), s
			case "clone":
				return out.(c08State) == s, s
			case "isdef":
				want := false
				switch op.Key {
				case "a", "b":
					want = true
				case "out":
					want = s.out != -1
				}
				return out.(bool) == want, s
			}
			return false, s
		},
		Equal: func(a, b interface{}) bool { return a.(c08State) == b.(c08State) },
	}
	res := porcupine.CheckOperationsTimeout(model, ops, 20*time.Second)
	r.Eval()
	r.Inc("histories")
	r.Count("history-operations", int64(len(ops)))
	r.Distinct("history", fmt.Sprint(seeds))
	switch res {
	case porcupine.Unknown:
		r.Inconc("porcupine timeout")
	case porcupine.Illegal:
		var lines []string
		sort.Slice(ops, func(i, j int) bool { return ops[i].Call < ops[j].Call })
		for _, o := range ops {
			lines = append(lines, fmt.Sprintf("client %d [%d,%d] %+v -> %v", o.ClientId, o.Call, o.Return, o.Input, o.Output))
		}
		r.Violate("history:not-linearizable", "a history of Set/Get/IsDefined/Run/Clone calls on one compiled object is not linearizable", map[string]interface{}{"history": lines})
	default:
		r.Inc("histories-linearizable")
	}
}

// ---- (3) directed probe for the recorded finding: clones taken after a run share closure cells
func (c *c08) cloneAfterRunProbe(r *fw.Rec) {
	src := "mk := func() { n := 0; return func() { n += 1; return n } }\nif !is_callable(c) { c = mk() }\nout = c()\n"
	s := tengo.NewScript([]byte(src))
	_ = s.Add("c", nil)
	_ = s.Add("out", nil)
	cp, err := s.Compile()
	if err != nil {
		return
	}
	_ = cp.RunContext(bg) // the original now holds the closure (n == 1)
	a, b := cp.Clone(), cp.Clone()
	_ = a.RunContext(bg)
	_ = b.RunContext(bg)
	r.Eval()
	r.Inc("clone-after-run-probe")
	oa, ob := canon(a.Get("out").Object()), canon(b.Get("out").Object())
	if oa != "i2" || ob != "i2" {
		r.Violate("isolation:clone-after-run-shares-closure-cells", "clones taken after a run share the variables captured by closures held in the globals: running one clone is visible in the other",
			map[string]interface{}{"script": src, "history": "orig.Run(); a := orig.Clone(); b := orig.Clone(); a.Run(); b.Run()", "a.out": oa, "b.out": ob, "expected": "both 2 (each clone continues from the original's n == 1)"})
	}
}

// cancelStress: runs that are cut short by a deadline interleaved with API calls
// on the same object. After RunContext returned nothing may still execute.
func (c *c08) cancelStress(r *fw.Rec, rng *rand.Rand) {
	s := tengo.NewScript([]byte("n := 0\nfor i := 0; i < limit; i++ { n += 1; acc = n }\nout = n\n"))
	_ = s.Add("limit", 2000000)
	_ = s.Add("acc", 0)
	_ = s.Add("out", 0)
	cp, err := s.Compile()
	if err != nil {
		r.Inc("harness-compile-error")
		return
	}
	var wg sync.WaitGroup
	stop := make(chan struct{})
	wg.Add(2)
	go func() {
		defer wg.Done()
		for i := 0; i < 25; i++ {
			ctx, cancel := context.WithTimeout(context.Background(), time.Duration(50+rng.Intn(400))*time.Microsecond)
			_ = cp.RunContext(ctx)
			cancel()
			// the run is over: these calls must not overlap with a VM still executing
			_ = cp.Set("acc", -1)
			_ = cp.Get("acc")
			_ = cp.Clone()
		}
		close(stop)
	}()
	go func() {
		defer wg.Done()
		for {
			select {
			case <-stop:
				return
			default:
				_ = cp.Get("out")
				_ = cp.IsDefined("acc")
				_ = cp.GetAll()
				runtime.Gosched()
			}
		}
	}()
	wg.Wait()
	// a finite run afterwards must be exact
	_ = cp.Set("limit", 1000)
	if e := cp.RunContext(bg); e != nil || canon(cp.Get("out").Object()) != "i1000" {
		r.Violate("cancel-stress:stale", "after runs cut short by deadlines the compiled object does not run correctly", map[string]interface{}{"error": fmt.Sprint(e), "out": canon(cp.Get("out").Object())})
		return
	}
	r.Eval()
	r.Inc("cancel-stress")
	r.Distinct("cancel-stress", fmt.Sprint(rng.Int63()))
}

// finishRace: on every clone, runs whose context ends at the very moment the script finishes (the script's last act is a
// host call that ends its own context, so the result and ctx.Done() become ready together) alternate with ordinary runs.
// Whatever the racing call returns, the NEXT run of that clone and of every other clone must be exact: nothing of a
// cancellation that arrived too late may leak into another execution.
func (c *c08) finishRace(r *fw.Rec, rng *rand.Rand) {
	var mu sync.Mutex
	ctxs := map[int64]*manualCtx{}
	fire := &tengo.UserFunction{Name: "fire", Value: func(args ...tengo.Object) (tengo.Object, error) {
		if len(args) == 1 {
			if id, ok := args[0].(*tengo.Int); ok {
				mu.Lock()
				m := ctxs[id.Value]
				mu.Unlock()
				if m != nil {
					m.expire()
				}
			}
		}
		return tengo.UndefinedValue, nil
	}}
	src := "out = inp * 2 + 1\nif racing { fire(id) }\n"
	s := tengo.NewScript([]byte(src))
	_ = s.Add("inp", 0)
	_ = s.Add("out", 0)
	_ = s.Add("id", 0)
	_ = s.Add("racing", false)
	_ = s.Add("fire", fire)
	cp, err := s.Compile()
	if err != nil {
		r.Inc("harness-compile-error")
		return
	}
	const K, iters = 8, 10
	var wg sync.WaitGroup
	bad := make([]string, K)
	for i := 0; i < K; i++ {
		wg.Add(1)
		go func(i int) {
			defer wg.Done()
			cl := cp.Clone()
			for j := 0; j < iters; j++ {
				id := int64(i*1000 + j)
				m := &manualCtx{done: make(chan struct{})}
				mu.Lock()
				ctxs[id] = m
				mu.Unlock()
				_ = cl.Set("id", id)
				_ = cl.Set("racing", true)
				_ = cl.Set("inp", id)
				e := cl.RunContext(m)
				if e != nil && e != context.DeadlineExceeded {
					bad[i] = fmt.Sprintf("racing run %d returned %v", id, e)
					return
				}
				// an ordinary run right afterwards (on this clone; its siblings do the same at the same time)
				_ = cl.Set("racing", false)
				_ = cl.Set("inp", id+7)
				_ = cl.Set("out", -1)
				if e := cl.RunContext(bg); e != nil || canon(cl.Get("out").Object()) != fmt.Sprintf("i%d", (id+7)*2+1) {
					bad[i] = fmt.Sprintf("the run after racing run %d gave error=%v out=%s (want i%d)", id, e, canon(cl.Get("out").Object()), (id+7)*2+1)
					return
				}
			}
		}(i)
	}
	done := make(chan struct{})
	go func() { wg.Wait(); close(done) }()
	switch fw.WaitOrHang(done, 60*time.Second) {
	case "hang":
		r.Violate("finish-race:deadlock", "runs whose context ends as the script finishes did not all return", map[string]interface{}{"script": src})
		panic("verif: worker abandoned after a hang")
	case "inconclusive":
		fw.AbandonInconclusive("finish-race runs had not finished after 1200 s on a loaded machine")
	}
	r.EvalN(K * iters * 2)
	for i, b := range bad {
		if b != "" {
			r.Violate("finish-race:leak", "a cancellation that arrived as a run finished affected a later run", map[string]interface{}{"script": src, "clone": i, "what": b})
			return
		}
	}
	// the original must still be exact, too
	_ = cp.Set("inp", 20)
	if e := cp.RunContext(bg); e != nil || canon(cp.Get("out").Object()) != "i41" {
		r.Violate("finish-race:leak", "a cancellation that arrived as a clone's run finished affected the original", map[string]interface{}{"script": src, "error": fmt.Sprint(e), "out": canon(cp.Get("out").Object())})
		return
	}
	r.Inc("finish-race")
	r.Distinct("finish-race", fmt.Sprint(rng.Int63()))
}

func (c *c08) RunCase(r *fw.Rec, cs fw.Case) {
	rng := cs.Rng("c08")
	switch {
	case cs.Index == 0:
		c.cloneAfterRunProbe(r)
	case cs.Index%8 == 5:
		c.cancelStress(r, rng)
	case cs.Index%16 == 9:
		c.finishRace(r, rng)
	case cs.Index%4 == 3:
		for i := 0; i < 8; i++ {
			c.historyCase(r, rng)
		}
	default:
		c.isolationCase(r, rng, c08Families[(cs.Index/4)%len(c08Families)])
	}
}

func (c *c08) Finish(m *fw.Merged, tier string) {
	for _, k := range []string{"histories-linearizable", "clone-executions", "clone-after-run-probe", "cancel-stress", "finish-race", "replace-builtin-module:mode0", "replace-builtin-module:mode1", "replace-builtin-module:mode2"} {
		if m.Counters[k] == 0 {
			m.Fail("never observed: " + k)
		}
	}
	for _, f := range c08Families {
		if m.Counters["concurrent-runs:"+f.name] == 0 {
			m.Fail("family never run: " + f.name)
		}
	}
}
