package props

import (
	"errors"
	"fmt"
	"math/rand"
	"strings"

	"github.com/d5/tengo/v2"

	"verif/fw"
)

// C16 — self tail calls run in constant frame space at any depth.
type c16 struct{}

func init() { fw.Register(&c16{}) }

func (*c16) ID() string    { return "C16" }
func (*c16) Level() string { return "exploration" }
func (*c16) NumCases(tier string) int {
	if tier == "thorough" {
		return 30000
	}
	return 4000
}
func (*c16) Rule() string {
	return "each case = one generated self-recursive function: 1-6 parameters (optionally variadic), locals, parameter updates drawn from a menu of wrapping integer operations, closures capturing parameters in chosen iterations (called after the recursion ended), " +
		"and the self call in one syntactic position: must-tail (return f(..), return c && f(..), return c || f(..), inside if/else/for bodies, through an alias or a map field), must-not (operand, argument, array element, assigned then returned, followed by statements, left operand of &&), or free (ternary branches, call statement before the implicit return). " +
		"Depths 1, 2, 1023, 1024, 1025, 2049, 1e5, 1e6 for must-tail (non-tail classes below the frame limit). The result must equal the equivalent loop computed by the harness in Go; the VM probe records the maximum frame index: it must stay constant for must-tail and grow with the depth for must-not; " +
		"entry of a tail-recursive function from the last available frame is probed as well. distinct = distinct source; non-trivial = depth >= 1023 or closures captured"
}
func (*c16) Assumptions() []string {
	return []string{
		"the equivalent loop is computed by the harness with Go int64 arithmetic (wrapping), independently of the VM",
		"frame usage is observed through the build-tagged VM probe (frame index at every dispatched instruction)",
		"for the 'free' class only the value is judged",
	}
}

type c16Upd struct {
	text func(ps []string, i int) string          // tengo expression for the new value of parameter i
	eval func(vals []int64, n int64, i int) int64 // same in Go
}

var c16Upds = []c16Upd{
	{func(ps []string, i int) string { return ps[i] + " + n" }, func(v []int64, n int64, i int) int64 { return v[i] + n }},
	{func(ps []string, i int) string { return ps[i] + " ^ n" }, func(v []int64, n int64, i int) int64 { return v[i] ^ n }},
	{func(ps []string, i int) string { return ps[i] + " * 3 + 1" }, func(v []int64, n int64, i int) int64 { return v[i]*3 + 1 }},
	{func(ps []string, i int) string { return ps[(i+1)%len(ps)] }, func(v []int64, n int64, i int) int64 { return v[(i+1)%len(v)] }},
	{func(ps []string, i int) string { return ps[i] + " - " + ps[0] }, func(v []int64, n int64, i int) int64 { return v[i] - v[0] }},
	{func(ps []string, i int) string { return "(" + ps[i] + " << 1) | (n & 1)" }, func(v []int64, n int64, i int) int64 { return (v[i] << 1) | (n & 1) }},
	{func(ps []string, i int) string { return ps[i] }, func(v []int64, n int64, i int) int64 { return v[i] }},
}

type c16Shape struct {
	name  string
	class string // tail | nottail | free
	// call is the tengo code performing the recursive step given the call expression;
	// post(v) maps the recursive result r to this level's result (identity for tail)
	call func(callExpr string) string
	post func(r []int64) []int64
	// override: the canonical result when the shape does not return the accumulators (depth >= 1)
	override string
}

func idPost(r []int64) []int64 { return r }

// For non-tail shapes the function returns an array; the shapes combine the
// recursive result r (an array of the accumulators) element-wise.
var c16Shapes = []c16Shape{
	{"return f()", "tail", func(c string) string { return "return " + c }, idPost, ""},
	{"return true && f()", "tail", func(c string) string { return "return true && " + c }, idPost, ""},
	{"return n > 0 && f()", "tail", func(c string) string { return "return n > 0 && " + c }, idPost, ""},
	{"return false || f()", "tail", func(c string) string { return "return false || " + c }, idPost, ""},
	{"if/else return f()", "tail", func(c string) string { return "if n % 2 == 0 { return " + c + " } else { return " + c + " }" }, idPost, ""},
	{"for { return f() }", "tail", func(c string) string { return "for { return " + c + " }" }, idPost, ""},
	{"nested if return f()", "tail", func(c string) string { return "if n > 0 { if true { return " + c + " } }; return -1" }, idPost, ""},
	{"alias g := f; return g()", "free", func(c string) string { return "g := f; return g" + c[1:] }, idPost, ""},
	{"ternary false branch", "free", func(c string) string { return "return n < 0 ? [] : " + c }, idPost, ""},
	{"ternary true branch", "free", func(c string) string { return "return n > 0 ? " + c + " : []" }, idPost, ""},
	{"return [f()][0]", "nottail", func(c string) string { return "return [" + c + "][0]" }, idPost, ""},
	{"x := f(); return x", "nottail", func(c string) string { return "x := " + c + "; return x" }, idPost, ""},
	{"return id(f())", "nottail", func(c string) string { return "return id(" + c + ")" }, idPost, ""},
	{"return f() && true... array is truthy when non-empty", "nottail", func(c string) string { return "t := " + c + "; return t && t" }, idPost, ""},
	{"return f() + [] ", "nottail", func(c string) string { return "return " + c + " + []" }, idPost, ""},
	{"return f() || false", "nottail", func(c string) string { return "return " + c + " || false" }, idPost, ""},
	{"return f() && true", "nottail", func(c string) string { return "return " + c + " && true" }, idPost, "true"},
	{"return (f() || undefined) || false", "nottail", func(c string) string { return "return (" + c + " || undefined) || false" }, idPost, ""},
	{"return !!f()", "nottail", func(c string) string { return "return !!" + c }, idPost, "true"},
	{"f(); return fixed", "nottail-discard", func(c string) string { return "last = " + c + "; return last" }, idPost, ""},
}

func (c *c16) RunCase(r *fw.Rec, cs fw.Case) {
	rng := cs.Rng("c16")
	if cs.Index%25 == 24 {
		// the per-frame state of tail calls (a frame re-entered in place, the flag of a discarded self call) must not
		// survive into the next run of the same VM (see c07.go)
		vmReuseAfterAbort(r, rng)
		return
	}
	switch cs.Index % 8 {
	case 6:
		c.boundary(r, rng)
		return
	case 7:
		c.discarded(r, rng)
		return
	}
	np := 1 + rng.Intn(6)
	variadic := rng.Intn(4) == 0 && np >= 2
	ps := make([]string, np)
	for i := range ps {
		ps[i] = fmt.Sprintf("p%d", i)
	}
	upds := make([]c16Upd, np)
	for i := range upds {
		upds[i] = pick(rng, c16Upds)
	}
	shape := pick(rng, c16Shapes)
	if cs.Index/8 < len(c16Shapes) {
		shape = c16Shapes[cs.Index/8]
	}
	var depth int64
	capture := rng.Intn(3) == 0
	if shape.class == "tail" || shape.class == "free" {
		depth = pick(rng, []int64{1, 2, 50, 1023, 1024, 1025, 2049, 5000})
		if rng.Intn(8) == 0 {
			depth = 100000
		}
		if rng.Intn(40) == 0 {
			depth = 1000000
		}
		if shape.class == "free" && shape.name == "ternary true branch" {
			depth = pick(rng, []int64{1, 2, 50, 300}) // not a tail call: frames grow
		}
	} else {
		depth = pick(rng, []int64{1, 2, 10, 100, 300})
	}
	if shape.class != "tail" && !(shape.class == "free" && shape.name != "ternary true branch") {
		// frames grow: stay inside the operand stack (callee + arguments + locals per frame)
		if lim := int64(1700 / (np + 8)); depth > lim {
			depth = lim
		}
	}
	// source
	var sb strings.Builder
	sb.WriteString("out := []\nlast := undefined\nid := func(x) { return x }\n")
	params := "n, " + strings.Join(ps, ", ")
	if variadic {
		params = "n, " + strings.Join(ps[:np-1], ", ") + ", ..." + ps[np-1]
	}
	sb.WriteString("f := func(" + params + ") {\n")
	if variadic {
		// the variadic parameter arrives as an array holding the last accumulator
		sb.WriteString("  " + ps[np-1] + " = " + ps[np-1] + "[0]\n")
	}
	sb.WriteString("  if n == 0 { return [" + strings.Join(ps, ", ") + "] }\n")
	loc := rng.Intn(3)
	for i := 0; i < loc; i++ {
		sb.WriteString(fmt.Sprintf("  l%d := n * %d\n", i, i+2))
	}
	if rng.Intn(3) == 0 {
		// assignments through selectors on locals and parameters (their operands must leave the stack)
		sb.WriteString("  box := [0, 0, {k: 0}]\n  box[n % 2] = " + ps[0] + "\n  box[2].k = n\n  box[0] += 1\n")
		r.Inc("body:selector-assignments-on-locals")
	}
	every := depth/16 + 1
	if capture {
		// a closure created in this iteration captures the parameters of this iteration
		sb.WriteString(fmt.Sprintf("  if n %% %d == 0 { out = append(out, func() { return [n, %s] }) }\n", every, ps[0]))
	}
	args := []string{"n - 1"}
	for i := range ps {
		args = append(args, upds[i].text(ps, i))
	}
	call := "f(" + strings.Join(args, ", ") + ")"
	sb.WriteString("  " + shape.call(call) + "\n}\n")
	inits := make([]int64, np)
	var initS []string
	for i := range inits {
		inits[i] = int64(rng.Intn(200) - 100)
		initS = append(initS, fmt.Sprint(inits[i]))
	}
	sb.WriteString(fmt.Sprintf("res := f(%d, %s)\n", depth, strings.Join(initS, ", ")))
	sb.WriteString("caps := []\nfor fn in out { caps = append(caps, fn()) }\n")
	src := sb.String()
	r.Logf("---- source ----\n%s", src)
	// the equivalent loop
	vals := append([]int64{}, inits...)
	var wantCaps [][2]int64
	for n := depth; n > 0; n-- {
		if capture && n%every == 0 {
			wantCaps = append(wantCaps, [2]int64{n, vals[0]})
		}
		nv := make([]int64, np)
		for i := range nv {
			nv[i] = upds[i].eval(vals, n, i)
		}
		vals = nv
	}
	want := "["
	for i, v := range vals {
		if i > 0 {
			want += ","
		}
		want += fmt.Sprintf("i%d", v)
	}
	want += "]"
	wantC := "["
	for i, cpt := range wantCaps {
		if i > 0 {
			wantC += ","
		}
		wantC += fmt.Sprintf("[i%d,i%d]", cpt[0], cpt[1])
	}
	wantC += "]"
	// run under the frame probe
	maxFrame := 0
	eng := runEngine([]byte(src), engineOpts{Budget: 200_000_000, UserProbe: func(v *tengo.VM) {
		if fi := v.VerifFrameIndex(); fi > maxFrame {
			maxFrame = fi
		}
	}})
	r.Eval()
	r.Inc("class:" + shape.class)
	r.Inc(fmt.Sprintf("depth:%d", depth))
	detail := map[string]interface{}{"source": src, "shape": shape.name, "class": shape.class, "depth": depth, "engine": eng.Phase + ": " + eng.FullErr, "max_frame_index": maxFrame, "want": want}
	if eng.Phase == "aborted" {
		r.Inconc("instruction budget")
		return
	}
	if depth >= 1023 || capture {
		r.Distinct(src)
	}
	if eng.Phase != "ok" {
		r.Violate("fails:"+shape.class+":"+shape.name, "a self-recursive function failed where the equivalent loop completes", detail)
		return
	}
	got := eng.Globals["res"]
	if shape.override != "" && depth >= 1 {
		want = shape.override
		detail["want"] = want
	}
	detail["got"] = got
	if got != want {
		r.Violate("value:"+shape.class+":"+shape.name, "a self-recursive function returns a value different from the equivalent loop", detail)
		return
	}
	if capture {
		gc := eng.Globals["caps"]
		if gc != wantC {
			detail["captured_got"] = gc
			detail["captured_want"] = wantC
			r.Violate("captured-params:"+shape.class, "closures created in earlier iterations do not keep the parameter values of their iteration", detail)
			return
		}
		r.Inc("captures-checked")
	}
	switch shape.class {
	case "tail":
		// main + f (+ id/closure calls after the recursion): constant
		if maxFrame > 4 {
			r.Violate("frames-grow:"+shape.name, "a self call in tail position consumed frames", detail)
			return
		}
		r.Inc("constant-frames-checked")
	case "nottail", "nottail-discard":
		if int64(maxFrame) < depth+1 {
			r.Violate("treated-as-tail:"+shape.name, "a self call that is not in tail position did not get its own frame", detail)
			return
		}
		r.Inc("growing-frames-checked")
	}
	if r.WantSample() && depth >= 1023 {
		r.Sample(map[string]interface{}{"source": src, "depth": depth, "class": shape.class, "max_frame_index": maxFrame, "result": got})
	}
}

// boundary: a tail-recursive function entered from the last available frame.
func (c *c16) boundary(r *fw.Rec, rng *rand.Rand) {
	k := pick(rng, []int{1, 500, 1020, 1021, 1022, 1023, 1024})
	tailDepth := pick(rng, []int{1, 5, 3000})
	src := fmt.Sprintf(`k := %d
c := %d
tailz := func() { if c == 0 { return 7 }; c--; return tailz() }
res := undefined
down := func() { k--; if k == 0 { res = tailz(); return 0 }; down(); return 0 }
top := down()
`, k, tailDepth)
	maxFrame := 0
	eng := runEngine([]byte(src), engineOpts{Budget: 50_000_000, UserProbe: func(v *tengo.VM) {
		if fi := v.VerifFrameIndex(); fi > maxFrame {
			maxFrame = fi
		}
	}})
	r.Eval()
	r.Inc(fmt.Sprintf("boundary:k=%d", k))
	detail := map[string]interface{}{"source": src, "nested_calls": k, "tail_depth": tailDepth, "engine": eng.Phase + ": " + eng.FullErr, "max_frame_index": maxFrame}
	// frames needed: main + k frames of down + 1 frame of tailz  <= MaxFrames (1024)
	if k+2 <= tengo.MaxFrames {
		if eng.Phase != "ok" || eng.Globals["res"] != "i7" {
			r.Violate("boundary:fails", "a tail-recursive function entered within the frame limit did not complete", detail)
			return
		}
		if maxFrame != k+2 {
			r.Violate("boundary:frames", fmt.Sprintf("expected the frame index to peak at %d", k+2), detail)
			return
		}
		r.Inc("boundary-checked")
	} else {
		if eng.Phase != "runtime-error" || !errors.Is(eng.ErrVal, tengo.ErrStackOverflow) {
			r.Violate("boundary:no-overflow", "nesting beyond the frame limit did not end with the stack-overflow error", detail)
			return
		}
		r.Inc("overflow-checked")
	}
	r.Distinct(src)
}

// discarded: a self call statement before the implicit return runs in constant
// space but its value must not become the function's result.
func (c *c16) discarded(r *fw.Rec, rng *rand.Rand) {
	depth := pick(rng, []int{1, 2, 10, 1023, 1500, 100000})
	if rng.Intn(3) == 0 {
		c.mixedForms(r, rng)
		return
	}
	variant := rng.Intn(3)
	var body string
	switch variant {
	case 0:
		body = "if n == 0 { return 99 }; cnt++; f(n - 1)"
	case 1:
		// only the else-branch call is directly followed by the implicit return: frames may grow
		if depth > 200 {
			depth = 200
		}
		body = "if n == 0 { return 99 }; cnt++; if n % 2 == 0 { f(n - 1) } else { f(n - 1) }"
	default:
		body = "if n == 0 { return 99 }; cnt++; f(n - 1); return"
	}
	src := fmt.Sprintf("cnt := 0\nf := func(n) { %s }\nres := f(%d)\nres0 := f(0)\nisu := is_undefined(res)\n", body, depth)
	eng := runEngine([]byte(src), engineOpts{Budget: 50_000_000})
	r.Eval()
	r.Inc("discarded-call")
	detail := map[string]interface{}{"source": src, "engine": eng.Phase + ": " + eng.FullErr, "globals": eng.Globals}
	if eng.Phase != "ok" {
		if depth > 1000 {
			// constant space for this form is what the pinned test-suite asserts (TestTailCall)
			r.Violate("discarded:fails", "a self call statement before the implicit return did not complete at depth beyond the frame limit", detail)
		} else {
			r.Violate("discarded:fails-shallow", "a shallow recursion failed", detail)
		}
		return
	}
	if eng.Globals["res"] != "undef" || eng.Globals["res0"] != "i99" || eng.Globals["cnt"] != fmt.Sprintf("i%d", depth) {
		r.Violate("tail:discarded-call-value", "the value of a discarded self call became the function's result (or iterations were lost)", detail)
		return
	}
	r.Distinct(src)
}

// mixedForms: one function that calls itself as a discarded statement on some levels and as a returned tail call on
// others. A level in statement form yields undefined whatever the deeper levels return; a level in return form passes
// the deeper result on. So f(d) is the base value only if every level d..1 is in return form.
func (c *c16) mixedForms(r *fw.Rec, rng *rand.Rand) {
	m := 2 + rng.Intn(5)
	rem := rng.Intn(m)
	retForm := pick(rng, []string{"return f(n - 1)", "return true && f(n - 1)", "return false || f(n - 1)"})
	body := fmt.Sprintf("if n == 0 { return 99 }; cnt++; if n %% %d == %d { %s }; f(n - 1)", m, rem, retForm)
	if rng.Intn(2) == 0 {
		// statement form inside the branch, return form at the end
		body = fmt.Sprintf("if n == 0 { return 99 }; cnt++; if n %% %d != %d { f(n - 1); return }; %s", m, rem, retForm)
	}
	depths := []int{rng.Intn(4), 1 + rng.Intn(12), pick(rng, []int{m, 2 * m, 3*m + 1, 50, 1023, 1500, 30000})}
	var sb strings.Builder
	sb.WriteString("cnt := 0\nf := func(n) { " + body + " }\n")
	want := map[string]string{}
	total := 0
	for i, d := range depths {
		sb.WriteString(fmt.Sprintf("r%d := f(%d)\n", i, d))
		allReturn := true
		for n := d; n >= 1; n-- {
			if n%m != rem {
				allReturn = false
			}
		}
		want[fmt.Sprintf("r%d", i)] = map[bool]string{true: "i99", false: "undef"}[allReturn]
		total += d
	}
	want["cnt"] = fmt.Sprintf("i%d", total)
	src := sb.String()
	eng := runEngine([]byte(src), engineOpts{Budget: 50_000_000})
	r.Eval()
	r.Inc("discarded-call")
	r.Inc("mixed-forms")
	detail := map[string]interface{}{"source": src, "engine": eng.Phase + ": " + eng.FullErr, "globals": eng.Globals, "want": want}
	if eng.Phase != "ok" {
		r.Violate("mixed:fails", "a function mixing statement-form and return-form self calls did not complete", detail)
		return
	}
	for k, w := range want {
		if eng.Globals[k] != w {
			detail["variable"] = k
			r.Violate("tail:mixed-forms-value", "a function that calls itself both as a discarded statement and as a returned tail call returned the wrong value", detail)
			return
		}
	}
	r.Distinct(src)
}

func (c *c16) Finish(m *fw.Merged, tier string) {
	for _, k := range []string{"class:tail", "class:nottail", "class:free", "captures-checked", "constant-frames-checked", "growing-frames-checked", "boundary-checked", "overflow-checked", "discarded-call", "mixed-forms", "vm-reuse-reruns-checked", "depth:1024", "depth:100000"} {
		if m.Counters[k] == 0 {
			m.Fail("never observed: " + k)
		}
	}
}
