package props

import (
	"errors"
	"fmt"
	"math/rand"
	"regexp"
	"strings"

	"github.com/d5/tengo/v2"
	"github.com/d5/tengo/v2/parser"

	"verif/fw"
	"verif/gen"
)

// C04 — scanner, parser and compiler are total on arbitrary source bytes.
type c04 struct{}

func init() { fw.Register(&c04{}) }

func (*c04) ID() string    { return "C04" }
func (*c04) Level() string { return "exploration" }
func (*c04) NumCases(tier string) int {
	if tier == "thorough" {
		return 60000
	}
	return 5000
}
func (*c04) Config(tier string) fw.Config { return fw.Config{CaseTimeout: 90_000_000_000} }
func (*c04) Rule() string {
	return "each case = 40 inputs: valid generated programs, structure-aware mutations of them (token insertion/deletion/swap/duplication from the full token alphabet incl. every keyword and builtin name, unbalanced brackets, deep nesting), " +
		"raw bytes (NUL, BOM, invalid UTF-8, CR/LF mixes, unterminated strings/comments/escapes) and directed probes; each is fed to parser.ParseFile, Compiler.Compile+Bytecode+RemoveDuplicates, Script.Compile (with/without stdlib modules, 0/3/1000 predeclared variables incl. builtin names, file import on/off), as a module body through AddSourceModule, and behind imports of embedder-supplied Importables that return an object of every runtime type / source bytes / an error; " +
		"every entry point runs under recover (a panic is a violation), a per-case watchdog detects non-termination, and every position in a returned error is checked against an independently computed line table of the offending input. " +
		"distinct = distinct input bytes; non-trivial = input is rejected with a positioned error or compiles"
}
func (*c04) Assumptions() []string {
	return []string{
		"inputs are at most 64 KiB, except in the family of very large inputs (0.5-8 MB: deep nesting of every bracket/statement form, operator and postfix chains, runs of comments)",
		"non-termination is decided by the driver's watchdog (90 s without progress on one case of 40 inputs that normally take milliseconds)",
		"custom Importables that violate their interface contract (returning neither an Object nor []byte nor an error) are outside the claim",
	}
}

var c04TokenRe = regexp.MustCompile("(?s)`[^`]*`|\"(?:[^\"\\\\\n]|\\\\.)*\"|'(?:[^'\\\\\n]|\\\\.)*'|//[^\n]*|/\\*.*?\\*/|[A-Za-z_][A-Za-z0-9_]*|[0-9][0-9a-zA-Z_.]*|:=|\\.\\.\\.|&&|\\|\\||&\\^=|&\\^|<<=|>>=|<<|>>|[-+*/%&|^<>=!]=|\\+\\+|--|\\s+|.")

var c04Alphabet = func() []string {
	a := []string{"break", "continue", "else", "for", "func", "error", "immutable", "if", "return", "export", "true", "false", "in", "undefined", "import",
		"(", ")", "[", "]", "{", "}", ",", ";", ":", ":=", "=", ".", "...", "?", "+", "-", "*", "/", "%", "&", "|", "^", "&^", "<<", ">>", "&&", "||", "!", "==", "!=", "<", "<=", ">", ">=",
		"+=", "-=", "*=", "/=", "%=", "&=", "|=", "^=", "<<=", ">>=", "&^=", "++", "--", "\n", " ", "\t", "\r\n", "//c\n", "/*c*/", "/*", "*/", "\"", "'", "`", "\\",
		"x", "_", "a1", "1", "0", "1.5", "0x", "1e", "\"s\"", "'c'", "`r`", "\x00", "\xef\xbb\xbf", "\xff", "é", "日"}
	for _, f := range tengo.GetAllBuiltinFunctions() {
		a = append(a, f.Name)
	}
	return a
}()

var c04Directed = []string{
	// comments and raw strings containing carriage returns, terminated or not (the CR-stripping helper)
	"/**\r", "/**\r\r", "/*\r*\r", "a := 1 /* x\r*\r", "/* a\r*/", "/* a *\r/ */", "/*\r", "//\r", "// c\r\n/*\r*", "`\r", "`a\r`", "x := `a\r\nb\r`", "`\r`\r", "x := `\r", "/*\r*/ /**\r", "a /*\r*\r\r\r",
	"len = 5", "len++", "len += 1", "for { f := func() { break } }", "for { f := func() { continue } }", "for a, b, c in [1] {}", "for a, b, c, d in x {}", "for 1, 2 in x {}",
	"a, b := 1, 2", "a, b = 1", "a.b := 1", "1 = 2", "f() = 1", "x := x", "return 1", "export 1; export 2", "func() { export 1 }()", "import(\"\")", "import(\"nope\")", "import(1)", "import()",
	"x := import(\"self\")", "break", "continue", "if { }", "if ; { }", "if x := 1 { }", "for ; ; ; { }", "for x in { }", "func(", "func(a, a) {}", "func(...a, b) {}", "func(a..., b) {}", "a ? b", "a ? b : ",
	"{", "}", "(", ")", "[", "]", "[1,]", "{a:}", "{a: 1,}", "{1: 2}", "a.", "a.1", "a.func", "a[", "a[1", "a[:", "a[1:2:3]", "x := 1 +", "x := + + +", "x := !", "\"unterminated", "'", "''", "'ab'", "`raw",
	"/* open", "// only comment", "x := 0x", "x := 1e", "x := 1e+", "x := 0b2", "x := 08", "x := 99999999999999999999", "x := 1e999", "x := .", "x := ..", "x := ...", "x := 1..2",
	"\xef\xbb\xbfx := 1", "x := 1\xef\xbb\xbf", "x := \"a\x00b\"", "x := 1\x00", "\xff\xfe", "x := '\\u12'", "x := \"\\x\"", "x := \"\\q\"", "x := '\\''", "x := \"\\400\"",
	"error", "error(", "error()", "immutable", "immutable()", "immutable(1, 2)", "x := func() {}()()()", "x := [][][]", "x := {}.a.b.c", "a := 1; a := 2", "if true { a := 1; a := 2 }",
	"in", "x := in", "for in in in {}", "else", "if true {} else", "if true {} else if", "if true {} else 1", "true = false", "undefined = 1", "x := undefined()", "undefined++",
	strings.Repeat("(", 3000), strings.Repeat("[", 3000), strings.Repeat("{", 2000), strings.Repeat("-", 5000) + "1", strings.Repeat("!", 5000) + "x", "x := " + strings.Repeat("(", 2000) + "1" + strings.Repeat(")", 2000),
	"x := " + strings.Repeat("[", 500) + strings.Repeat("]", 500), "x := " + strings.Repeat("func() { return ", 300) + "1" + strings.Repeat(" }", 300), strings.Repeat("if true { ", 500) + strings.Repeat("}", 500),
	"x := " + strings.Repeat("1 + ", 5000) + "1", "x := " + strings.Repeat("a.", 2000) + "a", strings.Repeat("x := 1\n", 1030), strings.Repeat(";", 10000), strings.Repeat("\n", 20000),
	"x := 1 ? 2 : 3 ? 4 : 5 ?", "f(a...", "f(a..., b)", "f(...)", "x := a...", "x := [a...]", "func(a, ...b, c) {}", "func(a ...b) {}",
}

// checkPos validates one reported position against the offending text.
func checkPos(src []byte, wantFile string, file string, line, col, offset int, hasOffset bool) string {
	if file != wantFile {
		return fmt.Sprintf("file %q, expected %q", file, wantFile)
	}
	lines := strings.Split(string(src), "\n")
	if line < 1 || line > len(lines) {
		return fmt.Sprintf("line %d, input has %d lines", line, len(lines))
	}
	l := lines[line-1]
	start := 0
	for i := 0; i < line-1; i++ {
		start += len(lines[i]) + 1
	}
	// the end-of-file position after a trailing newline is reported as one
	// column past the newline of the last line (the line table, like go/token's,
	// has no entry for an empty last line): still inside [0, len(input)]
	eofAfterNewline := start+col-1 == len(src) && col == len(l)+2 && line == len(lines)-1
	if col < 1 || (col > len(l)+1 && !eofAfterNewline) {
		return fmt.Sprintf("column %d, line %d has %d bytes", col, line, len(l))
	}
	if hasOffset {
		if offset != start+col-1 || offset < 0 || offset > len(src) {
			return fmt.Sprintf("offset %d does not match line %d column %d (input %d bytes)", offset, line, col, len(src))
		}
	}
	return ""
}

// checkErrPositions returns a description of the first invalid position in err.
func checkErrPositions(err error, files map[string][]byte) string {
	var pe parser.ErrorList
	if errors.As(err, &pe) {
		for _, e := range pe {
			src, ok := files[e.Pos.Filename]
			if !ok {
				return fmt.Sprintf("parse error names file %q which is not an input", e.Pos.Filename)
			}
			if !e.Pos.IsValid() {
				return "parse error without a valid position: " + e.Msg
			}
			if p := checkPos(src, e.Pos.Filename, e.Pos.Filename, e.Pos.Line, e.Pos.Column, e.Pos.Offset, true); p != "" {
				return "parse error position: " + p + " (" + e.Msg + ")"
			}
		}
		return ""
	}
	var ce *tengo.CompilerError
	if errors.As(err, &ce) {
		pos := ce.FileSet.Position(ce.Node.Pos())
		src, ok := files[pos.Filename]
		if !ok {
			return fmt.Sprintf("compile error names file %q which is not an input (%s)", pos.Filename, ce.Err)
		}
		if !pos.IsValid() {
			return "compile error without a valid position: " + ce.Err.Error()
		}
		if p := checkPos(src, pos.Filename, pos.Filename, pos.Line, pos.Column, pos.Offset, true); p != "" {
			return "compile error position: " + p + " (" + ce.Err.Error() + ")"
		}
		return ""
	}
	return ""
}

func c04Mutate(r *rand.Rand, src string) string {
	toks := c04TokenRe.FindAllString(src, -1)
	if len(toks) == 0 {
		return pick(r, c04Alphabet)
	}
	n := 1 + r.Intn(3)
	for i := 0; i < n && len(toks) > 0; i++ {
		p := r.Intn(len(toks))
		switch r.Intn(6) {
		case 0:
			toks = append(toks[:p], toks[p+1:]...)
		case 1:
			toks = append(toks[:p], append([]string{pick(r, c04Alphabet)}, toks[p:]...)...)
		case 2:
			toks[p] = pick(r, c04Alphabet)
		case 3:
			q := r.Intn(len(toks))
			toks[p], toks[q] = toks[q], toks[p]
		case 4:
			toks = append(toks[:p], append([]string{toks[p]}, toks[p:]...)...)
		default:
			toks = toks[:p]
		}
	}
	return strings.Join(toks, "")
}

// c04ManyErrors builds inputs that make the scanner (or parser) report errors
// on many distinct lines, inside and outside comments / raw strings.
func c04ManyErrors(r *rand.Rand) string {
	bad := []string{"\x00", "\xff", "\xef\xbb\xbf", "#", "$", "@", "\xc0\xaf", "'", "\"", "0x", "1e", "'ab'", "\\"}
	n := 5 + r.Intn(30)
	open, close := pick(r, [][2]string{{"/*", "*/"}, {"`", "`"}, {"", ""}, {"//", ""}, {"x := [", "]"}, {"f(", ")"}})[0], ""
	switch open {
	case "/*":
		close = "*/"
	case "`":
		close = "`"
	case "x := [":
		close = "]"
	case "f(":
		close = ")"
	}
	var sb strings.Builder
	sb.WriteString(pick(r, []string{"", "", "x := 1\n", "\n\n"}))
	sb.WriteString(open)
	for i := 0; i < n; i++ {
		if open == "//" && i > 0 {
			sb.WriteString("//")
		}
		sb.WriteString(" " + pick(r, bad) + pick(r, []string{"", " ", ","}) + "\n")
	}
	sb.WriteString(close)
	sb.WriteString(pick(r, []string{"", " x := 1", "\ny := 2\n"}))
	return sb.String()
}

func c04Raw(r *rand.Rand) string {
	if r.Intn(3) == 0 {
		return c04ManyErrors(r)
	}
	n := r.Intn(60)
	var sb strings.Builder
	for i := 0; i < n; i++ {
		if r.Intn(3) == 0 {
			sb.WriteByte(byte(r.Intn(256)))
		} else {
			sb.WriteString(pick(r, c04Alphabet))
			if r.Intn(2) == 0 {
				sb.WriteByte(' ')
			}
		}
	}
	return sb.String()
}

type c04Outcome struct {
	panics   string
	stack    string
	badPos   string
	accepted bool
}

func (c *c04) tryAll(r *fw.Rec, rng *rand.Rand, src []byte) (viol string, detail map[string]interface{}) {
	detail = map[string]interface{}{"input": string(src), "input_hex": fmt.Sprintf("%x", trunc(string(src), 200))}
	files := map[string][]byte{"(main)": src}
	note := func(entry string, err error) string {
		if err == nil {
			r.Inc("accepted:" + entry)
			return ""
		}
		if p, ok := isPanic(err); ok {
			detail["entry"] = entry
			detail["panic"] = p.Error()
			detail["stack"] = trunc(p.stack, 3000)
			return "panic:" + entry + ":" + firstWord(p.Error())
		}
		r.Inc("rejected:" + entry)
		if bad := checkErrPositions(err, files); bad != "" {
			detail["entry"] = entry
			detail["error"] = err.Error()
			detail["bad_position"] = bad
			return "position:" + entry
		}
		return ""
	}
	// 1. parser alone
	var file *parser.File
	var sf *parser.SourceFile
	err := safely(func() error {
		fs := parser.NewFileSet()
		sf = fs.AddFile("(main)", -1, len(src))
		p := parser.NewParser(sf, src, nil)
		var e error
		file, e = p.ParseFile()
		return e
	})
	r.Eval()
	if v := note("ParseFile", err); v != "" {
		return v, detail
	}
	if err == nil && file != nil {
		// the printer must not panic on a parsed file either
		if e := safely(func() error { _ = file.String(); return nil }); e != nil {
			p, _ := isPanic(e)
			detail["entry"] = "File.String"
			detail["panic"] = p.Error()
			detail["stack"] = trunc(p.stack, 3000)
			return "panic:File.String", detail
		}
		// 2. compiler alone (+ Bytecode + RemoveDuplicates)
		err = safely(func() error {
			c := tengo.NewCompiler(sf, nil, nil, nil, nil)
			if e := c.Compile(file); e != nil {
				return e
			}
			bc := c.Bytecode()
			bc.RemoveDuplicates()
			return nil
		})
		r.Eval()
		if v := note("Compiler.Compile", err); v != "" {
			return v, detail
		}
	}
	// 3. Script.Compile under a random configuration
	cfgDesc := []string{}
	s := tengo.NewScript(src)
	switch rng.Intn(3) {
	case 0:
		s.SetImports(stdModules())
		cfgDesc = append(cfgDesc, "stdlib modules")
	case 1:
		mm := tengo.NewModuleMap()
		mm.AddSourceModule("self", src)
		mm.AddSourceModule("other", []byte("export {a: 1}"))
		mm.AddBuiltinModule("bm", map[string]tengo.Object{"v": &tengo.Int{Value: 1}})
		s.SetImports(mm)
		files["self"] = src
		files["other"] = []byte("export {a: 1}")
		cfgDesc = append(cfgDesc, "module map {self: the input itself, other, bm}")
	}
	switch rng.Intn(4) {
	case 0:
		for _, n := range []string{"x", "a1", "len"} {
			_ = s.Add(n, 1)
		}
		cfgDesc = append(cfgDesc, "3 variables (x, a1, len)")
	case 1:
		for i := 0; i < 1000; i++ {
			_ = s.Add(fmt.Sprintf("g%d", i), i)
		}
		cfgDesc = append(cfgDesc, "1000 variables")
	case 2:
		for i := 0; i < 1030; i++ {
			_ = s.Add(fmt.Sprintf("g%d", i), i)
		}
		cfgDesc = append(cfgDesc, "1030 variables")
	}
	if rng.Intn(4) == 0 {
		s.EnableFileImport(true)
		_ = s.SetImportDir("/nonexistent-verif-dir")
		cfgDesc = append(cfgDesc, "file import on")
	}
	if rng.Intn(5) == 0 {
		s.SetMaxConstObjects(rng.Intn(4))
		cfgDesc = append(cfgDesc, "max const objects small")
	}
	detail["configuration"] = cfgDesc
	err = safely(func() error { _, e := s.Compile(); return e })
	r.Eval()
	if v := note("Script.Compile", err); v != "" {
		return v, detail
	}
	// 4. as a module body
	mfiles := map[string][]byte{"(main)": []byte("m := import(\"mod\")\n"), "mod": src}
	files = mfiles
	ms := tengo.NewScript(mfiles["(main)"])
	mm := tengo.NewModuleMap()
	mm.AddSourceModule("mod", src)
	ms.SetImports(mm)
	err = safely(func() error { _, e := ms.Compile(); return e })
	r.Eval()
	if v := note("module body", err); v != "" {
		return v, detail
	}
	// 5. embedder-supplied Importables that hand back a ready-made object of any runtime type (or source bytes, or
	// an error): the imports are put in front of the input so that they are compiled whatever the input is
	if rng.Intn(6) == 0 {
		objs := c04ImportableObjects()
		mm := tengo.NewModuleMap()
		pre := ""
		n := 1 + rng.Intn(5)
		for i := 0; i < n; i++ {
			k := rng.Intn(len(objs))
			name := fmt.Sprintf("obj%d", k)
			mm.Add(name, c04Importable{objs[k]})
			switch rng.Intn(3) {
			case 0:
				pre += fmt.Sprintf("q%d := import(%q); ", i, name)
			case 1:
				pre += fmt.Sprintf("q%d := func() { return import(%q) }(); ", i, name)
			default:
				pre += fmt.Sprintf("q%d := [import(%q), import(%q)]; ", i, name, name)
			}
			r.Inc("importable-object:" + objs[k].TypeName())
		}
		mm.Add("srcbytes", c04Importable{[]byte("export {a: 1}")})
		mm.Add("failing", c04Importable{fmt.Errorf("importable failed")})
		if rng.Intn(2) == 0 {
			pre += "q9 := import(\"srcbytes\"); "
		}
		if rng.Intn(8) == 0 {
			pre += "q8 := import(\"failing\"); "
		}
		full := append([]byte(pre+"\n"), src...)
		files = map[string][]byte{"(main)": full, "srcbytes": []byte("export {a: 1}")}
		detail["importables_prefix"] = pre
		is := tengo.NewScript(full)
		is.SetImports(mm)
		err = safely(func() error { _, e := is.Compile(); return e })
		r.Eval()
		if v := note("custom Importables", err); v != "" {
			return v, detail
		}
	}
	return "", detail
}

// c04Importable is an embedder's own Importable: Import returns whatever it was given (an Object, source bytes, or an error).
type c04Importable struct{ v interface{} }

func (i c04Importable) Import(string) (interface{}, error) {
	if e, ok := i.v.(error); ok {
		return nil, e
	}
	return i.v, nil
}

func c04ImportableObjects() []tengo.Object {
	fn := &tengo.UserFunction{Name: "uf", Value: func(args ...tengo.Object) (tengo.Object, error) { return tengo.UndefinedValue, nil }}
	return []tengo.Object{
		&tengo.Map{Value: map[string]tengo.Object{"a": &tengo.Int{Value: 1}}},
		&tengo.ImmutableMap{Value: map[string]tengo.Object{"a": &tengo.Int{Value: 1}}},
		&tengo.ImmutableMap{Value: map[string]tengo.Object{"__module_name__": &tengo.String{Value: "named"}, "a": &tengo.Int{Value: 1}}},
		&tengo.Array{Value: []tengo.Object{&tengo.Int{Value: 1}}},
		&tengo.ImmutableArray{Value: []tengo.Object{&tengo.Int{Value: 1}}},
		&tengo.Int{Value: 7}, &tengo.Float{Value: 1.5}, &tengo.String{Value: "s"}, &tengo.Char{Value: 'c'}, &tengo.Bytes{Value: []byte("b")},
		tengo.TrueValue, tengo.FalseValue, tengo.UndefinedValue, &tengo.Time{}, &tengo.Error{Value: &tengo.String{Value: "e"}},
		fn, tengo.GetAllBuiltinFunctions()[0],
	}
}

// c04Huge: inputs of several megabytes whose nesting (or run of comments) is far deeper than any recursion budget.
// The 64 KiB bound of the other families does not apply here. Every entry point must come back with an error (or a
// result): an unbounded recursion shows as "fatal error: stack overflow" of the worker, which the driver reports.
func (c *c04) huge(r *fw.Rec, rng *rand.Rand) {
	n := 150000 + rng.Intn(250000)
	rep := strings.Repeat
	shapes := []struct{ name, src string }{
		{"parentheses", "x := " + rep("(", n) + "1" + rep(")", n)},
		{"array literals", "x := " + rep("[", n) + "1" + rep("]", n)},
		{"unclosed parentheses", "x := " + rep("(", n)},
		{"unclosed map literals", "x := " + rep("{a: ", n)},
		{"unary operators", "x := " + rep("- ", n) + "1"},
		{"not operators", "x := " + rep("!", n) + "true"},
		{"nested if", rep("if true { ", n/4) + "x := 1" + rep(" }", n/4)},
		{"else-if chain", rep("if false { } else ", n/2) + "{ x := 1 }"},
		{"nested function literals", "x := " + rep("func() { return ", n/4) + "1" + rep(" }", n/4)},
		{"nested calls", "x := " + rep("f(", n) + "1" + rep(")", n)},
		{"ternary chain", "x := " + rep("true ? 1 : ", n/2) + "1"},
		{"right-nested binary", "x := " + rep("1 + (", n/2) + "1" + rep(")", n/2)},
		{"left-deep binary chain", "x := 1" + rep(" + 1", n)},
		{"selector chain", "a := {}; x := a" + rep(".b", n/4)},
		{"index chain", "a := []; x := a" + rep("[0]", n/4)},
		{"call chain", "f := func() { return f }; x := f" + rep("()", n/4)},
		{"line comments", rep("//\n", 3*n) + "x := 1"},
		{"block comments", rep("/**/", 3*n) + "x := 1"},
		{"comments after a value", "x := 1" + rep(" //\n", 2*n)},
		{"nested for", rep("for { ", n/4) + "break" + rep(" }", n/4)},
		{"error(immutable(...))", "x := " + rep("error(immutable(", n/2) + "1" + rep("))", n/2)},
		{"import chain text", "x := " + rep("import(", n) + "\"m\"" + rep(")", n)},
	}
	sh := shapes[rng.Intn(len(shapes))]
	src := []byte(sh.src)
	detail := map[string]interface{}{"shape": sh.name, "repetitions": n, "input_bytes": len(src), "input_head": trunc(sh.src, 80)}
	for _, entry := range []string{"ParseFile", "Script.Compile", "module body"} {
		err := safely(func() error {
			switch entry {
			case "ParseFile":
				fs := parser.NewFileSet()
				sf := fs.AddFile("(main)", -1, len(src))
				_, e := parser.NewParser(sf, src, nil).ParseFile()
				return e
			case "Script.Compile":
				_, e := tengo.NewScript(src).Compile()
				return e
			default:
				ms := tengo.NewScript([]byte("m := import(\"mod\")\n"))
				mm := tengo.NewModuleMap()
				mm.AddSourceModule("mod", src)
				ms.SetImports(mm)
				_, e := ms.Compile()
				return e
			}
		})
		r.Eval()
		if p, ok := isPanic(err); ok {
			detail["entry"] = entry
			detail["panic"] = p.Error()
			detail["stack"] = trunc(p.stack, 3000)
			r.Violate("panic:huge:"+entry, "an entry point panicked on a very large input", detail)
			return
		}
		if err == nil {
			r.Inc("huge:accepted:" + entry)
		} else {
			r.Inc("huge:rejected:" + entry)
		}
	}
	r.Inc("huge-inputs")
	r.Inc("huge:" + sh.name)
	// reasonable depths must still be accepted
	for _, ok := range []string{"x := " + rep("(", 2000) + "1" + rep(")", 2000), rep("if true { ", 500) + "x := 1" + rep(" }", 500), "x := 1" + rep(" + 1", 5000), "x := " + rep("[", 1500) + "1" + rep("]", 1500)} {
		if _, e := tengo.NewScript([]byte(ok)).Compile(); e != nil {
			r.Violate("huge:reasonable-depth-rejected", "a program of moderate nesting depth is rejected", map[string]interface{}{"input_head": trunc(ok, 60), "error": trunc(e.Error(), 200)})
			return
		}
	}
	r.Distinct("huge", sh.name, fmt.Sprint(n))
}

func (c *c04) RunCase(r *fw.Rec, cs fw.Case) {
	rng := cs.Rng("c04")
	if cs.Index%250 == 249 {
		c.huge(r, rng)
		return
	}
	var base []string
	for i := 0; i < 3; i++ {
		opts := gen.Options{MaxStmts: 3 + rng.Intn(12), MaxDepth: 2 + rng.Intn(2), ControlHeavy: rng.Intn(3) == 0, ClosureHeavy: rng.Intn(3) == 0}
		base = append(base, gen.Generate(gen.New(rng, opts)).Src)
	}
	for k := 0; k < 40; k++ {
		var src string
		kind := ""
		di := cs.Index*40 + k
		switch {
		case di < len(c04Directed):
			src, kind = c04Directed[di], "directed"
		case k < 3:
			src, kind = base[k], "valid"
		case k < 28:
			src, kind = c04Mutate(rng, pick(rng, base)), "mutated"
			if rng.Intn(4) == 0 {
				src = c04Mutate(rng, src)
			}
		case k < 33:
			src, kind = c04Mutate(rng, pick(rng, c04Directed)), "mutated-directed"
		default:
			src, kind = c04Raw(rng), "raw"
		}
		if len(src) > 65536 {
			src = src[:65536]
		}
		r.Inc("input:" + kind)
		viol, detail := c.tryAll(r, rng, []byte(src))
		r.Distinct(src)
		if viol != "" {
			detail["kind"] = kind
			what := "an entry point panicked"
			if strings.HasPrefix(viol, "position") {
				what = "an error reports a position outside the offending input"
			}
			r.Violate(viol, what, detail)
			continue
		}
		if r.WantSample() && kind == "mutated" && len(src) < 200 {
			r.Sample(map[string]interface{}{"kind": kind, "input": src})
		}
	}
}

func (c *c04) Finish(m *fw.Merged, tier string) {
	for _, k := range []string{"input:valid", "input:mutated", "input:raw", "input:directed", "accepted:ParseFile", "rejected:ParseFile", "accepted:Script.Compile", "rejected:Script.Compile",
		"rejected:Compiler.Compile", "accepted:module body", "rejected:module body", "accepted:custom Importables", "rejected:custom Importables", "huge-inputs",
		"importable-object:map", "importable-object:array", "importable-object:int", "importable-object:undefined", "importable-object:user-function:uf"} {
		if m.Counters[k] == 0 {
			m.Fail("never observed: " + k)
		}
	}
}
