package props

import (
	"fmt"
	"math/rand"
	"sort"
	"strings"

	"github.com/d5/tengo/v2"
	"github.com/d5/tengo/v2/parser"

	"verif/fw"
	"verif/gen"
	"verif/ref"
)

// C03 — dead-code elimination never changes what a program does.
type c03 struct{}

func init() { fw.Register(&c03{}) }

func (*c03) ID() string    { return "C03" }
func (*c03) Level() string { return "translation_validation" }

// termination is not this property's claim (C04/C05 decide it): a case that exhausts the watchdog's
// CPU allowance is a generated program that is too expensive, counted as inconclusive
func (*c03) Config(tier string) fw.Config { return fw.Config{CrashInconclusive: true} }
func (*c03) NumCases(tier string) int {
	if tier == "thorough" {
		return 300000
	}
	return 16000
}
func (*c03) Rule() string {
	return "each case = one control-heavy generated program (return/break/continue mixed with loops, conditionals, &&/||/ternary, code after return; every defined function is called) " +
		"compiled twice in one process: optimized and with the keep-dead-code hook; both run under the VM probe and globals, full error text and every reported position are compared; " +
		"for every optimizeFunc invocation the hook hands over (original stream, position map, new stream, source maps) and the monitor recomputes CFG reachability and checks removed ∩ reachable = ∅, jump re-targeting, source-map transport and instruction order. " +
		"distinct = distinct source; non-trivial = the optimizer removed at least one instruction"
}
func (*c03) Assumptions() []string {
	return []string{
		"the keep-dead-code twin is produced by the same compiler with pass 2 of optimizeFunc disabled (hook verifKeepDeadCode); everything else is shared",
		"reachability is computed over the original instruction stream from offset 0 (jumps add edges, RET/SUSPEND end a path)",
		"programs whose result depends on map iteration order are not generated (map loops use order-independent bodies)",
	}
}

type optRecord struct {
	orig, opt      []byte
	posMap         map[int]int
	srcOld, srcNew map[int]parser.Pos
	appendReturn   bool
}

func readOperandsAt(ins []byte, i int) (op byte, operands []int, size int) {
	op = ins[i]
	widths := parser.OpcodeOperands[op]
	operands, n := parser.ReadOperands(widths, ins[i+1:])
	return op, operands, 1 + n
}

func isJump(op byte) bool {
	return op == parser.OpJump || op == parser.OpJumpFalsy || op == parser.OpAndJump || op == parser.OpOrJump
}

// checkOptRecord validates one optimizeFunc run; returns problems.
func checkOptRecord(rec optRecord) (problems []string, removed int) {
	orig := rec.orig
	// instruction starts of the original stream
	starts := map[int]bool{}
	var order []int
	for i := 0; i < len(orig); {
		_, _, sz := readOperandsAt(orig, i)
		starts[i] = true
		order = append(order, i)
		i += sz
	}
	// CFG reachability from 0
	reach := map[int]bool{}
	work := []int{0}
	for len(work) > 0 {
		i := work[len(work)-1]
		work = work[:len(work)-1]
		if i >= len(orig) || reach[i] {
			continue
		}
		if !starts[i] {
			problems = append(problems, fmt.Sprintf("original stream: control reaches offset %d which is not an instruction start", i))
			continue
		}
		reach[i] = true
		op, operands, sz := readOperandsAt(orig, i)
		switch op {
		case parser.OpReturn, parser.OpSuspend:
		case parser.OpJump:
			work = append(work, operands[0])
		case parser.OpJumpFalsy, parser.OpAndJump, parser.OpOrJump:
			work = append(work, operands[0], i+sz)
		default:
			work = append(work, i+sz)
		}
	}
	// removed ∩ reachable = ∅ ; order/content preserved
	lastNew := -1
	for _, i := range order {
		np, kept := rec.posMap[i]
		if !kept {
			removed++
			if reach[i] {
				problems = append(problems, fmt.Sprintf("instruction at %d (%s) is reachable in the original function but was removed", i, parser.OpcodeNames[orig[i]]))
			}
			continue
		}
		if np <= lastNew {
			problems = append(problems, fmt.Sprintf("position map is not increasing at %d -> %d", i, np))
		}
		lastNew = np
		if np >= len(rec.opt) {
			problems = append(problems, fmt.Sprintf("position map sends %d beyond the new stream (%d)", i, np))
			continue
		}
		op, operands, _ := readOperandsAt(orig, i)
		nop, noperands, _ := readOperandsAt(rec.opt, np)
		if op != nop {
			problems = append(problems, fmt.Sprintf("instruction %d changed opcode %s -> %s", i, parser.OpcodeNames[op], parser.OpcodeNames[nop]))
			continue
		}
		if isJump(op) {
			want, ok := rec.posMap[operands[0]]
			if !ok {
				if operands[0] == len(orig) {
					want = len(rec.opt)
					if !rec.appendReturn {
						problems = append(problems, fmt.Sprintf("jump at %d targets the function end but no return is appended", i))
					}
				} else {
					problems = append(problems, fmt.Sprintf("kept jump at %d targets removed offset %d", i, operands[0]))
					continue
				}
			}
			if noperands[0] != want {
				problems = append(problems, fmt.Sprintf("jump at %d (%s -> %d) is re-targeted to %d, image of its target is %d", i, parser.OpcodeNames[op], operands[0], noperands[0], want))
			}
		} else {
			for k := range operands {
				if operands[k] != noperands[k] {
					problems = append(problems, fmt.Sprintf("operand %d of instruction %d changed %d -> %d", k, i, operands[k], noperands[k]))
				}
			}
		}
	}
	// source map transport
	expectSrc := map[int]parser.Pos{}
	for p, sp := range rec.srcOld {
		if np, ok := rec.posMap[p]; ok {
			expectSrc[np] = sp
		}
	}
	for p, sp := range expectSrc {
		if got, ok := rec.srcNew[p]; !ok || got != sp {
			problems = append(problems, fmt.Sprintf("source map entry for new offset %d is %v, want %v", p, got, sp))
		}
	}
	for p := range rec.srcNew {
		if _, ok := expectSrc[p]; !ok {
			problems = append(problems, fmt.Sprintf("source map has an entry for new offset %d with no pre-image", p))
		}
	}
	sort.Strings(problems)
	return
}

func (c *c03) RunCase(r *fw.Rec, cs fw.Case) {
	rng := cs.Rng("c03")
	opts := gen.Options{MaxStmts: 4 + rng.Intn(16), MaxDepth: 2 + rng.Intn(3), ControlHeavy: true, CallDefined: true}
	if rng.Intn(4) == 0 {
		opts.ErrRate = 0.03
	}
	if rng.Intn(3) == 0 {
		opts.ClosureHeavy = true
	}
	var src, modSrc string
	switch {
	case cs.Index < len(c03Directed):
		src = c03Directed[cs.Index]
	case cs.Index < len(c03Directed)+len(c03DirectedMods):
		src, modSrc = "m := import(\"mod1\")\nout := m\n", c03DirectedMods[cs.Index-len(c03Directed)]
	case cs.Index%400 == 399:
		src = c03Big(rng)
		r.Inc("programs:function-larger-than-64KiB")
	case cs.Index%8 == 7:
		// the dead code sits in the top-level code of a module
		mo := opts
		mo.InModule, mo.ExportType, mo.ErrRate = true, gen.TInt, pick(rng, []float64{0, 0.05, 0.15})
		modSrc = gen.Generate(gen.New(rng, mo)).Src
		if rng.Intn(2) == 0 {
			modSrc = pick(rng, c03ModPrefixes) + modSrc
		}
		src = "m := import(\"mod1\")\nout := m\n"
		r.Inc("programs:module-body")
	default:
		src = gen.Generate(gen.New(rng, opts)).Src
	}
	r.Logf("---- source ----\n%s\n---- module ----\n%s\n----", src, modSrc)
	var refMods map[string]*ref.Module
	var mods *tengo.ModuleMap
	if modSrc != "" {
		refMods = map[string]*ref.Module{"mod1": {Src: []byte(modSrc)}}
		mods = tengo.NewModuleMap()
		mods.AddSourceModule("mod1", []byte(modSrc))
	}
	if len(src) < 100000 {
		if ok, why := modelSpecified(src, refMods, cs.Seed+int64(cs.Index)); !ok {
			r.Inc("discarded(unspecified):" + trunc(why, 50))
			return
		}
	}
	var recs []optRecord
	tengo.VerifOptimized = func(orig []byte, posMap map[int]int, opt []byte, so, sn map[int]parser.Pos, ar bool) {
		pm := make(map[int]int, len(posMap))
		for k, v := range posMap {
			pm[k] = v
		}
		cp := func(m map[int]parser.Pos) map[int]parser.Pos {
			o := make(map[int]parser.Pos, len(m))
			for k, v := range m {
				o[k] = v
			}
			return o
		}
		recs = append(recs, optRecord{append([]byte{}, orig...), append([]byte{}, opt...), pm, cp(so), cp(sn), ar})
	}
	defer func() { tengo.VerifOptimized = nil; tengo.VerifKeepDeadCode = false }()

	tengo.VerifKeepDeadCode = false
	optC, err1 := compileRaw([]byte(src), nil, mods)
	optRecs := recs
	recs = nil
	tengo.VerifKeepDeadCode = true
	keepC, err2 := compileRaw([]byte(src), nil, mods)
	keepRecs := recs
	tengo.VerifKeepDeadCode = false
	tengo.VerifOptimized = nil
	r.Eval()
	r.Inc("programs")
	detail := map[string]interface{}{"source": trunc(src, 3000)}
	if modSrc != "" {
		detail["module mod1"] = modSrc
	}
	if (err1 == nil) != (err2 == nil) || (err1 != nil && err1.Error() != err2.Error()) {
		detail["optimized_compile_error"] = fmt.Sprint(err1)
		detail["keepdead_compile_error"] = fmt.Sprint(err2)
		r.Violate("compile-differs", "compilation result differs between optimized and keep-dead builds", detail)
		return
	}
	if err1 != nil {
		if p, ok := isPanic(err1); ok {
			detail["stack"] = trunc(p.stack, 2500)
			r.Violate("compile-panic", "compiler panicked: "+p.Error(), detail)
		}
		r.Inc("compile-error")
		return
	}
	// (b) hooked tables
	totalRemoved := 0
	for i, rec := range optRecs {
		problems, removed := checkOptRecord(rec)
		totalRemoved += removed
		r.Inc("functions_checked")
		if len(problems) > 0 {
			detail["function_index"] = i
			detail["problems"] = problems
			detail["original"] = tengo.FormatInstructions(rec.orig, 0)
			detail["optimized"] = tengo.FormatInstructions(rec.opt, 0)
			r.Violate("optimizer-table:"+firstWord(problems[0]), "optimizer removed reachable code or mis-mapped a jump / source position", detail)
			return
		}
	}
	for _, rec := range keepRecs {
		if len(rec.posMap) != countInstr(rec.orig) {
			r.Violate("keepdead-hook", "keep-dead twin removed instructions (hook broken)", detail)
			return
		}
	}
	r.Count("instructions_removed", int64(totalRemoved))
	if totalRemoved > 0 {
		r.Distinct(src)
		r.Inc("programs_with_dead_code")
	}
	// (a) differential run
	a := runRaw(optC, optC.BC, 5_000_000, nil)
	b := runRaw(keepC, keepC.BC, 5_000_000, nil)
	r.EvalN(2)
	r.Inc("disagreements_checked")
	if a.Aborted || b.Aborted {
		r.Inconc("instruction budget")
		return
	}
	detail["optimized"] = map[string]interface{}{"error": a.ErrText, "globals": a.Globals}
	detail["keepdead"] = map[string]interface{}{"error": b.ErrText, "globals": b.Globals}
	if a.Panic != nil || b.Panic != nil {
		if a.Panic != nil {
			detail["stack"] = trunc(a.Panic.stack, 2500)
		} else {
			detail["stack"] = trunc(b.Panic.stack, 2500)
		}
		if (a.Panic != nil) != (b.Panic != nil) || a.ErrText != b.ErrText {
			r.Violate("run-panic-differs", "one build panics in the VM, the other does not", detail)
		} else {
			r.Inc("both-panic:" + trunc(a.ErrText, 50))
		}
		return
	}
	if a.ErrText != b.ErrText {
		r.Violate("error-differs", "optimized and unoptimized code report different errors / positions", detail)
		return
	}
	if a.ErrText != "" {
		r.Inc("runtime-error")
	}
	if d := globalsDiff(a.Globals, b.Globals); len(d) > 0 {
		detail["differences"] = d
		r.Violate("globals-differ", "optimized and unoptimized code compute different globals", detail)
		return
	}
	// the same pair under small allocation budgets: the limit error and its reported position must agree too
	if totalRemoved > 0 && (cs.Index%4 == 1 || cs.Index < len(c03Directed)) && len(src) < 20000 {
		for _, budget := range []int64{0, 1, 2, 3, 4, 6, 9, 14} {
			rawMaxAllocs = budget
			a2 := runRaw(optC, optC.BC, 2_000_000, nil)
			b2 := runRaw(keepC, keepC.BC, 2_000_000, nil)
			rawMaxAllocs = 3_000_000
			r.EvalN(2)
			r.Inc("alloc-budget-pairs")
			if a2.Aborted || b2.Aborted || a2.Panic != nil || b2.Panic != nil {
				continue
			}
			if a2.ErrText != b2.ErrText {
				detail["MaxAllocs"] = budget
				detail["optimized"] = map[string]interface{}{"error": a2.ErrText}
				detail["keepdead"] = map[string]interface{}{"error": b2.ErrText}
				r.Violate("error-differs:alloc-limit", "under an allocation budget optimized and unoptimized code report different errors / positions", detail)
				return
			}
		}
	}
	if r.WantSample() && totalRemoved > 3 && len(src) < 700 {
		r.Sample(map[string]interface{}{"source": src, "instructions_removed": totalRemoved, "error": a.ErrText})
	}
}

func firstWord(s string) string {
	for i, c := range s {
		if c == ' ' && i > 8 {
			return s[:i]
		}
	}
	return s
}

func countInstr(ins []byte) int {
	n := 0
	for i := 0; i < len(ins); {
		_, _, sz := readOperandsAt(ins, i)
		i += sz
		n++
	}
	return n
}

// module bodies with eliminated top-level code followed by a failure at the top level of the module
var c03DirectedMods = []string{
	"a := 1\nif a == 2 {\n  export 5\n  a = 3\n}\nb := a + \"x\" - 1\nexport b\n",
	"f := func(x) { return x }\nfor i := 0; i < 3; i++ {\n  if i == 1 {\n    continue\n    i = 7\n  }\n}\nc := [1][f(4)]\nexport c\n",
	"cfg := {}\nif is_undefined(cfg.k) {\n  cfg.k = 1\n} else {\n  return 0\n  cfg.k = 2\n}\n\n\nv := cfg.k.z.w + 1\nexport v\n",
}

// prefixes that put removable code in front of a generated module body
var c03ModPrefixes = []string{
	"p0 := 1\nif p0 == 2 {\n  return 5\n  p0 = 3\n}\n",
	"for p1 := 0; p1 < 2; p1++ {\n  if p1 == 0 { continue; p1 = 9 }\n  break\n  p1 = 5\n}\n",
	"p2 := func() { return 1; return 2 }\nif p2() == 7 {\n  export 1\n  p2 = undefined\n} else {\n}\n",
}

// c03Big: one function whose instruction stream is longer than 64 KiB, so that jump operands no
// longer fit 16 bits; returns, breaks and short-circuit jumps sit on both sides of the boundary.
func c03Big(r *rand.Rand) string {
	var sb strings.Builder
	n := 7300 + r.Intn(900) // 9 bytes per filler statement
	sb.WriteString("f := func(x, y) {\n  a := 0\n")
	head := r.Intn(3)
	if head == 1 {
		sb.WriteString("  for i := 0; i < 2; i++ {\n")
	} else if head == 2 {
		sb.WriteString("  if x {\n")
	}
	for i := 0; i < n; i++ {
		sb.WriteString("  a += 1\n")
		if i == n/2 && r.Intn(2) == 0 {
			sb.WriteString("  if y == 1 { return a; a = -1 }\n")
		}
	}
	if head == 1 {
		sb.WriteString("    if y == 2 { break; a = -2 }\n  }\n")
	} else if head == 2 {
		sb.WriteString("  } else {\n    a = 5\n  }\n")
	}
	sb.WriteString(pick(r, []string{
		"  if x { return 1; a = 7 } else { return 2 }\n  return 3\n",
		"  b := x && (y || a)\n  if b { return b }\n  return a > 5 ? a : -a\n  a = 0\n",
		"  for { if a > 10 { break; a = 0 }; a++; if a == 3 { continue; a = 100 } }\n  return x ? a : y\n",
		"  if y == 3 { return a + \"s\" - 1 }\n  return a\n  return 0\n",
	}))
	sb.WriteString("}\nout := [f(true, 0), f(false, 0), f(true, 1), f(false, 2), f(0, 3)]\n")
	return sb.String()
}

var c03Directed = []string{
	"f := func(stop) {\n  for {\n    if stop { break }\n    return 0\n    stop = \"never\"\n  }\n  return []\n}\nout := f(true)",
	"f := func(stop) {\n  for {\n    if stop { break }\n    return 0\n    stop = \"never\"\n  }\n  m := {}\n  return m\n}\nout := f(true)",
	"h := func(n) {\n  for i := 0; i < n; i++ {\n    if i > 5 { break }\n    continue\n    n = 0\n  }\n  []\n  return {}\n}\nout := h(2)",
	"k := func(c) {\n  if c {\n    c = 1\n  } else {\n    return 2\n    c = 3\n  }\n  {}\n  x := []\n  return x\n}\nout := k(true)",
	"f := func(n) {\n  for i := 0; i < n; i++ {\n    if i == 1 {\n      return i\n      i = 9\n    }\n  }\n  m := {}\n  a := []\n  return [m, a]\n}\nr := f(0)\ns := f(3)",
	"g := func(c) {\n  if c {\n    return 1\n    c = 2\n  } else {\n    c = 3\n  }\n  []\n  x := {}\n  return x\n}\nr := [g(false), g(true)]",
	"f := func(a, b) { if a { return 1 } else { return 2 }; x := a || b; return x }\nr1 := f(true, 0); r2 := f(false, 0)",
	"f := func(a, b) { if a > 0 { return a }; for i := 0; i < 3; i++ { if i == b { return i; b = 99 } ; continue; a = 5 }; return a || b }\nr := [f(1, 2), f(0, 1), f(0, 7), f(-1, 0)]",
	"f := func(x) { return x; for { x++ }; return x && 1 }\nr := f(3)",
	"f := func(x) { for { if x > 3 { break; x = 0 }; x++; if x == 2 { continue; x = 100 } }; return x > 3 ? x : -1 }\nr := [f(0), f(9)]",
	"f := func(x) { if x { return 1 + \"a\" }; return x.y.z; return 1 }\nr := f(0)\nq := f(1)",
	"f := func(a) { g := func() { return a; a = 2 }; if a { return g() } else { return g() || 7 }; return 0 }\nr := [f(0), f(5)]",
	"f := func(a) { return a ? (a > 1 ? 2 : 1) : 0; a = a && a }\nr := [f(0), f(1), f(2)]",
	"f := func(n) {\n  if n == 0 {\n    return 0\n    n = 1\n  }\n  x := n || 5\n  y := [1][n]\n  return y.z + 1\n}\nr := f(0)\ns := f(3)",
}

func (c *c03) Finish(m *fw.Merged, tier string) {
	for _, k := range []string{"programs", "functions_checked", "programs_with_dead_code", "disagreements_checked", "runtime-error"} {
		if m.Counters[k] == 0 {
			m.Fail("never observed: " + k)
		}
	}
}
