package props

import (
	"fmt"
	"math/rand"
	"os"
	"os/exec"
	"path/filepath"
	"sort"
	"strings"
	"time"

	"github.com/d5/tengo/v2"

	"verif/fw"
	"verif/gen"
	"verif/ref"
)

// C13 — modules are isolated, immutable to importers, and acyclic.
type c13 struct{}

func init() { fw.Register(&c13{}) }

func (*c13) ID() string    { return "C13" }
func (*c13) Level() string { return "exploration" }
func (*c13) NumCases(tier string) int {
	if tier == "thorough" {
		return 200000
	}
	return 12000
}
func (*c13) Config(tier string) fw.Config { return fw.Config{CaseTimeout: 25 * time.Second} }
func (*c13) Rule() string {
	return "families by case index: (1) import graphs — all digraphs on <= 3 modules exhaustively, random ones on 4-7 (chains, diamonds, self-loops, long cycles, cycles unreachable from main), imports at top level / inside functions / inside dead branches; " +
		"Script.Compile must succeed exactly when no cycle is reachable from main (independent DFS) and every reachable module must appear exactly once in the compiled file set; (2) module values — generated module bodies (exports of every type, no export, stateful counters, top-level return) imported once or several times and used by a generated main program, compared with the reference interpreter incl. write attempts on the imported value; " +
		"(3) isolation probes in both directions (also through closures and nested modules); (4) one syscall-monitor run per check: a helper process compiles path-like import names under strace -f -e trace=%file with file import disabled (no syscall may mention a canary path; compile must fail with 'module not found') and enabled (positive control: the canaries are opened). " +
		"distinct = distinct (graph | program); non-trivial = at least 2 modules involved"
}
func (*c13) Assumptions() []string {
	return []string{
		"cycle reachability is computed by the harness (DFS over the generated graph), independently of the compiler",
		"module value semantics come from the reference interpreter (fresh environment with builtins only, export => shallow immutable, no export => undefined, body re-run per evaluated import)",
		"the syscall monitor needs strace (pre-installed); if strace cannot attach the family is reported inconclusive, not held",
	}
}

// ---- family 1: graphs

type c13Graph struct {
	n     int
	edges [][]int // module i imports edges[i]
	main  []int   // modules imported by main
}

func (g c13Graph) cyclicFromMain() (bool, map[int]bool) {
	reach := map[int]bool{}
	state := map[int]int{} // 1 on stack, 2 done
	cyc := false
	var dfs func(i int)
	dfs = func(i int) {
		if state[i] == 1 {
			cyc = true
			return
		}
		if state[i] == 2 {
			return
		}
		state[i] = 1
		reach[i] = true
		for _, j := range g.edges[i] {
			dfs(j)
		}
		state[i] = 2
	}
	for _, m := range g.main {
		dfs(m)
	}
	return cyc, reach
}

func c13GraphFromBits(n int, bits uint64) c13Graph {
	g := c13Graph{n: n, edges: make([][]int, n)}
	k := uint(0)
	for i := 0; i < n; i++ {
		for j := 0; j < n; j++ {
			if bits&(1<<k) != 0 {
				g.edges[i] = append(g.edges[i], j)
			}
			k++
		}
	}
	for i := 0; i < n; i++ {
		if bits&(1<<k) != 0 {
			g.main = append(g.main, i)
		}
		k++
	}
	return g
}

func (c *c13) graphCase(r *fw.Rec, rng *rand.Rand, idx int) {
	var g c13Graph
	switch {
	case idx < 4: // n=1: 1 edge bit + 1 main bit
		g = c13GraphFromBits(1, uint64(idx))
	case idx < 4+64: // n=2: 4+2 bits
		g = c13GraphFromBits(2, uint64(idx-4))
	case idx < 4+64+4096: // n=3: 9+3 bits
		g = c13GraphFromBits(3, uint64(idx-68))
	default:
		n := 4 + rng.Intn(4)
		g = c13Graph{n: n, edges: make([][]int, n)}
		shape := rng.Intn(5)
		for i := 0; i < n; i++ {
			for j := 0; j < n; j++ {
				p := 0.15
				switch shape {
				case 0: // mostly forward (DAG-ish)
					if j <= i {
						p = 0.03
					} else {
						p = 0.4
					}
				case 1: // chain with a possible back edge
					p = 0
					if j == i+1 {
						p = 1
					} else if i == n-1 && rng.Intn(2) == 0 && j == rng.Intn(n) {
						p = 1
					}
				case 2: // dense
					p = 0.35
				case 3: // diamond-like
					if j > i {
						p = 0.6
					} else {
						p = 0
					}
				}
				if rng.Float64() < p {
					g.edges[i] = append(g.edges[i], j)
				}
			}
		}
		for i := 0; i < n; i++ {
			if rng.Intn(3) == 0 || (i == 0 && rng.Intn(4) != 0) {
				g.main = append(g.main, i)
			}
		}
	}
	// sources; module names are opaque keys of the embedder's module map, so
	// path-like and non-canonical spellings are used as well
	mm := tengo.NewModuleMap()
	var desc []string
	scheme := rng.Intn(8)
	modName := func(j int) string {
		switch scheme {
		case 6:
			// pairs of distinct modules whose names differ only by a spelling a path cleaner would remove
			if j%2 == 1 {
				return fmt.Sprintf("./m%d", j-1)
			}
			return fmt.Sprintf("m%d", j)
		case 7:
			if j%2 == 1 {
				return fmt.Sprintf("lib//m%d", j-1)
			}
			return fmt.Sprintf("lib/m%d", j)
		case 1:
			return fmt.Sprintf("./m%d", j)
		case 2:
			return fmt.Sprintf("pkg/../m%d", j)
		case 3:
			return fmt.Sprintf("m%d/", j)
		case 4:
			if j%2 == 0 {
				return fmt.Sprintf("./m%d", j)
			}
			return fmt.Sprintf("m%d", j)
		case 5:
			return fmt.Sprintf("/abs/dir/m%d.tengo", j)
		}
		return fmt.Sprintf("m%d", j)
	}
	imp := func(j int, rng *rand.Rand) string {
		name := modName(j)
		switch rng.Intn(4) {
		case 0:
			return fmt.Sprintf("i%d := import(\"%s\")\n", j, name)
		case 1:
			return fmt.Sprintf("f%d := func() { return import(\"%s\") }\n", j, name)
		case 2:
			return fmt.Sprintf("if false { d%d := import(\"%s\") }\n", j, name)
		default:
			return fmt.Sprintf("a%d := [import(\"%s\"), import(\"%s\")]\n", j, name, name)
		}
	}
	for i := 0; i < g.n; i++ {
		var sb strings.Builder
		for _, j := range g.edges[i] {
			sb.WriteString(imp(j, rng))
		}
		sb.WriteString(fmt.Sprintf("export {id: %d}\n", i))
		mm.AddSourceModule(modName(i), []byte(sb.String()))
		desc = append(desc, fmt.Sprintf("m%d->%v", i, g.edges[i]))
	}
	var msb strings.Builder
	for _, j := range g.main {
		msb.WriteString(imp(j, rng))
	}
	msb.WriteString("done := 1\n")
	desc = append(desc, fmt.Sprintf("main->%v", g.main))
	wantCycle, reach := g.cyclicFromMain()
	s := tengo.NewScript([]byte(msb.String()))
	s.SetImports(mm)
	var cp *tengo.Compiled
	err := safely(func() error {
		var e error
		cp, e = s.Compile()
		return e
	})
	r.Eval()
	r.Inc("graphs")
	if wantCycle {
		r.Inc("graphs:cyclic")
	} else {
		r.Inc("graphs:acyclic")
	}
	gd := strings.Join(desc, " ")
	if g.n >= 2 {
		r.Distinct("graph", gd)
	}
	detail := map[string]interface{}{"graph": gd, "main": msb.String(), "cycle_reachable_from_main": wantCycle, "module_name_scheme": modName(0)}
	if p, ok := isPanic(err); ok {
		detail["stack"] = trunc(p.stack, 2500)
		r.Violate("graph:panic", "compilation of an import graph panicked: "+p.Error(), detail)
		return
	}
	if wantCycle {
		if err == nil {
			r.Violate("graph:cycle-accepted", "an import cycle reachable from main was accepted", detail)
			return
		}
		if !strings.Contains(err.Error(), "cyclic module import") {
			detail["error"] = err.Error()
			r.Violate("graph:cycle-wrong-error", "an import cycle was rejected with an unrelated error", detail)
		}
		return
	}
	if err != nil {
		detail["error"] = err.Error()
		r.Violate("graph:acyclic-rejected", "an import graph without a reachable cycle was rejected", detail)
		return
	}
	// every reachable module exactly once in the file set
	count := map[string]int{}
	for _, f := range cp.VerifBytecode().FileSet.Files {
		count[f.Name]++
	}
	var problems []string
	for i := 0; i < g.n; i++ {
		n := count[modName(i)]
		if reach[i] && n != 1 {
			problems = append(problems, fmt.Sprintf("module m%d reachable from main was compiled %d times", i, n))
		}
		if !reach[i] && n != 0 {
			problems = append(problems, fmt.Sprintf("module m%d is not reachable from main but was compiled", i))
		}
	}
	if len(problems) > 0 {
		detail["problems"] = problems
		r.Violate("graph:compiled-count", "a module reached by several paths is not compiled exactly once", detail)
		return
	}
	if err := safely(func() error { return cp.RunContext(bg) }); err != nil {
		detail["error"] = err.Error()
		r.Violate("graph:run-error", "an acyclic import graph failed at run time", detail)
	}
}

// ---- family 2: module values against the reference interpreter

func (c *c13) valueCase(r *fw.Rec, rng *rand.Rand, cs fw.Case) {
	et := pick(rng, []gen.T{gen.TInt, gen.TStr, gen.TArrI, gen.TArr, gen.TMap, gen.TMap, gen.TFn0, gen.TFn1, gen.TImmArr, gen.TBytes, gen.TErr, gen.TUndef, gen.TFloat})
	mopts := gen.Options{MaxStmts: 2 + rng.Intn(8), MaxDepth: 2, InModule: true, ExportType: et, ClosureHeavy: rng.Intn(3) == 0}
	body := gen.Generate(gen.New(rng, mopts)).Src
	switch rng.Intn(8) {
	case 6, 7: // every syntactic form of export operand that can yield a container
		body = "a := [1, 2]\nb := [3]\nc := undefined\nd := {k: 1, data: [4, [5]]}\nf := func() { return d }\ncond := " + pick(rng, []string{"true", "false"}) + "\nexport " +
			pick(rng, []string{"a + b", "b + a + b", "c || d", "d && a", "c || a", "(a + b)", "cond ? a : d", "!cond ? (a + b) : (c || d)", "a[0:1]", "a[:]", "f()", "[a, d][cond ? 0 : 1]", "{x: a, y: d}.y", "{x: a}.x",
				"immutable(a)", "(func() { return a + b })()", "d.data", "d.data[1] + a", "-a[0]", "a + []", "c && d || a"}) + "\n"
	case 0: // no export
		body = strings.Replace(body, "\nexport ", "\nunused := ", 1)
		if strings.HasPrefix(body, "export ") {
			body = "unused := " + body[len("export "):]
		}
	case 1: // stateful counter
		body = "n := 0\nexport {next: func() { n += 1; return n }, peek: func() { return n }, data: [1, [2, 3]], cfg: {k: \"v\"}}\n"
	case 2: // top-level return instead of export
		body = "r := [1, 2, 3]\nreturn r\n"
	case 3: // nested module
		body = "inner := import(\"inner\")\nexport {v: inner.v + 1, inner: inner}\n"
	}
	mods := map[string]*ref.Module{"mod": {Src: []byte(body)}, "inner": {Src: []byte("c := 10\nexport {v: c, bump: func() { c += 1; return c }}\n")}}
	emods := tengo.NewModuleMap()
	for n, m := range mods {
		emods.AddSourceModule(n, m.Src)
	}
	uses := []string{
		"m := import(\"mod\")\nm2 := import(\"mod\")\nsame := m == m2\ntn := type_name(m)\n",
		"m := import(\"mod\")\nt := type_name(m)\nim := is_immutable_map(m) || is_immutable_array(m)\n",
		"m := import(\"mod\")\na := is_callable(m.next) ? [m.next(), m.next(), m.peek()] : undefined\nm2 := import(\"mod\")\nb := is_callable(m2.peek) ? m2.peek() : undefined\n",
		"m := import(\"mod\")\nm.newkey = 1\n",
		"m := import(\"mod\")\nm[0] = 1\n",
		"m := import(\"mod\")\nif is_immutable_map(m) && is_array(m.data) { m.data[0] = 99; m.data[1][0] = 98 }\nm3 := import(\"mod\")\nfresh := is_immutable_map(m3) ? m3.data : undefined\n",
		"f := func() { return import(\"mod\") }\nx := f()\ny := f()\nxs := is_callable(x) ? [x(), x()] : (is_callable(x.next) ? [x.next(), y.next()] : [x, y])\n",
		"m := import(\"mod\")\nc := copy(m)\nif is_map(c) { c.added = 1 }\nn1 := is_map(c) ? len(c) : -1\nn2 := is_immutable_map(m) ? len(m) : -1\n",
		"m := import(\"mod\")\nfor k, v in (is_immutable_map(m) && len(m) < 2 ? m : {}) { kk := k }\ns := is_immutable_map(m) ? m.inner : undefined\nb := is_immutable_map(s) && is_callable(s.bump) ? [s.bump(), s.bump()] : 0\ni2 := import(\"inner\")\nv2 := i2.v\n",
	}
	mopts2 := gen.Options{MaxStmts: 1 + rng.Intn(5), MaxDepth: 2}
	main := pick(rng, uses) + gen.Generate(gen.New(rng, mopts2)).Src
	r.Inc("module-values")
	r.Logf("---- main ----\n%s\n---- mod ----\n%s", main, body)
	var c1 c01
	feat := map[string]int{}
	before := len(r.Violations)
	c1.compare(r, cs, main, func() map[string]ref.Value { return nil }, feat, mods, emods)
	if len(r.Violations) > before {
		v := &r.Violations[len(r.Violations)-1]
		if d, ok := v.Detail.(map[string]interface{}); ok {
			d["module_source"] = body
		}
		v.Sig = "module-value:" + v.Sig
		v.Property = "C13"
	}
}

// ---- family 3: isolation probes

type c13Iso struct {
	name   string
	main   string
	mods   map[string]string
	expect string // substring of the expected compile error, or "ok:<var>=<canon>"
}

var c13IsoProbes = []c13Iso{
	{"module reads importer's variable", "secret := 42\nm := import(\"a\")\n", map[string]string{"a": "export secret\n"}, "unresolved reference 'secret'"},
	{"module writes importer's variable", "secret := 42\nm := import(\"a\")\n", map[string]string{"a": "secret = 1\nexport 1\n"}, "unresolved reference 'secret'"},
	{"module closure reads importer's variable", "secret := 42\nm := import(\"a\")\n", map[string]string{"a": "export func() { return secret }\n"}, "unresolved reference 'secret'"},
	{"importer reads module-internal variable", "m := import(\"a\")\nx := hidden\n", map[string]string{"a": "hidden := 7\nexport {}\n"}, "unresolved reference 'hidden'"},
	{"importer function reads module-internal variable", "m := import(\"a\")\nf := func() { return hidden }\n", map[string]string{"a": "hidden := 7\nexport {}\n"}, "unresolved reference 'hidden'"},
	{"module reads importing function's local", "f := func() { loc := 1; return import(\"a\") }\nx := f()\n", map[string]string{"a": "export loc\n"}, "unresolved reference 'loc'"},
	{"nested module reads outer module's variable", "m := import(\"a\")\n", map[string]string{"a": "av := 1\nb := import(\"b\")\nexport b\n", "b": "export av\n"}, "unresolved reference 'av'"},
	{"sibling modules do not share variables", "a := import(\"a\")\nb := import(\"b\")\n", map[string]string{"a": "shared := 1\nexport shared\n", "b": "export shared\n"}, "unresolved reference 'shared'"},
	{"same name in importer and module are different variables", "x := 1\nm := import(\"a\")\ny := x\nz := m\n", map[string]string{"a": "x := 100\nx += 1\nexport x\n"}, "ok:y=i1;z=i101"},
	{"module may shadow a builtin at its top level", "m := import(\"a\")\nn := len([1,2])\n", map[string]string{"a": "len := 5\nexport len\n"}, "ok:m=i5;n=i2"},
	{"module sees builtins", "m := import(\"a\")\n", map[string]string{"a": "export len([1,2,3])\n"}, "ok:m=i3"},
	{"module does not see importer's host variables", "m := import(\"a\")\n", map[string]string{"a": "export hostvar\n"}, "unresolved reference 'hostvar'"},
	{"export inside function is rejected", "m := import(\"a\")\n", map[string]string{"a": "f := func() { export 1 }\n"}, "export not allowed inside function"},
	{"import value is immutable at top level", "m := import(\"a\")\nm.k = 2\n", map[string]string{"a": "export {k: 1}\n"}, "run:not index-assignable: immutable-map"},
	{"exported array is immutable", "m := import(\"a\")\nm[0] = 2\n", map[string]string{"a": "export [1]\n"}, "run:not index-assignable: immutable-array"},
	{"each evaluation runs the body afresh", "a := import(\"a\")\nb := import(\"a\")\nr := [a(), a(), b()]\n", map[string]string{"a": "n := 0\nexport func() { n += 1; return n }\n"}, "ok:r=[i1,i2,i1]"},
	{"no export yields undefined", "m := import(\"a\")\nu := is_undefined(m)\n", map[string]string{"a": "x := 1\n"}, "ok:u=true"},
	{"top-level return instead of export", "m := import(\"a\")\nok := is_undefined(m) || is_immutable_array(m)\n", map[string]string{"a": "r := [1, 2, 3]\nreturn r\n"}, "ok:ok=true"},
	{"unknown module", "m := import(\"nope\")\n", map[string]string{"a": "export 1\n"}, "module 'nope' not found"},
	{"empty module name", "m := import(\"\")\n", map[string]string{}, "empty module name"},
}

// c13ObjImporter is an embedder's own Importable handing out a ready-made object.
type c13ObjImporter struct{ o tengo.Object }

func (m c13ObjImporter) Import(string) (interface{}, error) { return m.o, nil }

// objectModules: several modules supplied as plain immutable maps (no module-name entry) through
// the embedder's own Importable; every import must yield its own module's table.
func (c *c13) objectModules(r *fw.Rec, rng *rand.Rand) {
	names := []string{"colors", "shapes", "wrap", "empty"}
	tables := map[string]map[string]tengo.Object{
		"colors": {"red": &tengo.Int{Value: 1}, "list": &tengo.Array{Value: []tengo.Object{&tengo.String{Value: "r"}}}},
		"shapes": {"sq": &tengo.Int{Value: 4}},
		"wrap":   {"inner": &tengo.ImmutableMap{Value: map[string]tengo.Object{"v": &tengo.String{Value: "b"}}}},
		"empty":  {},
	}
	rng.Shuffle(len(names), func(i, j int) { names[i], names[j] = names[j], names[i] })
	mm := tengo.NewModuleMap()
	for _, n := range names {
		mm.Add(n, c13ObjImporter{&tengo.ImmutableMap{Value: tables[n]}})
	}
	mm.AddSourceModule("user", []byte("s := import(\"shapes\")\nc := import(\"colors\")\nexport {sq: s.sq, red: c.red}\n"))
	var sb strings.Builder
	for i, n := range names {
		sb.WriteString(fmt.Sprintf("m%d := import(\"%s\")\n", i, n))
	}
	sb.WriteString("u := import(\"user\")\nagain := import(\"" + names[0] + "\")\n")
	s := tengo.NewScript([]byte(sb.String()))
	s.SetImports(mm)
	var cp *tengo.Compiled
	err := safely(func() error {
		var e error
		if cp, e = s.Compile(); e != nil {
			return e
		}
		return cp.RunContext(bg)
	})
	r.Eval()
	r.Inc("object-modules")
	r.Distinct("object-modules", strings.Join(names, ","))
	detail := map[string]interface{}{"main": sb.String(), "module order": names}
	if err != nil {
		detail["error"] = err.Error()
		r.Violate("object-module:error", "importing modules supplied as objects failed", detail)
		return
	}
	want := func(n string) string { return canon(&tengo.ImmutableMap{Value: tables[n]}) }
	for i, n := range names {
		if got := canon(cp.Get(fmt.Sprintf("m%d", i)).Object()); got != want(n) {
			detail["module"], detail["got"], detail["want"] = n, got, want(n)
			r.Violate("object-module:wrong-table", "an import expression yields another module's table", detail)
			return
		}
	}
	if got := canon(cp.Get("again").Object()); got != want(names[0]) {
		detail["module"], detail["got"], detail["want"] = names[0], got, want(names[0])
		r.Violate("object-module:wrong-table", "an import expression yields another module's table", detail)
		return
	}
	if got := canon(cp.Get("u").Object()); got != `I{"red":i1,"sq":i4}` {
		detail["got"], detail["want"] = got, `I{"red":i1,"sq":i4}`
		r.Violate("object-module:wrong-table", "a source module importing object modules sees the wrong tables", detail)
	}
}

func (c *c13) isoCase(r *fw.Rec, idx int) {
	p := c13IsoProbes[idx%len(c13IsoProbes)]
	mm := tengo.NewModuleMap()
	for n, s := range p.mods {
		mm.AddSourceModule(n, []byte(s))
	}
	eng := runEngine([]byte(p.main), engineOpts{Mods: mm, Inputs: map[string]tengo.Object{"hostvar": &tengo.Int{Value: 9}}, Budget: 1_000_000})
	r.Eval()
	r.Inc("isolation-probes")
	r.Distinct("iso", p.name)
	detail := map[string]interface{}{"probe": p.name, "main": p.main, "modules": p.mods, "expected": p.expect, "engine": eng.Phase + ": " + eng.Err, "globals": eng.Globals}
	switch {
	case strings.HasPrefix(p.expect, "ok:"):
		if eng.Phase != "ok" {
			r.Violate("isolation:"+p.name, "isolation probe failed", detail)
			return
		}
		for _, kv := range strings.Split(p.expect[3:], ";") {
			parts := strings.SplitN(kv, "=", 2)
			if eng.Globals[parts[0]] != parts[1] {
				r.Violate("isolation:"+p.name, "isolation probe: unexpected value", detail)
				return
			}
		}
	case strings.HasPrefix(p.expect, "run:"):
		if eng.Phase != "runtime-error" || !strings.Contains(eng.Err, p.expect[4:]) {
			r.Violate("isolation:"+p.name, "isolation probe: expected a run-time error", detail)
		}
	default:
		if eng.Phase != "compile-error" || !strings.Contains(eng.Err, p.expect) {
			r.Violate("isolation:"+p.name, "isolation probe: expected a compile error", detail)
		}
	}
}

// ---- family 4: syscall monitor

// C13Helper is run in a child process under strace (see cmd/verif).
func C13Helper(dir string, enable bool) int {
	names := c13PathNames(dir)
	os.Chdir(dir)
	for _, n := range names {
		s := tengo.NewScript([]byte("m := import(\"" + n + "\")\n"))
		mm := tengo.NewModuleMap()
		mm.AddSourceModule("known", []byte("export 1\n"))
		s.SetImports(mm)
		s.EnableFileImport(enable)
		if enable {
			_ = s.SetImportDir(dir)
		}
		_, err := s.Compile()
		res := "ok"
		if err != nil {
			res = firstLine(err.Error())
		}
		fmt.Printf("RESULT %q %s\n", n, res)
	}
	return 0
}

func c13PathNames(dir string) []string {
	return []string{"canary_a", "./canary_a", "canary_a.tengo", "sub/canary_b", "../" + filepath.Base(dir) + "/canary_a", filepath.Join(dir, "canary_a"), filepath.Join(dir, "canary_a.tengo"),
		"/etc/passwd", "canary_a/../canary_a", "known/../canary_a"}
}

func (c *c13) straceCase(r *fw.Rec) {
	dir := filepath.Join(fw.Root, "work", "C13", "fs", "probe_dir")
	os.RemoveAll(filepath.Dir(dir))
	os.MkdirAll(filepath.Join(dir, "sub"), 0o755)
	os.WriteFile(filepath.Join(dir, "canary_a.tengo"), []byte("export 1\n"), 0o644)
	os.WriteFile(filepath.Join(dir, "sub", "canary_b.tengo"), []byte("export 2\n"), 0o644)
	self, _ := os.Executable()
	run := func(enable bool) (trace string, out string, err error) {
		tf := filepath.Join(filepath.Dir(dir), fmt.Sprintf("strace_%v.txt", enable))
		mode := "off"
		if enable {
			mode = "on"
		}
		cmd := exec.Command("strace", "-f", "-e", "trace=%file", "-o", tf, self, "c13helper", dir, mode)
		b, e := cmd.CombinedOutput()
		t, _ := os.ReadFile(tf)
		return string(t), string(b), e
	}
	traceOff, outOff, err := run(false)
	r.Eval()
	if err != nil || !strings.Contains(outOff, "RESULT") {
		r.Inconc("strace unavailable: " + trunc(fmt.Sprint(err)+outOff, 80))
		return
	}
	traceOn, outOn, err2 := run(true)
	r.Eval()
	if err2 != nil {
		r.Inconc("strace positive control failed to run")
		return
	}
	canary := func(trace string) []string {
		var hits []string
		for _, l := range strings.Split(trace, "\n") {
			if strings.Contains(l, "canary_") || (strings.Contains(l, "passwd") && !strings.Contains(l, "nsswitch")) {
				hits = append(hits, trunc(l, 200))
			}
		}
		return hits
	}
	off, on := canary(traceOff), canary(traceOn)
	r.Count("syscalls_traced(file import off)", int64(strings.Count(traceOff, "\n")))
	r.Count("syscalls_traced(file import on)", int64(strings.Count(traceOn, "\n")))
	r.Count("canary_syscalls(file import on)", int64(len(on)))
	detail := map[string]interface{}{"helper_output_off": outOff, "helper_output_on": outOn}
	if len(on) == 0 || !strings.Contains(outOn, "ok") {
		// the positive control must see the canaries, otherwise the monitor is blind
		detail["note"] = "positive control did not observe file access"
		r.Inconc("strace positive control observed nothing")
		return
	}
	if len(off) > 0 {
		detail["syscalls"] = off
		r.Violate("fs:consulted", "with file import disabled the compiler consulted the file system for an import name", detail)
		return
	}
	for _, l := range strings.Split(outOff, "\n") {
		if strings.HasPrefix(l, "RESULT") && !strings.Contains(l, "not found") {
			detail["line"] = l
			r.Violate("fs:resolved", "with file import disabled an import name outside the module map did not fail with 'module not found'", detail)
			return
		}
	}
	r.Inc("syscall-monitor-runs")
	r.Distinct("strace", "off/on")
	r.Sample(map[string]interface{}{"family": "syscall monitor", "file_import_off_canary_syscalls": 0, "file_import_on_canary_syscalls": len(on), "example": on[0]})
}

func (c *c13) RunCase(r *fw.Rec, cs fw.Case) {
	rng := cs.Rng("c13")
	if cs.Index == 0 {
		c.straceCase(r)
		return
	}
	switch cs.Index % 8 {
	case 0, 1, 2, 3:
		c.graphCase(r, rng, (cs.Index/8)*4+cs.Index%8)
	case 4, 5, 6:
		c.valueCase(r, rng, cs)
	default:
		if (cs.Index/8)%4 == 3 {
			c.objectModules(r, rng)
			return
		}
		c.isoCase(r, cs.Index/8)
	}
}

func (c *c13) Finish(m *fw.Merged, tier string) {
	for _, k := range []string{"graphs:cyclic", "graphs:acyclic", "module-values", "isolation-probes", "object-modules"} {
		if m.Counters[k] == 0 {
			m.Fail("never observed: " + k)
		}
	}
	_ = sort.Strings
}
