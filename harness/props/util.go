package props

import (
	"context"
	"errors"
	"fmt"
	"math"
	"math/rand"
	"runtime/debug"
	"sort"
	"strings"

	"github.com/d5/tengo/v2"
	"github.com/d5/tengo/v2/stdlib"
)

var bg = context.Background()

// safely runs f and converts a panic into an error that carries the stack.
type panicErr struct {
	val   interface{}
	stack string
}

func (p *panicErr) Error() string { return fmt.Sprintf("panic: %v", p.val) }

func safely(f func() error) (err error) {
	defer func() {
		if r := recover(); r != nil {
			err = &panicErr{val: r, stack: string(debug.Stack())}
		}
	}()
	return f()
}

func isPanic(err error) (*panicErr, bool) {
	var p *panicErr
	if errors.As(err, &p) {
		return p, true
	}
	return nil, false
}

func pick[T any](r *rand.Rand, xs []T) T { return xs[r.Intn(len(xs))] }

func stdModules() *tengo.ModuleMap { return stdlib.GetModuleMap(stdlib.AllModuleNames()...) }

// canon renders a tengo object in a canonical structural form: type tag +
// contents, maps sorted, floats by bits (NaN canonical), functions opaque.
func canon(o tengo.Object) string {
	var sb strings.Builder
	canonTo(&sb, o, 0)
	return sb.String()
}

func canonTo(sb *strings.Builder, o tengo.Object, depth int) {
	if depth > 64 {
		sb.WriteString("<deep>")
		return
	}
	switch v := o.(type) {
	case nil:
		sb.WriteString("<GONIL>")
	case *tengo.Int:
		fmt.Fprintf(sb, "i%d", v.Value)
	case *tengo.Float:
		if math.IsNaN(v.Value) {
			sb.WriteString("fNaN")
		} else {
			fmt.Fprintf(sb, "f%016x", math.Float64bits(v.Value))
		}
	case *tengo.Bool:
		if v.IsFalsy() {
			sb.WriteString("false")
		} else {
			sb.WriteString("true")
		}
	case *tengo.Char:
		fmt.Fprintf(sb, "c%d", v.Value)
	case *tengo.String:
		fmt.Fprintf(sb, "s%q", v.Value)
	case *tengo.Bytes:
		fmt.Fprintf(sb, "b%x", v.Value)
	case *tengo.Time:
		fmt.Fprintf(sb, "t%d", v.Value.UnixNano())
	case *tengo.Undefined:
		sb.WriteString("undef")
	case *tengo.Error:
		sb.WriteString("err(")
		canonTo(sb, v.Value, depth+1)
		sb.WriteString(")")
	case *tengo.Array:
		sb.WriteString("[")
		for i, e := range v.Value {
			if i > 0 {
				sb.WriteString(",")
			}
			canonTo(sb, e, depth+1)
		}
		sb.WriteString("]")
	case *tengo.ImmutableArray:
		sb.WriteString("I[")
		for i, e := range v.Value {
			if i > 0 {
				sb.WriteString(",")
			}
			canonTo(sb, e, depth+1)
		}
		sb.WriteString("]")
	case *tengo.Map:
		canonMap(sb, "{", v.Value, depth)
	case *tengo.ImmutableMap:
		canonMap(sb, "I{", v.Value, depth)
	case *tengo.CompiledFunction, *tengo.BuiltinFunction, *tengo.UserFunction:
		sb.WriteString("<fn>")
	default:
		fmt.Fprintf(sb, "<%s>", o.TypeName())
	}
}

func canonMap(sb *strings.Builder, open string, m map[string]tengo.Object, depth int) {
	keys := make([]string, 0, len(m))
	for k := range m {
		keys = append(keys, k)
	}
	sort.Strings(keys)
	sb.WriteString(open)
	for i, k := range keys {
		if i > 0 {
			sb.WriteString(",")
		}
		fmt.Fprintf(sb, "%q:", k)
		canonTo(sb, m[k], depth+1)
	}
	sb.WriteString("}")
}

func trunc(s string, n int) string {
	if len(s) > n {
		return s[:n] + "…"
	}
	return s
}
