package props

import (
	"bytes"
	"fmt"
	"math"
	"math/rand"
	"os"
	"path/filepath"
	"strings"

	"github.com/d5/tengo/v2"
	"github.com/d5/tengo/v2/parser"

	"verif/fw"
	"verif/gen"
	"verif/ref"
)

// C12 — bytecode post-processing and serialization preserve behaviour.
type c12 struct{}

func init() { fw.Register(&c12{}) }

func (*c12) ID() string    { return "C12" }
func (*c12) Level() string { return "translation_validation" }

// termination is not this property's claim (C04/C05 decide it): a case that exhausts the watchdog's
// CPU allowance is a generated program that is too expensive, counted as inconclusive
func (*c12) Config(tier string) fw.Config { return fw.Config{CrashInconclusive: true} }
func (*c12) NumCases(tier string) int {
	if tier == "thorough" {
		return 200000
	}
	return 12000
}
func (*c12) Rule() string {
	return "each case = one generated program with many repeated literals (ints, equal floats, chars, strings), nested functions, closures, a source module imported from several places and builtin modules; " +
		"compiled freshly three times (raw; + RemoveDuplicates; + RemoveDuplicates + Encode/Decode as cmd/tengo does) and run on the same inputs through NewVM.Run under the probe; " +
		"globals, full error text and positions are compared; after de-duplication every CONST/CLOSURE operand is range-checked and the constant pool is checked for equal de-duplicable constants; " +
		"the original is re-run after Encode to detect mutation by serialization. distinct = distinct source; non-trivial = RemoveDuplicates removed at least one constant"
}
func (*c12) Assumptions() []string {
	return []string{
		"a fresh compilation per variant (RemoveDuplicates rewrites instruction bytes in place)",
		"programs whose result depends on map iteration order are filtered out by the reference model",
		"de-duplicable kinds: int, float (by value, NaN never equal), char, string, the same function pointer, builtin-module maps of the same module name",
	}
}

var c12Mods = map[string]string{
	"lib": "base := 10\nadd := func(a, b) { return a + b + base + 10 }\nname := \"lib\"\nexport {add: add, name: name, ten: 10, f: 2.5, c: 'x', twice: func(x) { return add(x, x) }}\n",
	"cnt": "n := 0\nexport func() { n += 1; return n + 10 }\n",
	// (used by C02's probes: stray break/continue in a module body; loops of a module's own)
	"brk":  "break\nexport 1\n",
	"cont": "x := 1\nif x { continue }\nexport x\n",
	"lp":   "s := 0\nfor i := 0; i < 4; i++ { if i == 1 { continue }; s += i; if s > 4 { break } }\nexport s\n",
}

func c12ModuleMap() *tengo.ModuleMap {
	mm := c12DecodeModuleMap()
	// a host module holding only data: the compiling host registers it, the decoding host (like
	// cmd/tengo, which knows the stdlib only) does not; its table travels inside the bytecode
	mm.AddBuiltinModule("conf", map[string]tengo.Object{
		"debug": tengo.TrueValue, "off": tengo.FalseValue, "nothing": tengo.UndefinedValue, "n": &tengo.Int{Value: 10},
		"err": &tengo.Error{Value: tengo.TrueValue}, "errs": &tengo.Array{Value: []tengo.Object{&tengo.Error{Value: tengo.UndefinedValue}, &tengo.Error{Value: &tengo.Array{Value: []tengo.Object{tengo.FalseValue}}}}},
		"nested": &tengo.Map{Value: map[string]tengo.Object{"flag": tengo.FalseValue, "list": &tengo.Array{Value: []tengo.Object{tengo.TrueValue, tengo.UndefinedValue, &tengo.String{Value: "conf"}}}}},
	})
	// two modules an embedder supplies as ready-made objects through its own Importable: plain immutable maps without a
	// module name. They are different constants and must stay different through de-duplication and serialization.
	ti := func(i int64) tengo.Object { return &tengo.Int{Value: i} }
	mm.Add("tabA", c04Importable{&tengo.ImmutableMap{Value: map[string]tengo.Object{"v": ti(1), "name": &tengo.String{Value: "A"}, "list": &tengo.ImmutableArray{Value: []tengo.Object{ti(1)}}}}})
	mm.Add("tabB", c04Importable{&tengo.ImmutableMap{Value: map[string]tengo.Object{"v": ti(2), "name": &tengo.String{Value: "B"}, "list": &tengo.ImmutableArray{Value: []tengo.Object{ti(2)}}}}})
	return mm
}

func c12DecodeModuleMap() *tengo.ModuleMap {
	mm := stdModules()
	for n, s := range c12Mods {
		mm.AddSourceModule(n, []byte(s))
	}
	return mm
}

func c12RefMods() map[string]*ref.Module {
	m := map[string]*ref.Module{}
	for n, s := range c12Mods {
		m[n] = &ref.Module{Src: []byte(s)}
	}
	// the two builtin modules the prefixes use (only what they use)
	m["math"] = &ref.Module{Table: map[string]ref.Value{"pi": ref.Float(math.Pi), "abs": &ref.HostFn{Name: "abs", F: func(a []ref.Value) (ref.Value, error) {
		if len(a) != 1 {
			return nil, ref.ErrWrongArgs{}
		}
		switch x := a[0].(type) {
		case ref.Float:
			return ref.Float(math.Abs(float64(x))), nil
		case ref.Int:
			return ref.Float(math.Abs(float64(x))), nil
		}
		return nil, ref.ErrArgType{Name: "first", Expected: "float(compatible)", Found: ref.TypeName(a[0])}
	}}}}
	m["tabA"] = &ref.Module{Table: map[string]ref.Value{"v": ref.Int(1), "name": ref.Str("A"), "list": ref.NewArr([]ref.Value{ref.Int(1)}, true)}}
	m["tabB"] = &ref.Module{Table: map[string]ref.Value{"v": ref.Int(2), "name": ref.Str("B"), "list": ref.NewArr([]ref.Value{ref.Int(2)}, true)}}
	m["conf"] = &ref.Module{Table: map[string]ref.Value{"debug": ref.Bool(true), "off": ref.Bool(false), "nothing": ref.Undef{}, "n": ref.Int(10),
		"err": &ref.Err{V: ref.Bool(true)}, "errs": ref.NewArr([]ref.Value{&ref.Err{V: ref.Undef{}}, &ref.Err{V: ref.NewArr([]ref.Value{ref.Bool(false)}, false)}}, false),
		"nested": ref.NewMap(map[string]ref.Value{"flag": ref.Bool(false), "list": ref.NewArr([]ref.Value{ref.Bool(true), ref.Undef{}, ref.Str("conf")}, false)}, false)}}
	m["text"] = &ref.Module{Table: map[string]ref.Value{"to_upper": &ref.HostFn{Name: "to_upper", F: func(a []ref.Value) (ref.Value, error) {
		if len(a) != 1 {
			return nil, ref.ErrWrongArgs{}
		}
		if x, ok := a[0].(ref.Str); ok {
			return ref.Str(strings.ToUpper(string(x))), nil
		}
		return nil, ref.ErrArgType{Name: "first", Expected: "string(compatible)", Found: ref.TypeName(a[0])}
	}}}}
	return m
}

var c12Prefixes = []string{
	"lib := import(\"lib\")\nl2 := import(\"lib\")\nr0 := lib.add(1, 2) + l2.twice(10) + lib.ten + 10\nnm := lib.name + \"lib\" + 'x' + lib.c\n",
	"math := import(\"math\")\ntext := import(\"text\")\nm2 := import(\"math\")\nr0 := math.abs(-2.5) + m2.pi\nr1 := text.to_upper(\"math\") + \"text\"\n",
	"c1 := import(\"cnt\")\nc2 := import(\"cnt\")\nr0 := [c1(), c1(), c2(), 10, 10, 11]\n",
	// two handles of one module compared with each other (tables holding functions are never equal)
	"m1 := import(\"math\")\nm2 := import(\"math\")\nl1 := import(\"lib\")\nl2 := import(\"lib\")\nr0 := [m1 == m2, m1 != m2, l1 == l2, l1 != l2, m1.pi == m2.pi, [m1] == [m2], {m: l1} == {m: l2}]\n",
	"f := func() { return 10 }\ng := func() { return 10 }\nh := func() { l := import(\"lib\"); return l.add(10, 10) }\nr0 := f() + g() + h() + 10\n",
	"a := 65; b := 'A'; c := 65.0; d := \"65\"; e := [65, 'A', 65.0, \"65\", 65]; s := \"\" + \"\" + \"A\" + 'A'\n",
	"conf := import(\"conf\")\nr0 := [conf.debug == true, conf.off == false, conf.nested.flag == false, is_undefined(conf.nothing), conf.nothing == undefined, conf.nested.list[0] == true, conf.nested.list[1] == undefined, conf.debug ? 1 : 0, conf.off || 7, conf.n + 10, conf.nested.list[2] + \"conf\"]\nr1 := [conf.debug, conf.off, conf.nothing]\nr2 := [conf.err.value == true, is_undefined(conf.errs[0].value), conf.errs[0].value == undefined, conf.errs[1].value[0] == false, conf.err.value ? 1 : 0]\n",
	// modules supplied as objects (unnamed immutable maps) by the embedder's own Importable
	"ta := import(\"tabA\")\ntb := import(\"tabB\")\nta2 := import(\"tabA\")\nr0 := [ta.v, tb.v, ta2.v, ta.name + tb.name + \"A\", tb.list[0] + 1, ta == ta2, ta == tb]\nfn := func() { return import(\"tabB\").v + import(\"tabA\").v * 10 }\nr1 := fn()\n",
	"",
	"",
}

// endings with byte-identical functions / repeated constants whose failure
// position must survive post-processing
var c12Suffixes = []string{
	"", "", "",
	"zadd := func(a, b) { return a + b }\nzjoin := func(a, b) { return a + b }\nzr0 := zadd(1, 2)\nzr1 := zjoin(1, \"x\")\n",
	"zf := func(a) {\n  return a.x.y + 1\n}\nzg := func(a) {\n  return a.x.y + 1\n}\nzh := func() { return zg({}) }\nzr := zh()\n",
	"zs := [\"dup\", \"dup\", 7, 7, 7.0, 'q', 'q']\nzt := zs[0] + zs[2] + \"dup\"\nzu := 7 / (zs[2] - 7)\n",
}

func (c *c12) variants(src string) (raw, dd, ser *rawCompiled, err error, encErr error, removed int, encoded []byte) {
	mm := c12ModuleMap()
	raw, err = compileRaw([]byte(src), nil, mm)
	if err != nil {
		return
	}
	dd, err = compileRaw([]byte(src), nil, mm)
	if err != nil {
		return
	}
	before := len(dd.BC.Constants)
	err = safely(func() error { dd.BC.RemoveDuplicates(); return nil })
	if err != nil {
		return
	}
	removed = before - len(dd.BC.Constants)
	ser, err = compileRaw([]byte(src), nil, mm)
	if err != nil {
		return
	}
	encErr = safely(func() error {
		ser.BC.RemoveDuplicates()
		var buf bytes.Buffer
		if e := ser.BC.Encode(&buf); e != nil {
			return e
		}
		encoded = buf.Bytes()
		nb := &tengo.Bytecode{}
		if e := nb.Decode(bytes.NewReader(encoded), c12DecodeModuleMap()); e != nil {
			return e
		}
		ser = &rawCompiled{BC: nb, Globals: ser.Globals, Index: ser.Index, NumGlob: ser.NumGlob}
		return nil
	})
	return
}

// checkConstPool: operands in range, no two equal de-duplicable constants.
func checkConstPool(bc *tengo.Bytecode) []string {
	var problems []string
	n := len(bc.Constants)
	for fi, f := range allFunctions(bc) {
		ins := f.Instructions
		for i := 0; i < len(ins); {
			op, operands, sz := readOperandsAt(ins, i)
			if op == parser.OpConstant || op == parser.OpClosure {
				if operands[0] >= n {
					problems = append(problems, fmt.Sprintf("function %d offset %d: constant index %d out of range (%d constants)", fi, i, operands[0], n))
				} else if op == parser.OpClosure {
					if _, ok := bc.Constants[operands[0]].(*tengo.CompiledFunction); !ok {
						problems = append(problems, fmt.Sprintf("function %d offset %d: CLOSURE names constant %d which is %s", fi, i, operands[0], bc.Constants[operands[0]].TypeName()))
					}
				}
			}
			i += sz
		}
	}
	seen := map[string]int{}
	for i, c := range bc.Constants {
		key := ""
		switch v := c.(type) {
		case *tengo.Int:
			key = fmt.Sprintf("int:%d", v.Value)
		case *tengo.Float:
			if !math.IsNaN(v.Value) {
				if v.Value == 0 {
					key = "float:0" // +0 and -0 are equal as map keys
				} else {
					key = fmt.Sprintf("float:%x", math.Float64bits(v.Value))
				}
			}
		case *tengo.Char:
			key = fmt.Sprintf("char:%d", v.Value)
		case *tengo.String:
			key = fmt.Sprintf("string:%q", v.Value)
		case *tengo.CompiledFunction:
			key = fmt.Sprintf("fn:%p", v)
		case *tengo.ImmutableMap:
			if s, ok := v.Value["__module_name__"].(*tengo.String); ok && s.Value != "" {
				key = "module:" + s.Value
			}
		}
		if key == "" {
			continue
		}
		if j, dup := seen[key]; dup {
			problems = append(problems, fmt.Sprintf("constants %d and %d are equal (%s) after de-duplication", j, i, key))
		}
		seen[key] = i
	}
	return problems
}

// sharedModuleProbe: RemoveDuplicates merges the separate tables of a builtin module imported twice
// into one constant; if the module has a mutable attribute the two imports then share it. Exact
// input, listed as a known finding.
func (c *c12) sharedModuleProbe(r *fw.Rec) {
	src := "ha := import(\"hstate\")\nhb := import(\"hstate\")\nha.state.x = 1\nr0 := hb.state.x\n"
	mk := func() *tengo.ModuleMap {
		mm := tengo.NewModuleMap()
		mm.AddBuiltinModule("hstate", map[string]tengo.Object{"state": &tengo.Map{Value: map[string]tengo.Object{}}})
		return mm
	}
	raw, e1 := compileRaw([]byte(src), nil, mk())
	dd, e2 := compileRaw([]byte(src), nil, mk())
	if e1 != nil || e2 != nil {
		return
	}
	if safely(func() error { dd.BC.RemoveDuplicates(); return nil }) != nil {
		return
	}
	a := runRaw(raw, raw.BC, 100_000, nil)
	b := runRaw(dd, dd.BC, 100_000, nil)
	r.EvalN(2)
	r.Inc("shared-module-probe")
	if a.Globals["r0"] != b.Globals["r0"] || a.ErrText != b.ErrText {
		r.Violate("dedup:shared-host-module-state", "de-duplication changes the result: two imports of a host module with a mutable attribute share it afterwards",
			map[string]interface{}{"source": src, "module hstate": "{state: {}} (mutable map attribute)", "original r0": a.Globals["r0"], "after RemoveDuplicates r0": b.Globals["r0"]})
	}
}

// fileImportProbe: module FILES (file import enabled) imported at several sites, with duplicate
// constants in front of the modules' own; de-duplicated bytecode must behave like the original.
func (c *c12) fileImportProbe(r *fw.Rec, rng *rand.Rand) {
	dir, err := os.MkdirTemp(fw.WorkDir("C12"), "files")
	if err != nil {
		r.Inconc("cannot create module files: " + err.Error())
		return
	}
	defer os.RemoveAll(dir)
	files := map[string]string{
		"util.tengo": "name := \"util\"\ntag := func(s) { return name + \":\" + s }\nexport {name: name, tag: tag, n: 42, dup: \"dup\"}\n",
		"mid.tengo":  "u := import(\"./util\")\nexport {t: u.tag(\"mid\") + \"/\" + u.n, d: \"dup\"}\n",
	}
	for n, t := range files {
		if e := os.WriteFile(filepath.Join(dir, n), []byte(t), 0o644); e != nil {
			r.Inconc("cannot write module file")
			return
		}
	}
	k := 1 + rng.Intn(6)
	src := "pad := [" + strings.Repeat("\"dup\", 7, 7.5, ", k) + "\"dup\"]\nu1 := import(\"./util\")\nm := import(\"./mid\")\nu2 := import(\"./util\")\n" +
		"f := func() { return import(\"./util\").tag(\"fn\") }\nout := [u1.name, u2.tag(\"main\"), m.t, m.d, f(), len(pad), u1.n + 7]\n"
	build := func(dedup bool) (*rawCompiled, error) {
		var rc *rawCompiled
		err := safely(func() error {
			st := tengo.NewSymbolTable()
			for idx, fn := range tengo.GetAllBuiltinFunctions() {
				st.DefineBuiltin(idx, fn.Name)
			}
			fs := parser.NewFileSet()
			sf := fs.AddFile("(main)", -1, len(src))
			file, e := parser.NewParser(sf, []byte(src), nil).ParseFile()
			if e != nil {
				return e
			}
			cc := tengo.NewCompiler(sf, st, nil, tengo.NewModuleMap(), nil)
			cc.EnableFileImport(true)
			cc.SetImportDir(dir)
			if e := cc.Compile(file); e != nil {
				return e
			}
			bc := cc.Bytecode()
			if dedup {
				bc.RemoveDuplicates()
			}
			rc = &rawCompiled{BC: bc, Globals: make([]tengo.Object, tengo.GlobalsSize), Index: map[string]int{}, NumGlob: st.MaxSymbols()}
			for _, n := range st.Names() {
				if sym, _, ok := st.Resolve(n, false); ok && sym.Scope == tengo.ScopeGlobal {
					rc.Index[n] = sym.Index
				}
			}
			return nil
		})
		return rc, err
	}
	raw, e1 := build(false)
	dd, e2 := build(true)
	r.EvalN(2)
	r.Inc("file-import-probes")
	detail := map[string]interface{}{"source": src, "files": files}
	if e1 != nil || e2 != nil {
		detail["error_original"], detail["error_deduplicated"] = fmt.Sprint(e1), fmt.Sprint(e2)
		if e1 == nil {
			r.Violate("dedup:file-modules:error", "RemoveDuplicates failed on a program importing module files", detail)
		}
		return
	}
	a := runRaw(raw, raw.BC, 1_000_000, nil)
	b := runRaw(dd, dd.BC, 1_000_000, nil)
	if a.ErrText != b.ErrText || a.Globals["out"] != b.Globals["out"] || (a.Panic != nil) != (b.Panic != nil) {
		detail["original"] = map[string]interface{}{"error": a.ErrText, "out": a.Globals["out"]}
		detail["deduplicated"] = map[string]interface{}{"error": b.ErrText, "out": b.Globals["out"]}
		r.Violate("dedup:file-modules:differs", "de-duplicated bytecode of a program importing one module file at several sites behaves differently", detail)
	}
}

func (c *c12) RunCase(r *fw.Rec, cs fw.Case) {
	if cs.Index == 0 {
		c.sharedModuleProbe(r)
	}
	if cs.Index%500 == 1 {
		c.fileImportProbe(r, cs.Rng("c12-files"))
	}
	rng := cs.Rng("c12")
	opts := gen.Options{MaxStmts: 4 + rng.Intn(14), MaxDepth: 2 + rng.Intn(2), CallDefined: true}
	switch rng.Intn(4) {
	case 0:
		opts.ClosureHeavy = true
	case 1:
		opts.ErrRate = 0.03
	}
	src := pick(rng, c12Prefixes) + gen.Generate(gen.New(rng, opts)).Src + pick(rng, c12Suffixes)
	r.Logf("---- source ----\n%s\n----", src)
	if ok, why := modelSpecified(src, c12RefMods(), cs.Seed+int64(cs.Index)); !ok {
		r.Inc("discarded(unspecified):" + trunc(why, 50))
		return
	}
	raw, dd, ser, err, encErr, removed, encoded := c.variants(src)
	r.Eval()
	r.Inc("programs")
	detail := map[string]interface{}{"source": src}
	if err != nil {
		if p, ok := isPanic(err); ok {
			detail["stack"] = trunc(p.stack, 2500)
			r.Violate("panic:compile-or-dedup", "compiler or RemoveDuplicates panicked: "+p.Error(), detail)
			return
		}
		r.Inc("compile-error")
		return
	}
	if removed > 0 {
		r.Distinct(src)
	}
	r.Count("constants_removed", int64(removed))
	if problems := checkConstPool(dd.BC); len(problems) > 0 {
		detail["problems"] = problems
		r.Violate("constpool:"+firstWord(problems[0]), "constant pool is inconsistent after de-duplication", detail)
		return
	}
	a := runRaw(raw, raw.BC, 5_000_000, nil)
	b := runRaw(dd, dd.BC, 5_000_000, nil)
	r.EvalN(2)
	r.Inc("disagreements_checked")
	if a.Aborted || b.Aborted {
		r.Inconc("instruction budget")
		return
	}
	cmp := func(name string, x, y rawRun, sig string) bool {
		detail["raw"] = map[string]interface{}{"error": x.ErrText, "globals": x.Globals}
		detail[name] = map[string]interface{}{"error": y.ErrText, "globals": y.Globals}
		if x.ErrText != y.ErrText {
			if y.Panic != nil {
				detail["stack"] = trunc(y.Panic.stack, 2000)
			}
			r.Violate(sig+":error", "bytecode variant '"+name+"' reports a different error / position than the original", detail)
			return false
		}
		if d := globalsDiff(x.Globals, y.Globals); len(d) > 0 {
			detail["differences"] = d
			r.Violate(sig+":globals", "bytecode variant '"+name+"' computes different globals than the original", detail)
			return false
		}
		return true
	}
	if !cmp("deduplicated", a, b, "dedup") {
		return
	}
	if encErr != nil {
		detail["encode_error"] = encErr.Error()
		if p, ok := isPanic(encErr); ok {
			detail["stack"] = trunc(p.stack, 2000)
		}
		r.Violate("serialize:error", "Encode/Decode of the compiled bytecode failed", detail)
		return
	}
	r.Inc("serialized")
	r.Count("encoded_bytes", int64(len(encoded)))
	s := runRaw(ser, ser.BC, 5_000_000, nil)
	r.Eval()
	if s.Aborted {
		r.Inconc("instruction budget")
		return
	}
	if !cmp("decoded", a, s, "serialize") {
		return
	}
	if a.ErrText != "" {
		r.Inc("runtime-error")
	}
	// Encode must not disturb the bytecode it was given: encode the raw
	// (not de-duplicated) bytecode, then run it again.
	var buf bytes.Buffer
	encErr2 := safely(func() error { return raw.BC.Encode(&buf) })
	a2 := runRaw(raw, raw.BC, 5_000_000, nil)
	r.Eval()
	if encErr2 == nil && !a2.Aborted {
		if !cmp("original-after-Encode", a, a2, "encode-mutates") {
			return
		}
		// and a second Encode gives a stream that decodes to the same behaviour
		nb := &tengo.Bytecode{}
		var buf2 bytes.Buffer
		derr := safely(func() error {
			if e := raw.BC.Encode(&buf2); e != nil {
				return e
			}
			return nb.Decode(bytes.NewReader(buf2.Bytes()), c12DecodeModuleMap())
		})
		if derr == nil {
			s2 := runRaw(raw, nb, 5_000_000, nil)
			r.Eval()
			if !s2.Aborted && !cmp("second-encoding-decoded", a, s2, "serialize2") {
				return
			}
		}
	}
	if r.WantSample() && removed > 2 && len(src) < 700 {
		r.Sample(map[string]interface{}{"source": src, "constants_removed": removed, "encoded_bytes": len(encoded), "error": a.ErrText})
	}
}

func (c *c12) Finish(m *fw.Merged, tier string) {
	for _, k := range []string{"programs", "disagreements_checked", "serialized", "constants_removed", "runtime-error"} {
		if m.Counters[k] == 0 {
			m.Fail("never observed: " + k)
		}
	}
}
