package props

import (
	"fmt"
	"math/rand"
	"regexp"
	"sort"
	"strings"

	"github.com/d5/tengo/v2"
	"github.com/d5/tengo/v2/parser"

	"verif/fw"
	"verif/gen"
	"verif/ref"
)

// C11 — a program means the same wherever its variables live.
type c11 struct{}

func init() { fw.Register(&c11{}) }

func (*c11) ID() string    { return "C11" }
func (*c11) Level() string { return "exploration" }

// termination is not this property's claim (C04/C05 decide it): a case that exhausts the watchdog's
// CPU allowance is a generated program that is too expensive, counted as inconclusive
func (*c11) Config(tier string) fw.Config { return fw.Config{CrashInconclusive: true} }
func (*c11) NumCases(tier string) int {
	if tier == "thorough" {
		return 100000
	}
	return 5000
}
func (*c11) Rule() string {
	return "each case = one closure-heavy generated program P and up to 10 variants T(P): body wrapped in a function literal, body moved into a source module, a random sub-expression (or several) wrapped in an immediately-invoked function literal, " +
		"all variables consistently renamed, and compositions; P and every T(P) are run by the real engine and must end with the same values for P's top-level variables or fail with the same error message and (line-corrected) position; " +
		"the reference interpreter is run on P as well so that a defect common to all variants is not missed. distinct = distinct (P, transformation); non-trivial = the variant dispatched at least one GETL/SETL/GETF/SETF family instruction"
}
func (*c11) Assumptions() []string {
	return []string{
		"the one documented scope-dependent case is not generated: no closure outlives the loop iteration that declared a variable it captures",
		"variants that exceed a static limit of the VM (more than 255 locals after wrapping) are skipped",
		"positions are compared by line for transformations that shift columns; error messages are compared after renaming is undone",
	}
}

type c11Variant struct {
	name      string
	src       string
	mods      map[string]string
	result    string // "" = globals are P's own variables; otherwise name of the variable holding the map of P's variables
	lineShift int
	file      string            // file in which P's lines live
	rename    map[string]string // new name -> old name
}

// wrapExprs wraps up to n expression nodes of src in immediately invoked function literals.
// c11OnlyDefineRHS restricts c11WrapExprs to whole right-hand sides of ':=' (workers are single-threaded).
var c11OnlyDefineRHS bool

func c11WrapExprs(src string, rng *rand.Rand, n int) (string, int) {
	f, err := parseSrc([]byte(src))
	if err != nil {
		return src, 0
	}
	base := int(f.InputFile.Base)
	type span struct{ a, b int }
	var spans []span
	var walkE func(e parser.Expr, ok bool)
	var walkS func(s parser.Stmt)
	defineRHS := map[parser.Expr]bool{}
	add := func(e parser.Expr) {
		if _, isImport := e.(*parser.ImportExpr); isImport {
			return
		}
		if c11OnlyDefineRHS && !defineRHS[e] {
			return
		}
		a, b := int(e.Pos())-base, int(c11ExprEnd(e))-base
		if a >= 0 && b <= len(src) && a < b {
			spans = append(spans, span{a, b})
		}
	}
	walkE = func(e parser.Expr, ok bool) {
		if e == nil {
			return
		}
		switch x := e.(type) {
		case *parser.Ident, *parser.IntLit, *parser.FloatLit, *parser.StringLit, *parser.CharLit, *parser.BoolLit, *parser.UndefinedLit:
			if ok {
				add(e)
			}
		case *parser.ParenExpr:
			if ok {
				add(e)
			}
			walkE(x.Expr, false)
		case *parser.BinaryExpr:
			if ok {
				add(e)
			}
			walkE(x.LHS, true)
			walkE(x.RHS, true)
		case *parser.UnaryExpr:
			if ok {
				add(e)
			}
			walkE(x.Expr, true)
		case *parser.CondExpr:
			if ok {
				add(e)
			}
			walkE(x.Cond, true)
			walkE(x.True, true)
			walkE(x.False, true)
		case *parser.ArrayLit:
			if ok {
				add(e)
			}
			for _, el := range x.Elements {
				walkE(el, true)
			}
		case *parser.MapLit:
			if ok {
				add(e)
			}
			for _, el := range x.Elements {
				walkE(el.Value, true)
			}
		case *parser.SelectorExpr:
			if ok {
				add(e)
			}
			walkE(x.Expr, true)
		case *parser.IndexExpr:
			if ok {
				add(e)
			}
			walkE(x.Expr, true)
			walkE(x.Index, true)
		case *parser.SliceExpr:
			if ok {
				add(e)
			}
			walkE(x.Expr, true)
			walkE(x.Low, true)
			walkE(x.High, true)
		case *parser.CallExpr:
			if ok {
				add(e)
			}
			walkE(x.Func, true)
			for i, a := range x.Args {
				// the spread argument must stay an argument
				walkE(a, !(x.Ellipsis.IsValid() && i == len(x.Args)-1) || true)
			}
		case *parser.FuncLit:
			if ok {
				add(e)
			}
			walkS(x.Body)
		case *parser.ErrorExpr:
			if ok {
				add(e)
			}
			walkE(x.Expr, true)
		case *parser.ImmutableExpr:
			if ok {
				add(e)
			}
			walkE(x.Expr, true)
		case *parser.ImportExpr:
			if ok {
				add(e)
			}
		}
	}
	walkS = func(s parser.Stmt) {
		switch x := s.(type) {
		case *parser.ExprStmt:
			walkE(x.Expr, false)
		case *parser.AssignStmt:
			// left-hand sides keep their shape; index expressions inside them may be wrapped
			for _, l := range x.LHS {
				switch t := l.(type) {
				case *parser.IndexExpr:
					walkE(t.Index, true)
				}
			}
			for _, rr := range x.RHS {
				if _, isFn := rr.(*parser.FuncLit); isFn && x.Token.String() == ":=" {
					// `f := func...` makes f visible inside the literal; wrapping would change that
					walkE(rr, false)
				} else {
					if x.Token.String() == ":=" {
						defineRHS[rr] = true
					}
					walkE(rr, true)
				}
			}
		case *parser.IncDecStmt:
		case *parser.BlockStmt:
			if x != nil {
				for _, st := range x.Stmts {
					walkS(st)
				}
			}
		case *parser.IfStmt:
			if x.Init != nil {
				walkS(x.Init)
			}
			walkE(x.Cond, true)
			walkS(x.Body)
			if x.Else != nil {
				walkS(x.Else)
			}
		case *parser.ForStmt:
			if x.Init != nil {
				walkS(x.Init)
			}
			walkE(x.Cond, true)
			if x.Post != nil {
				walkS(x.Post)
			}
			walkS(x.Body)
		case *parser.ForInStmt:
			walkE(x.Iterable, true)
			walkS(x.Body)
		case *parser.ReturnStmt:
			walkE(x.Result, true)
		case *parser.ExportStmt:
			walkE(x.Result, true)
		}
	}
	for _, s := range f.Stmts {
		walkS(s)
	}
	if len(spans) == 0 {
		return src, 0
	}
	// choose n non-overlapping... nested spans are fine if applied from the innermost/rightmost: choose disjoint ones
	rng.Shuffle(len(spans), func(i, j int) { spans[i], spans[j] = spans[j], spans[i] })
	var chosen []span
	for _, s := range spans {
		okk := true
		for _, c := range chosen {
			if s.a < c.b && c.a < s.b {
				okk = false
				break
			}
		}
		// stay on one line so that line numbers are preserved
		if okk && !strings.Contains(src[s.a:s.b], "\n") {
			chosen = append(chosen, s)
			if len(chosen) >= n {
				break
			}
		}
	}
	sort.Slice(chosen, func(i, j int) bool { return chosen[i].a > chosen[j].a })
	out := src
	for _, s := range chosen {
		if c11OnlyDefineRHS {
			// the bare spelling (an initialiser is never at the start of a statement or in a header)
			out = out[:s.a] + "func() { return " + out[s.a:s.b] + " }()" + out[s.b:]
			continue
		}
		out = out[:s.a] + "(func() { return " + out[s.a:s.b] + " })()" + out[s.b:]
	}
	return out, len(chosen)
}

// c11ExprEnd is End() with the off-by-one of error()/immutable() expressions
// (their End() is the position of the closing parenthesis) corrected.
func c11ExprEnd(e parser.Expr) parser.Pos {
	switch x := e.(type) {
	case *parser.ErrorExpr:
		return x.RParen + 1
	case *parser.ImmutableExpr:
		return x.RParen + 1
	case *parser.BinaryExpr:
		return c11ExprEnd(x.RHS)
	case *parser.CondExpr:
		return c11ExprEnd(x.False)
	case *parser.UnaryExpr:
		return c11ExprEnd(x.Expr)
	}
	return e.End()
}

// rename renames every generated variable (identifier nodes only: string
// literals, map keys and selectors keep their text) consistently.
func c11Rename(src string, topVars []string) (string, map[string]string) {
	back := map[string]string{}
	f, err := parseSrc([]byte(src))
	if err != nil {
		return src, back
	}
	base := int(f.InputFile.Base)
	type occ struct{ a, b int }
	var occs []occ
	var visit func(n parser.Node)
	id := func(x *parser.Ident) {
		if x != nil && c11Renamable(x.Name) {
			a := int(x.NamePos) - base
			if a >= 0 && a+len(x.Name) <= len(src) && src[a:a+len(x.Name)] == x.Name {
				occs = append(occs, occ{a, a + len(x.Name)})
			}
		}
	}
	visit = func(n parser.Node) {
		switch x := n.(type) {
		case nil:
		case *parser.Ident:
			id(x)
		case *parser.ParenExpr:
			visit(x.Expr)
		case *parser.BinaryExpr:
			visit(x.LHS)
			visit(x.RHS)
		case *parser.UnaryExpr:
			visit(x.Expr)
		case *parser.CondExpr:
			visit(x.Cond)
			visit(x.True)
			visit(x.False)
		case *parser.ArrayLit:
			for _, e := range x.Elements {
				visit(e)
			}
		case *parser.MapLit:
			for _, e := range x.Elements {
				visit(e.Value)
			}
		case *parser.SelectorExpr:
			visit(x.Expr)
		case *parser.IndexExpr:
			visit(x.Expr)
			if x.Index != nil {
				visit(x.Index)
			}
		case *parser.SliceExpr:
			visit(x.Expr)
			if x.Low != nil {
				visit(x.Low)
			}
			if x.High != nil {
				visit(x.High)
			}
		case *parser.CallExpr:
			visit(x.Func)
			for _, a := range x.Args {
				visit(a)
			}
		case *parser.FuncLit:
			for _, p := range x.Type.Params.List {
				id(p)
			}
			visit(x.Body)
		case *parser.ErrorExpr:
			visit(x.Expr)
		case *parser.ImmutableExpr:
			visit(x.Expr)
		case *parser.ExprStmt:
			visit(x.Expr)
		case *parser.AssignStmt:
			for _, e := range x.LHS {
				visit(e)
			}
			for _, e := range x.RHS {
				visit(e)
			}
		case *parser.IncDecStmt:
			visit(x.Expr)
		case *parser.BlockStmt:
			if x != nil {
				for _, st := range x.Stmts {
					visit(st)
				}
			}
		case *parser.IfStmt:
			if x.Init != nil {
				visit(x.Init)
			}
			visit(x.Cond)
			visit(x.Body)
			if x.Else != nil {
				visit(x.Else)
			}
		case *parser.ForStmt:
			if x.Init != nil {
				visit(x.Init)
			}
			if x.Cond != nil {
				visit(x.Cond)
			}
			if x.Post != nil {
				visit(x.Post)
			}
			visit(x.Body)
		case *parser.ForInStmt:
			id(x.Key)
			id(x.Value)
			visit(x.Iterable)
			visit(x.Body)
		case *parser.ReturnStmt:
			if x.Result != nil {
				visit(x.Result)
			}
		case *parser.ExportStmt:
			visit(x.Result)
		}
	}
	for _, st := range f.Stmts {
		visit(st)
	}
	sort.Slice(occs, func(i, j int) bool { return occs[i].a > occs[j].a })
	out := src
	last := -1
	for _, o := range occs {
		if o.a == last {
			continue
		}
		last = o.a
		name := out[o.a:o.b]
		nn := "r_" + name + "_x"
		back[nn] = name
		out = out[:o.a] + nn + out[o.b:]
	}
	return out, back
}

var c11NameRe = regexp.MustCompile(`^(v|f|p|r|i|k|e|c|t|n|inc|rec|acc|mk|me|q|z)[0-9]+(_|x)?$`)

func c11Renamable(id string) bool { return c11NameRe.MatchString(id) }

// selfRefProbe: `f := func...` makes f visible inside the literal, but only when the literal is the
// whole right-hand side: wrapped in an immediately-invoked function literal the definition no longer
// compiles. Exact input, listed as a known finding (the random wraps leave such literals alone).
func (c *c11) selfRefProbe(r *fw.Rec) {
	p := "fib := func(n) { return n < 2 ? n : fib(n-1) + fib(n-2) }\nr := fib(6)\n"
	v := "fib := (func() { return func(n) { return n < 2 ? n : fib(n-1) + fib(n-2) } })()\nr := fib(6)\n"
	a := runEngine([]byte(p), engineOpts{Budget: 1_000_000})
	b := runEngine([]byte(v), engineOpts{Budget: 1_000_000})
	r.EvalN(2)
	r.Inc("self-reference-probe")
	if a.Phase != b.Phase || a.Globals["r"] != b.Globals["r"] {
		r.Violate("iife:self-referencing-function-definition", "wrapping the function literal of a self-recursive definition in an immediately-invoked function literal changes the outcome",
			map[string]interface{}{"P": p, "variant": v, "P_outcome": a.Phase + ": " + a.Err + " r=" + a.Globals["r"], "variant_outcome": b.Phase + ": " + b.Err + " r=" + b.Globals["r"]})
	}
}

func (c *c11) RunCase(r *fw.Rec, cs fw.Case) {
	if cs.Index == 0 {
		c.selfRefProbe(r)
	}
	rng := cs.Rng("c11")
	opts := gen.Options{MaxStmts: 4 + rng.Intn(16), MaxDepth: 2 + rng.Intn(3), ClosureHeavy: true, CallDefined: rng.Intn(2) == 0}
	if rng.Intn(4) == 0 {
		opts.ErrRate = 0.03
	}
	if rng.Intn(4) == 0 {
		opts.ControlHeavy = true
	}
	p := gen.Generate(gen.New(rng, opts))
	src := p.Src
	if cs.Index < len(c11Directed) {
		src = c11Directed[cs.Index].src
		p.TopVars = c11Directed[cs.Index].vars
	}
	r.Logf("---- P ----\n%s\n----", src)
	top := append([]string{}, p.TopVars...)
	sort.Strings(top)
	if len(top) == 0 {
		return
	}
	// the model: filter + independent oracle for P itself
	cfg := ref.DefaultConfig()
	model := ref.Run(ref.Program{Src: []byte(src), Cfg: cfg}, cs.Seed+int64(cs.Index))
	if model.Kind == "unspecified" {
		r.Inc("discarded(unspecified):" + trunc(model.Why, 50))
		return
	}
	base := runEngine([]byte(src), engineOpts{Budget: 10_000_000, MaxAllocs: 3_000_000})
	r.Eval()
	if base.Phase == "aborted" || strings.Contains(base.Err, "allocation limit") {
		r.Inconc("budget")
		return
	}
	if base.Phase == "compile-error" && cs.Index < len(c11Directed) {
		// the directed programs are legal wherever they stand: if the top level rejects one, the
		// function body and the module body must reject it too
		inFn := runEngine([]byte("res__ := (func() {\n"+src+"\nreturn 1\n})()\n"), engineOpts{Budget: 1_000_000})
		mm := tengo.NewModuleMap()
		mm.AddSourceModule("pmod", []byte(src+"\nexport 1\n"))
		inMod := runEngine([]byte("res__ := import(\"pmod\")\n"), engineOpts{Mods: mm, Budget: 1_000_000})
		r.EvalN(2)
		if inFn.Phase != "compile-error" || inMod.Phase != "compile-error" {
			r.Violate("outcome:rejected-only-at-top-level", "P is rejected by the compiler at the top level but accepted inside a function body or a module body",
				map[string]interface{}{"P": src, "P_outcome": base.Phase + ": " + base.FullErr, "in_function": inFn.Phase + ": " + inFn.Err, "in_module": inMod.Phase + ": " + inMod.Err})
		}
		return
	}
	if base.Phase == "parse-error" || base.Phase == "compile-error" {
		r.Inc("P:" + base.Phase)
		return
	}
	r.Inc("P:" + base.Phase)
	detail := map[string]interface{}{"P": src}
	if base.Phase == "panic" {
		detail["panic"] = base.Err
		r.Violate("panic", "engine panicked on P", detail)
		return
	}
	// model agreement on P (a defect common to all variants)
	if model.Kind != base.Phase || (model.Kind == "runtime-error" && normRuntimeErr(model.Err) != normRuntimeErr(base.Err)) {
		detail["model"] = model.Kind + ": " + model.Err
		detail["engine"] = base.Phase + ": " + base.Err
		r.Violate("model-differs", "P itself disagrees with the reference semantics", detail)
		return
	}
	baseVals := map[string]string{}
	for _, n := range top {
		v, ok := base.Globals[n]
		if !ok {
			v = "undef"
		}
		baseVals[n] = v
	}
	if base.Phase == "ok" {
		for _, n := range top {
			mv, ok := model.Globals[n]
			if !ok {
				mv = "undef"
			}
			if mv != baseVals[n] {
				detail["variable"] = n
				detail["model"] = mv
				detail["engine"] = baseVals[n]
				r.Violate("model-differs", "P itself disagrees with the reference semantics", detail)
				return
			}
		}
	}
	basePos := errPositions(base.FullErr)

	// result expression listing P's variables
	var pairs []string
	for _, n := range top {
		pairs = append(pairs, n+": "+n)
	}
	resMap := "{" + strings.Join(pairs, ", ") + "}"

	var vars []c11Variant
	indent := func(s string) string { return s }
	// T1: body inside a function
	vars = append(vars, c11Variant{name: "in-function", src: "res__ := (func() {\n" + indent(src) + "\nreturn " + resMap + "\n})()\n", result: "res__", lineShift: 1, file: "(main)"})
	// T2: body inside a module
	vars = append(vars, c11Variant{name: "in-module", src: "res__ := import(\"pmod\")\n", mods: map[string]string{"pmod": src + "\nexport " + resMap + "\n"}, result: "res__", lineShift: 0, file: "pmod"})
	// T3: IIFE wrapping
	for k := 0; k < 4; k++ {
		w, n := c11WrapExprs(src, rng, 1+rng.Intn(4))
		if n > 0 {
			vars = append(vars, c11Variant{name: fmt.Sprintf("iife-x%d", n), src: w, file: "(main)"})
		}
	}
	// T3b: the whole initialiser of every ':=' wrapped (the new variable is not visible inside its own initialiser)
	c11OnlyDefineRHS = true
	if w, n := c11WrapExprs(src, rng, 1000); n > 0 {
		vars = append(vars, c11Variant{name: fmt.Sprintf("iife-x%d", n), src: w, file: "(main)"})
		vars = append(vars, c11Variant{name: "iife+in-function", src: "res__ := (func() {\n" + w + "\nreturn " + resMap + "\n})()\n", result: "res__", lineShift: 1, file: "(main)"})
		r.Inc("variant:iife-define-rhs")
	}
	c11OnlyDefineRHS = false
	// T4: renaming
	rs, back := c11Rename(src, top)
	vars = append(vars, c11Variant{name: "renamed", src: rs, rename: back, file: "(main)"})
	// compositions
	w, n := c11WrapExprs(src, rng, 3)
	if n > 0 {
		vars = append(vars, c11Variant{name: "iife+in-function", src: "res__ := (func() {\n" + w + "\nreturn " + resMap + "\n})()\n", result: "res__", lineShift: 1, file: "(main)"})
		vars = append(vars, c11Variant{name: "iife+in-module", src: "res__ := import(\"pmod\")\n", mods: map[string]string{"pmod": w + "\nexport " + resMap + "\n"}, result: "res__", file: "pmod"})
	}
	rw, back2 := c11Rename(w, top)
	vars = append(vars, c11Variant{name: "iife+renamed", src: rw, rename: back2, file: "(main)"})

	for _, v := range vars {
		var mm *tengo.ModuleMap
		if v.mods != nil {
			mm = tengo.NewModuleMap()
			for n, s := range v.mods {
				mm.AddSourceModule(n, []byte(s))
			}
		}
		fam := map[string]bool{}
		if _, perr := parseSrc([]byte(v.src)); perr != nil && v.mods == nil {
			// the textual transformation produced an unparsable text: a defect of this harness, not of the engine
			r.Inc("variant-unparsable(harness)")
			continue
		}
		res := runEngine([]byte(v.src), engineOpts{Mods: mm, Budget: 12_000_000, MaxAllocs: 3_000_000})
		r.Eval()
		r.Inc("variant:" + strings.SplitN(v.name, "-x", 2)[0])
		for op, cnt := range res.OpHist {
			if cnt > 0 {
				name := parser.OpcodeNames[op]
				r.Count("op:"+name, cnt)
				switch name {
				case "GETL", "SETL", "DEFL", "SETSL", "GETLP", "GETF", "SETF", "SETSF", "GETFP":
					fam[name] = true
				}
			}
		}
		if len(fam) > 0 {
			r.Distinct(src, v.name, v.src)
		}
		vd := map[string]interface{}{"P": src, "variant": v.name, "variant_source": v.src, "P_outcome": base.Phase + ": " + base.FullErr, "variant_outcome": res.Phase + ": " + res.FullErr}
		if v.mods != nil {
			vd["variant_module"] = v.mods["pmod"]
		}
		if res.Phase == "aborted" || strings.Contains(res.Err, "allocation limit") {
			r.Inconc("budget")
			continue
		}
		if res.Phase == "compile-error" && strings.Contains(res.Err, "operand out of range") {
			r.Inc("variant-exceeds-static-limit")
			continue
		}
		if res.Phase == "panic" {
			vd["stack"] = trunc(res.FullErr, 2500)
			r.Violate("panic:"+v.name, "engine panicked on a variant", vd)
			return
		}
		if res.Phase != base.Phase {
			if base.Phase == "runtime-error" && res.Phase == "ok" || base.Phase == "ok" && res.Phase == "runtime-error" || res.Phase == "compile-error" {
				r.Violate("outcome:"+strings.SplitN(v.name, "-x", 2)[0], "a variant ends differently (ok / error) from P", vd)
				return
			}
		}
		if base.Phase == "runtime-error" {
			// same message (renaming undone), same innermost position
			gotMsg := res.Err
			for nn, old := range v.rename {
				gotMsg = strings.ReplaceAll(gotMsg, nn, old)
			}
			if normRuntimeErr(gotMsg) != normRuntimeErr(base.Err) {
				r.Violate("error:"+strings.SplitN(v.name, "-x", 2)[0], "a variant fails with a different error than P", vd)
				return
			}
			vp := errPositions(res.FullErr)
			if len(basePos) > 0 {
				if len(vp) == 0 {
					r.Violate("position-missing:"+v.name, "a variant reports no position where P does", vd)
					return
				}
				// the innermost frame of P's failure must be reported on the same (shifted) line in the same file
				wantLine := basePos[0].line + v.lineShift
				found := false
				for _, q := range vp {
					if q.line == wantLine && q.file == v.file {
						found = true
						break
					}
				}
				if vp[0].file != v.file || (vp[0].line != wantLine && !(strings.HasPrefix(v.name, "iife") && found)) {
					vd["want_line"] = wantLine
					r.Violate("position:"+strings.SplitN(v.name, "-x", 2)[0], "a variant reports the failure on a different line than P", vd)
					return
				}
			}
			continue
		}
		// ok: compare P's variables
		var diffs []string
		if v.result == "" {
			for _, n := range top {
				vn := n
				for nn, old := range v.rename {
					if old == n {
						vn = nn
					}
				}
				got, ok := res.Globals[vn]
				if !ok {
					got = "undef"
				}
				if got != baseVals[n] {
					diffs = append(diffs, fmt.Sprintf("%s: P=%s variant=%s", n, trunc(baseVals[n], 200), trunc(got, 200)))
				}
			}
		} else {
			obj := res.Objects[v.result]
			for _, n := range top {
				got := "<missing>"
				switch m := obj.(type) {
				case *tengo.Map:
					if e, ok := m.Value[n]; ok {
						got = canon(e)
					}
				case *tengo.ImmutableMap:
					if e, ok := m.Value[n]; ok {
						got = canon(e)
					}
				}
				if got != baseVals[n] {
					diffs = append(diffs, fmt.Sprintf("%s: P=%s variant=%s", n, trunc(baseVals[n], 200), trunc(got, 200)))
				}
			}
		}
		if len(diffs) > 0 {
			vd["differences"] = diffs
			r.Violate("values:"+strings.SplitN(v.name, "-x", 2)[0], "a variant computes different values for P's variables", vd)
			return
		}
	}
	if r.WantSample() && len(src) < 500 {
		r.Sample(map[string]interface{}{"P": src, "variants": len(vars), "outcome": base.Phase})
	}
}

type errPos struct {
	file      string
	line, col int
}

var posRe = regexp.MustCompile(`(?m)^\s*at (.*):(\d+):(\d+)\s*$`)

func errPositions(full string) []errPos {
	var out []errPos
	for _, m := range posRe.FindAllStringSubmatch(full, -1) {
		var l, c int
		fmt.Sscanf(m[2], "%d", &l)
		fmt.Sscanf(m[3], "%d", &c)
		out = append(out, errPos{m[1], l, c})
	}
	return out
}

type c11D struct {
	src  string
	vars []string
}

var c11Directed = []c11D{
	// a nested block of a function literal first reads an outer variable and then declares its own variable of that name
	{"a := 1\nf := func() {\n  if true {\n    b := a + 1\n    a := b * 2\n    return a\n  }\n  return 0\n}\nr := f()\nq := a\ng := func(n) { for i := 0; i < n; i++ { t := q + i; q := t; if q > 2 { return q } }; return -1 }\ns := g(3)\n", []string{"a", "r", "q", "s"}},
	// a block-local variable initialised from the outer variable of the same name
	{"x := 3\ny := 0\nif true {\n  x := x + 1\n  y = x\n}\nfor i := 0; i < 2; i++ {\n  x := x * 2\n  y += x\n}\nlimit := 0\nz := func() { limit := limit ? limit : 100; return limit }()\n", []string{"x", "y", "z"}},
	// variables named like builtin functions (declared before any use of the name)
	{"len := 5\nout := len + 1\ncopy := func(x) { return x + len }\nc := copy(3)\ng := func() { return copy(4) + len }\nd := g()\n", []string{"len", "out", "c", "d"}},
	{"format := \"f\"\nif true {\n  string := format + \"s\"\n  format = string\n}\nis_int := func(v) { return format + v }\nr := is_int(\"!\")\n", []string{"format", "r"}},
	{"x := 1\nf := func() { x += 1; return x }\ng := func() { h := func() { x = x * 10; return x }; return h() }\na := f()\nb := g()\nc := f()\n", []string{"x", "a", "b", "c"}},
	{"m := {a: {b: 1}}\nset := func(v) { m.a.b = v; m.a.c = [v] }\nset(5)\nk := m.a.b + m.a.c[0]\nm.a.c[0] += 1\nz := m.a.c\n", []string{"m", "k", "z"}},
	{"n := 10\nv1 := 0\nif n > 5 {\n  t := n * 2\n  q := func() { return t + n }\n  v1 = q()\n}\nw := func(n) { n = n + 1; return n }\nv2 := w(n)\nv3 := n\n", []string{"n", "v1", "v2", "v3"}},
	{"out := 0\nfib := func(x) { if x < 2 { return x }; return fib(x-1) + fib(x-2) }\nout = fib(10)\ne := func(x) { return x > 0 ? e(x-1) : \"done\" }\nd := e(5)\n", []string{"out", "d"}},
	{"a := [1,2,3]\nfor i := 0; i < len(a); i++ { a[i] = (func() { return a[i] * i })() }\ns := 0\nfor v in a { s += v }\nbad := a[1].x.y + s\nq := bad + \"z\" - 1\n", []string{"a", "s", "bad", "q"}},
	{"x1 := 1\nf5 := func() {\n  if x1 > 0 {\n    y := x1\n    g := func() { return y }\n    x1 = g() + 1\n  }\n  if x1 > 1 {\n    rec := func(n) { return n <= 0 ? 0 : 1 + rec(n-1) }\n    x1 = rec(3)\n  }\n  return x1\n}\nr := f5()\n", []string{"x1", "r"}},
}

func (c *c11) Finish(m *fw.Merged, tier string) {
	for _, k := range []string{"variant:in-function", "variant:in-module", "variant:iife", "variant:renamed", "P:ok", "P:runtime-error"} {
		if m.Counters[k] == 0 {
			m.Fail("never observed: " + k)
		}
	}
	for _, op := range []string{"GETG", "SETG", "SETSG", "GETL", "SETL", "DEFL", "SETSL", "GETLP", "GETF", "SETF", "SETSF", "GETFP"} {
		if m.Counters["op:"+op] == 0 {
			m.Fail("instruction family member never dispatched: " + op)
		}
	}
}
