package props

import (
	"errors"
	"fmt"
	"math/rand"
	"strings"

	"github.com/d5/tengo/v2"
	"github.com/d5/tengo/v2/parser"

	"verif/fw"
	"verif/gen"
)

// C06 — configured resource limits are honoured by every program.
type c06 struct{}

func init() { fw.Register(&c06{}) }

func (*c06) ID() string    { return "C06" }
func (*c06) Level() string { return "exploration" }
func (*c06) NumCases(tier string) int {
	if tier == "thorough" {
		return 60000
	}
	return 12000
}
func (*c06) Rule() string {
	return "families by case index: (a) allocation budgets — a generated program is first run unlimited while the VM probe counts tracked allocations independently (by classifying every dispatched instruction that completed: BINARYOP, NEG/complement, ARR, MAP, ERROR, IMMUT on array/map, SLICE, CALL of a non-compiled callee, CLOSURE, ITER), " +
		"then re-run for every budget N = 0..A+3 and -1: the outcome sequence must be fail…fail ok…ok with the switch exactly at N = A, failures must be ErrObjectAllocLimit, successes must give identical globals, and a failing run must not have completed more than N allocations; " +
		"(b) length limits — with MaxStringLen in {16,64,1000} and MaxBytesLen in {8,64}, string/bytes producers of the core language (+ with every right-hand type, string()/bytes()/char conversions, format with width/precision/*, %q, %x, type_name, string() of containers/errors/time, compile-time literals and map keys, host values through Add/Set) are driven to lengths L-1, L, L+1, 2L: " +
		"a longer value must be refused with ErrStringLimit/ErrBytesLimit, a fitting one must be produced; after every run (also of generated programs) every value reachable from the globals is walked for over-long strings/bytes; " +
		"(c) recursion — thin frames must end in ErrStackOverflow, fat frames / huge spreads / deep operand stacks in some error, through RunContext. distinct = distinct (program, limits); non-trivial = A >= 5 for (a), boundary probe for (b)"
}
func (*c06) Assumptions() []string {
	return []string{
		"the independent allocation count does not consult the VM's own counter; it observes instruction completion through the probe",
		"MaxStringLen / MaxBytesLen are process-wide: each worker is single-threaded and restores them after every case",
		"stdlib modules are outside the claim (core language only)",
	}
}

// allocCounter counts tracked allocations by classifying completed instructions.
type allocCounter struct {
	pending int // allocation credited when the next instruction is dispatched
	total   int
}

func (a *allocCounter) probe(v *tengo.VM) {
	// the previous instruction completed (we got here): credit it
	a.total += a.pending
	a.pending = 0
	ins := v.VerifInsts()
	ip := v.VerifIP()
	if ip < 0 || ip >= len(ins) {
		return
	}
	sp := v.VerifSP()
	switch ins[ip] {
	case parser.OpBinaryOp, parser.OpBComplement, parser.OpMinus, parser.OpArray, parser.OpMap, parser.OpError, parser.OpSliceIndex, parser.OpClosure, parser.OpIteratorInit:
		a.pending = 1
	case parser.OpImmutable:
		switch v.VerifStackAt(sp - 1).(type) {
		case *tengo.Array, *tengo.Map:
			a.pending = 1
		}
	case parser.OpCall:
		numArgs := int(ins[ip+1])
		callee := v.VerifStackAt(sp - 1 - numArgs)
		if _, compiled := callee.(*tengo.CompiledFunction); !compiled && callee != nil && callee.CanCall() {
			a.pending = 1
		}
	}
}

func (c *c06) allocCase(r *fw.Rec, rng *rand.Rand) {
	opts := gen.Options{MaxStmts: 2 + rng.Intn(7), MaxDepth: 2, ClosureHeavy: rng.Intn(3) == 0}
	src := gen.Generate(gen.New(rng, opts)).Src
	if ok, _ := modelSpecified(src, nil, rng.Int63()); !ok {
		r.Inc("a:discarded(unspecified)")
		return
	}
	s := tengo.NewScript([]byte(src))
	cp, err := s.Compile()
	if err != nil {
		return
	}
	run := func(budget int64) (errOut error, globals map[string]string, counted int, aborted bool) {
		cl := cp.Clone()
		// Clone copies the limit of the original; a fresh Compiled per budget instead
		s2 := tengo.NewScript([]byte(src))
		s2.SetMaxAllocs(budget)
		c2, e := s2.Compile()
		if e != nil {
			return e, nil, 0, false
		}
		_ = cl
		ac := &allocCounter{}
		ps := &probeState{budget: 3_000_000, userProbe: ac.probe}
		installProbe(ps)
		errOut = safely(func() error { return c2.RunContext(bg) })
		removeProbe()
		if errOut == nil {
			ac.total += ac.pending // the last instruction (SUSPEND) never allocates; nothing pending normally
		}
		globals = map[string]string{}
		for _, v := range c2.GetAll() {
			globals[v.Name()] = canon(v.Object())
		}
		return errOut, globals, ac.total, ps.aborted
	}
	base, baseGlobals, A, aborted := run(-1)
	r.Eval()
	if aborted {
		r.Inconc("instruction budget")
		return
	}
	if _, ok := isPanic(base); ok {
		return // C05's business
	}
	if A > 150 || A < 1 {
		r.Inc("a:skipped(size)")
		return
	}
	r.Inc("a:programs")
	r.Count("a:budgets_swept", int64(A+5))
	if A >= 5 {
		r.Distinct("a", src)
	}
	detail := map[string]interface{}{"source": src, "allocations_counted_independently": A, "unlimited_error": fmt.Sprint(base)}
	baseErr := ""
	if base != nil {
		baseErr = firstLine(base.Error())
	}
	for n := int64(0); n <= int64(A)+3; n++ {
		e, g, counted, ab := run(n)
		r.Eval()
		if ab {
			r.Inconc("instruction budget")
			return
		}
		detail["budget"] = n
		isLimit := e != nil && errors.Is(e, tengo.ErrObjectAllocLimit)
		if n < int64(A) {
			if !isLimit {
				detail["error"] = fmt.Sprint(e)
				r.Violate("alloc:budget-exceeded", fmt.Sprintf("with allocation budget %d the run did not stop with the allocation-limit error although it performs %d tracked allocations", n, A), detail)
				return
			}
			if counted > int(n) {
				detail["completed_allocations"] = counted
				r.Violate("alloc:performed-more", "a run with budget N completed more than N tracked allocations", detail)
				return
			}
			continue
		}
		// n >= A: must behave exactly like the unlimited run
		if isLimit {
			detail["error"] = e.Error()
			r.Violate("alloc:spurious-limit", fmt.Sprintf("with budget %d >= %d tracked allocations the run fails with the allocation-limit error", n, A), detail)
			return
		}
		gotErr := ""
		if e != nil {
			gotErr = firstLine(e.Error())
		}
		if gotErr != baseErr {
			detail["error"] = gotErr
			r.Violate("alloc:result-changes", "raising the budget changed the outcome", detail)
			return
		}
		if d := globalsDiff(baseGlobals, g); len(d) > 0 {
			detail["differences"] = d
			r.Violate("alloc:result-changes", "raising the budget changed the result", detail)
			return
		}
	}
	if r.WantSample() && A > 10 && len(src) < 500 {
		r.Sample(map[string]interface{}{"family": "a", "source": src, "tracked_allocations": A, "budgets": fmt.Sprintf("0..%d and -1", A+3)})
	}
}

// ---- (b) length limits

// walkLens returns a description of an over-long value reachable from o.
func walkLens(o tengo.Object, path string, S, B int, seen map[tengo.Object]bool) string {
	if o == nil || seen[o] {
		return ""
	}
	switch v := o.(type) {
	case *tengo.String:
		if len(v.Value) > S {
			return fmt.Sprintf("%s is a string of %d bytes (limit %d)", path, len(v.Value), S)
		}
	case *tengo.Bytes:
		if len(v.Value) > B {
			return fmt.Sprintf("%s is a bytes value of %d bytes (limit %d)", path, len(v.Value), B)
		}
	case *tengo.Array:
		seen[o] = true
		for i, e := range v.Value {
			if p := walkLens(e, fmt.Sprintf("%s[%d]", path, i), S, B, seen); p != "" {
				return p
			}
		}
	case *tengo.ImmutableArray:
		seen[o] = true
		for i, e := range v.Value {
			if p := walkLens(e, fmt.Sprintf("%s[%d]", path, i), S, B, seen); p != "" {
				return p
			}
		}
	case *tengo.Map:
		seen[o] = true
		for k, e := range v.Value {
			if p := walkLens(e, path+"."+k, S, B, seen); p != "" {
				return p
			}
		}
	case *tengo.ImmutableMap:
		seen[o] = true
		for k, e := range v.Value {
			if p := walkLens(e, path+"."+k, S, B, seen); p != "" {
				return p
			}
		}
	case *tengo.Error:
		return walkLens(v.Value, path+".value", S, B, seen)
	}
	return ""
}

type c06Producer struct {
	name  string
	bytes bool
	// src returns a script computing `out` of exactly L bytes (given the limit S for context)
	src func(L int) string
}

func rep(ch string, n int) string {
	if n < 0 {
		n = 0
	}
	return strings.Repeat(ch, n)
}

var c06Producers = []c06Producer{
	{"string + string", false, func(L int) string { return fmt.Sprintf("a := %q; out := a + %q", rep("a", L/2), rep("b", L-L/2)) }},
	{"string + int", false, func(L int) string { return fmt.Sprintf("out := %q + 12345", rep("a", L-5)) }},
	{"string + float", false, func(L int) string { return fmt.Sprintf("out := %q + 2.5", rep("a", L-3)) }},
	{"string + char", false, func(L int) string { return fmt.Sprintf("out := %q + 'c'", rep("a", L-1)) }},
	{"string + 2-byte char", false, func(L int) string { return fmt.Sprintf("out := %q + 'é'", rep("a", L-2)) }},
	{"string + 3-byte char", false, func(L int) string { return fmt.Sprintf("out := %q + '日'", rep("a", L-3)) }},
	{"string + 4-byte char", false, func(L int) string { return fmt.Sprintf("out := %q + '😀'", rep("a", L-4)) }},
	{"string += 3-byte char in loop", false, func(L int) string {
		return fmt.Sprintf("out := %q; for i := 0; i < %d; i++ { out += '日' }", rep("a", L%3), L/3)
	}},
	{"string + multi-byte string", false, func(L int) string { return fmt.Sprintf("a := %q; out := a + \"日本\"", rep("a", L-6)) }},
	{"string(char)+", false, func(L int) string { return fmt.Sprintf("out := %q + string('語')", rep("a", L-3)) }},
	{"map key from a non-string index", false, func(L int) string {
		return fmt.Sprintf("m := {}; m[[%q]] = 1; out := \"\"; for k, v in m { out = k }", rep("a", L-4))
	}},
	{"map key from an int-array index", false, func(L int) string {
		return fmt.Sprintf("m := {}; m[[%s7]] = 1; out := \"\"; for k, v in m { out = k + %q }", rep("7, ", (L-3)/3), rep("z", (L-3)%3))
	}},
	{"string + bool", false, func(L int) string { return fmt.Sprintf("out := %q + true", rep("a", L-4)) }},
	{"string + array", false, func(L int) string { return fmt.Sprintf("out := %q + [1, 2]", rep("a", L-6)) }},
	{"string + bytes", false, func(L int) string { return fmt.Sprintf("out := %q + bytes(\"xyz\")", rep("a", L-3)) }},
	{"string + undefined", false, func(L int) string { return fmt.Sprintf("out := %q + undefined", rep("a", L-11)) }},
	{"string + error", false, func(L int) string { return fmt.Sprintf("out := %q + error(1)", rep("a", L-8)) }},
	{"string += in loop", false, func(L int) string { return fmt.Sprintf("out := \"\"; for i := 0; i < %d; i++ { out += \"x\" }", L) }},
	{"string(int)", false, func(L int) string { return fmt.Sprintf("out := string(1%s)", rep("0", L-1)) }},
	{"string(bytes)", false, func(L int) string { return fmt.Sprintf("b := bytes(%d); out := string(b)", L) }},
	{"string(array)", false, func(L int) string { return fmt.Sprintf("out := string([%q])", rep("a", L-4)) }},
	{"string(error)", false, func(L int) string { return fmt.Sprintf("out := string(error(%q))", rep("a", L-9)) }},
	{"string(map)", false, func(L int) string { return fmt.Sprintf("out := string({k: %q})", rep("a", L-7)) }},
	{"format %s%s", false, func(L int) string {
		return fmt.Sprintf("out := format(\"%%s%%s\", %q, %q)", rep("a", L/2), rep("b", L-L/2))
	}},
	{"format %*d", false, func(L int) string { return fmt.Sprintf("out := format(\"%%*d\", %d, 7)", L) }},
	{"format %-*d", false, func(L int) string { return fmt.Sprintf("out := format(\"%%-*d\", %d, 7)", L) }},
	{"format %0Nd", false, func(L int) string { return fmt.Sprintf("out := format(\"%%0%dd\", 7)", L) }},
	{"format %.Nf", false, func(L int) string { return fmt.Sprintf("out := format(\"%%.%df\", 1.5)", L-2) }},
	{"format %s%% (ends in a single byte)", false, func(L int) string { return fmt.Sprintf("out := format(\"%%s%%%%\", %q)", rep("a", L-1)) }},
	{"format %s] of %d on bytes", false, func(L int) string {
		return fmt.Sprintf("out := format(\"%%s%%d\", %q, bytes(\"ab\"))", rep("a", L-7))
	}},
	{"format bad verb )", false, func(L int) string { return fmt.Sprintf("out := format(\"%%s%%z\", %q, 7)", rep("a", L-10)) }}, // "%!z(int=7)" is 10 bytes
	{"format EXTRA )", false, func(L int) string { // "%!(EXTRA int=7)" is 15 bytes
		if L < 15 {
			return fmt.Sprintf("out := format(\"%%s\", %q)", rep("a", L))
		}
		return fmt.Sprintf("out := format(\"%%s\", %q, 7)", rep("a", L-15))
	}},
	{"format %q", false, func(L int) string { return fmt.Sprintf("out := format(\"%%q\", %q)", rep("a", L-2)) }},
	{"format %x string", false, func(L int) string {
		return fmt.Sprintf("out := format(\"%%x\", %q)", rep("a", L/2)) + fmt.Sprintf(" + %q", rep("z", L%2))
	}},
	{"format %Nx string", false, func(L int) string { return fmt.Sprintf("out := format(\"%%%dx\", \"ab\")", L) }},
	{"format %-Ns", false, func(L int) string { return fmt.Sprintf("out := format(\"%%-%ds\", \"ab\")", L) }},
	{"format %v array", false, func(L int) string { return fmt.Sprintf("out := format(\"%%v\", [%q])", rep("a", L-4)) }},
	{"literal", false, func(L int) string { return fmt.Sprintf("out := %q", rep("a", L)) }},
	{"raw literal", false, func(L int) string { return "out := `" + rep("a", L) + "`" }},
	{"string slice", false, func(L int) string { return fmt.Sprintf("out := (%q + \"b\")[:%d]", rep("a", L-1), L) }},
	{"type_name(builtin)", false, func(L int) string { return "out := type_name(is_immutable_array)" }},
	{"type_name(value)", false, func(L int) string { return "out := type_name(immutable([]))" }},
	{"bytes + bytes", true, func(L int) string { return fmt.Sprintf("out := bytes(%d) + bytes(%d)", L/2, L-L/2) }},
	{"bytes(n)", true, func(L int) string { return fmt.Sprintf("out := bytes(%d)", L) }},
	{"bytes(string)", true, func(L int) string { return fmt.Sprintf("out := bytes(\"a\" + string(bytes(%d)))", L-1) }},
	{"bytes += in loop", true, func(L int) string {
		return fmt.Sprintf("out := bytes(0); for i := 0; i < %d; i++ { out += bytes(1) }", L)
	}},
}

// producers whose operands are built at run time (no long literal in the source)
var c06Built = map[string]bool{"string += 3-byte char in loop": true, "string += in loop": true, "string(bytes)": true, "format %*d": true, "format %-*d": true, "format %0Nd": true, "format %.Nf": true,
	"format %Nx string": true, "format %-Ns": true, "bytes + bytes": true, "bytes(n)": true, "bytes(string)": true, "bytes += in loop": true, "string + string": true}

func (c *c06) lengthCase(r *fw.Rec, rng *rand.Rand, idx int) {
	S := pick(rng, []int{16, 64, 1000})
	B := pick(rng, []int{8, 64})
	oldS, oldB := tengo.MaxStringLen, tengo.MaxBytesLen
	tengo.MaxStringLen, tengo.MaxBytesLen = S, B
	defer func() { tengo.MaxStringLen, tengo.MaxBytesLen = oldS, oldB }()
	if idx%3 == 2 {
		// generated programs under small limits: only the reachable-value invariant
		opts := gen.Options{MaxStmts: 3 + rng.Intn(12), MaxDepth: 2 + rng.Intn(2)}
		src := gen.Generate(gen.New(rng, opts)).Src
		eng := runEngine([]byte(src), engineOpts{Budget: 3_000_000, MaxAllocs: 1_000_000})
		r.Eval()
		r.Inc("b:generated-programs")
		for n, o := range eng.Objects {
			if p := walkLens(o, n, S, B, map[tengo.Object]bool{}); p != "" {
				r.Violate("length:reachable", "a value longer than the configured maximum is reachable from the globals", map[string]interface{}{"source": src, "MaxStringLen": S, "MaxBytesLen": B, "value": p})
				return
			}
		}
		return
	}
	p := c06Producers[(idx/3)%len(c06Producers)]
	if rng.Intn(3) == 0 {
		p = pick(rng, c06Producers)
	}
	lim := S
	sentinel := tengo.ErrStringLimit
	if p.bytes {
		lim, sentinel = B, tengo.ErrBytesLimit
	}
	L := lim + pick(rng, []int{-1, 0, 1, 1, 2, -2})
	if c06Built[p.name] {
		// operands are built at run time from short pieces: any length can be requested
		L = lim + pick(rng, []int{-1, 0, 1, 1, lim, 3, 100})
	}
	if L < 13 {
		L = 13
	}
	switch p.name {
	case "type_name(builtin)":
		L = len("builtin-function:is_immutable_array")
	case "type_name(value)":
		L = len("immutable-array")
		if S < 16 {
			return
		}
	}
	if p.name == "string(int)" && L > 18 {
		return // an int has at most 19 digits
	}
	src := p.src(L)
	eng := runEngine([]byte(src), engineOpts{Budget: 2_000_000})
	r.Eval()
	r.Inc("b:boundary-probes")
	r.Inc("b:producer:" + p.name)
	r.Distinct("b", src, fmt.Sprint(S, B))
	detail := map[string]interface{}{"source": trunc(src, 2500), "producer": p.name, "MaxStringLen": S, "MaxBytesLen": B, "result_length": L, "engine": eng.Phase + ": " + eng.Err}
	if eng.Phase == "panic" {
		detail["stack"] = trunc(eng.FullErr, 2000)
		r.Violate("length:panic", "a length-limited operation panicked", detail)
		return
	}
	for n, o := range eng.Objects {
		if q := walkLens(o, n, S, B, map[tengo.Object]bool{}); q != "" {
			detail["value"] = q
			r.Violate("length:exceeded:"+p.name, "an operation yielded a value longer than the configured maximum", detail)
			return
		}
	}
	var cerr *tengo.CompilerError
	if errors.As(eng.ErrVal, &cerr) && cerr.Err == tengo.ErrStringLimit && p.name != "literal" && p.name != "raw literal" {
		// an operand literal of the probe is itself longer than the limit: refused at compile time, nothing to judge
		r.Inc("b:operand-literal-too-long(skipped)")
		return
	}
	// intermediate values of a script may exceed the limit even if `out` would fit (e.g. the operand): decide on the largest value the script must build
	if L > lim {
		if eng.Phase == "ok" {
			detail["out"] = trunc(eng.Globals["out"], 200)
			r.Violate("length:no-error:"+p.name, "an over-limit value was not refused", detail)
			return
		}
		if !errors.Is(eng.ErrVal, sentinel) {
			if c06IntermediateTooLong(p.name, L, S, B) && (errors.Is(eng.ErrVal, tengo.ErrStringLimit) || errors.Is(eng.ErrVal, tengo.ErrBytesLimit)) {
				r.Inc("b:intermediate-limited")
				return
			}
			var ce *tengo.CompilerError
			if (p.name == "literal" || p.name == "raw literal") && errors.As(eng.ErrVal, &ce) && ce.Err == tengo.ErrStringLimit {
				r.Inc("b:refused(compile time)")
				return
			}
			r.Violate("length:wrong-error:"+p.name, "an over-limit operation failed with an error that is not the limit sentinel", detail)
			return
		}
		r.Inc("b:refused")
		return
	}
	if eng.Phase != "ok" {
		// operands/intermediates of some producers are themselves limited (e.g. string(bytes) needs MaxBytesLen >= L)
		if errors.Is(eng.ErrVal, tengo.ErrStringLimit) || errors.Is(eng.ErrVal, tengo.ErrBytesLimit) {
			if c06IntermediateTooLong(p.name, L, S, B) {
				r.Inc("b:intermediate-limited")
				return
			}
			r.Violate("length:spurious:"+p.name, "a value within the limit was refused with the limit error", detail)
			return
		}
		r.Violate("length:unexpected-error:"+p.name, "a boundary probe failed unexpectedly", detail)
		return
	}
	var got int
	switch o := eng.Objects["out"].(type) {
	case *tengo.String:
		got = len(o.Value)
	case *tengo.Bytes:
		got = len(o.Value)
	}
	if got != L {
		detail["got_length"] = got
		r.Violate("length:harness", "boundary probe produced an unexpected length (harness defect)", detail)
		return
	}
	r.Inc("b:produced")
}

func c06IntermediateTooLong(name string, L, S, B int) bool {
	switch name {
	case "string(bytes)":
		return L > B
	case "bytes(string)":
		return L > S || L-1 > B
	case "bytes + bytes", "bytes(n)", "bytes += in loop":
		return false
	}
	return false
}

// ---- (c) recursion

func (c *c06) recursionCase(r *fw.Rec, rng *rand.Rand) {
	type probe struct {
		name   string
		src    string
		frames bool // the frame limit is what runs out
	}
	n := 1 + rng.Intn(6)
	var params, args []string
	for i := 0; i < n; i++ {
		params = append(params, fmt.Sprintf("p%d", i))
		args = append(args, fmt.Sprintf("p%d", i))
	}
	probes := []probe{
		{"thin frames (statement call, no parameters)", "f := func() { f(); return 1 }; x := f()", true},
		{"thin frames (global counter)", "c := 0; f := func() { c++; f(); return c }; x := f()", true},
		{"mutual recursion", "g := undefined; f := func() { g(); return 1 }; g = func() { f(); return 2 }; x := f()", true},
		{"fat frames (parameters)", fmt.Sprintf("f := func(%s) { return 1 + f(%s) }; x := f(%s)", strings.Join(params, ", "), strings.Join(args, ", "), strings.Repeat("1, ", n-1)+"1"), false},
		{"fat frames (locals)", "f := func(n) { a := n; b := a; c := b; d := c; e := d; return a + b + c + d + e + f(n + 1) }; x := f(0)", false},
		{"operand stack (nested array literal)", "f := func(n) { return [n, [n, [n, [n, f(n + 1)]]]] }; x := f(0)", false},
		{"huge spread", "g := func(...a) { return len(a) }; x := g(range(0, 5000)...)", false},
		{"spread in recursion", "f := func(...a) { return f(append(a, 1, 2, 3, 4, 5, 6, 7, 8)...) }; x := f()", false},
		{"recursion through closure", "mk := func() { h := func(n) { return 1 + h(n + 1) }; return h }; x := mk()(0)", false},
		{"recursion in module function", "", false},
	}
	p := pick(rng, probes)
	mm := tengo.NewModuleMap()
	mm.AddSourceModule("deep", []byte("export func(f) { r := func(n) { return n + r(n + 1) }; return r(0) }\n"))
	if p.src == "" {
		p.src = "d := import(\"deep\"); x := d(1)"
	}
	eng := runEngine([]byte(p.src), engineOpts{Mods: mm, Budget: 50_000_000})
	r.Eval()
	r.Inc("c:recursion-probes")
	r.Distinct("c", p.src)
	detail := map[string]interface{}{"source": p.src, "probe": p.name, "engine": eng.Phase + ": " + trunc(eng.FullErr, 300)}
	if eng.Phase == "aborted" {
		r.Violate("recursion:no-error:"+p.name, "runaway recursion did not end with an error within 5*10^7 instructions", detail)
		return
	}
	if eng.Phase == "panic" {
		// runEngine goes through RunContext, which must have converted the panic
		r.Violate("recursion:panic:"+p.name, "a panic reached the caller of RunContext", detail)
		return
	}
	if eng.Phase != "runtime-error" {
		r.Violate("recursion:no-error:"+p.name, "recursion beyond the VM's capacity did not end with an error", detail)
		return
	}
	if p.frames && !errors.Is(eng.ErrVal, tengo.ErrStackOverflow) {
		r.Violate("recursion:not-stack-overflow:"+p.name, "the frame limit ran out but the error is not ErrStackOverflow", detail)
		return
	}
	r.Inc("c:ended-in-error")
}

func (c *c06) RunCase(r *fw.Rec, cs fw.Case) {
	rng := cs.Rng("c06")
	switch cs.Index % 8 {
	case 0, 1, 2:
		c.allocCase(r, rng)
	case 3, 4, 5, 6:
		c.lengthCase(r, rng, cs.Index/8*4+cs.Index%8-3)
	default:
		c.recursionCase(r, rng)
	}
}

func (c *c06) Finish(m *fw.Merged, tier string) {
	for _, k := range []string{"a:programs", "a:budgets_swept", "b:boundary-probes", "b:refused", "b:produced", "b:generated-programs", "c:recursion-probes", "c:ended-in-error"} {
		if m.Counters[k] == 0 {
			m.Fail("never observed: " + k)
		}
	}
}
