package props

import (
	"context"
	"errors"
	"fmt"
	"math/rand"
	"runtime"
	"strings"
	"sync"
	"sync/atomic"
	"time"

	"github.com/d5/tengo/v2"
	"github.com/d5/tengo/v2/parser"

	"verif/fw"
)

// C07 — cancellation stops any running script promptly and cleanly.
type c07 struct{}

func init() { fw.Register(&c07{}) }

func (*c07) ID() string    { return "C07" }
func (*c07) Level() string { return "exploration" }
func (*c07) NumCases(tier string) int {
	if tier == "thorough" {
		return 40000
	}
	return 2400
}
func (*c07) Config(tier string) fw.Config {
	return fw.Config{CaseTimeout: 100 * time.Second, Env: []string{"GORACE=halt_on_error=1"}, Race: true}
}
func (*c07) Rule() string {
	return "each case = one script family (tight for{}, loops with calls/closures/for-in, unbounded self tail recursion in return and statement form, long finite runs, short runs, runs failing with a run-time error near the cancel instant) parameterised by a host variable (limit = -1: never ends, limit = n: ends) and one cancellation instant chosen as a LOGICAL instant: " +
		"the VM probe cancels the context from inside the VM goroutine exactly when the k-th instruction is dispatched (k = 0: already cancelled, 1, 2, …, last, after finish), while the build-tagged yield points perturb the caller side (between goroutine start and select, before Abort, before the flag reset). " +
		"Monitors: returned error is ctx.Err() or — only if the run had finished — the run's own result; instructions dispatched while the abort flag is set <= 1; the flag becomes visible within 5*10^7 instructions and 10 s after cancel; no goroutine with VM frames survives the call; a following run on the same Compiled with a finite limit gives the expected value. " +
		"Also direct VM reuse (NewVM, Run aborted at any call depth, Run again), a cancellation that lands inside a slow native call (RunContext may return only after the VM goroutine is done), and several callers sharing one Compiled whose contexts expire while another run is active (nothing may stay locked or leaked). Everything runs under the Go race detector. distinct = distinct (script, limit, instant); non-trivial = the cancel instant fell strictly inside the run"
}
func (*c07) Assumptions() []string {
	return []string{
		"promptness is measured in dispatched instructions from the moment the abort flag is set (scheduler latency between cancel() and Abort() is outside the engine)",
		"how long a native call takes is outside the claim (the VM cannot interrupt it); what is claimed and checked is that RunContext returns only once the VM goroutine has left it",
		"wall-clock limits act only as watchdogs together with an instruction bound",
	}
}

type c07Script struct {
	name   string
	src    string
	finite func(limit int64) string // canonical expected `out` for a finite limit
	fails  bool                     // ends with a run-time error when finite
}

var c07Scripts = []c07Script{
	{"counted loop", "out := 0; for i := 0; limit < 0 || i < limit; i++ { out += i }", func(l int64) string { return fmt.Sprintf("i%d", l*(l-1)/2) }, false},
	{"tight loop", "if limit < 0 { for { } }; out := limit * 2", func(l int64) string { return fmt.Sprintf("i%d", l*2) }, false},
	{"tail recursion (return)", "f := func(n, acc) { if limit >= 0 && n >= limit { return acc }; return f(n + 1, acc + n) }; out := f(0, 0)", func(l int64) string { return fmt.Sprintf("i%d", l*(l-1)/2) }, false},
	{"tail recursion (statement)", "cnt := 0; h := func(n) { if limit >= 0 && n >= limit { return }; cnt++; h(n + 1) }; h(0); out := cnt", func(l int64) string { return fmt.Sprintf("i%d", l) }, false},
	{"tail recursion (&&)", "cnt := 0; t := func(n) { cnt = n; return (limit < 0 || n < limit) && t(n + 1) }; t(0); out := cnt", func(l int64) string { return fmt.Sprintf("i%d", l) }, false},
	{"calls, closures, for-in", "g := func(x) { return x + 1 }; out := 0; for limit < 0 || out < limit { for v in [1, 2, 3] { out = g(out); k := func() { return v }; out += k() - v } }", func(l int64) string {
		return fmt.Sprintf("i%d", (l+2)/3*3)
	}, false},
	{"for-in over range in loop", "out := 0; for limit < 0 || out < limit { for v in range(0, 10) { out += 1 } }", func(l int64) string { return fmt.Sprintf("i%d", (l+9)/10*10) }, false},
	{"string building", "s := \"\"; out := 0; for limit < 0 || out < limit { s = \"x\" + out; out = len(s) > 0 ? out + 1 : 0 }", func(l int64) string { return fmt.Sprintf("i%d", l) }, false},
	{"fails after the loop", "out := 0; for i := 0; limit < 0 || i < limit; i++ { out += 1 }; bad := out + \"s\"", func(l int64) string { return fmt.Sprintf("i%d", l) }, true},
	{"if/else then empty loop", "out := 0; if limit >= 0 { out = limit * 3 } else { if out == 0 { out = 1 } else { out = 2 }; for { } }", func(l int64) string { return fmt.Sprintf("i%d", l*3) }, false},
	{"break then empty loop", "out := 0; if limit >= 0 { out = limit + 5 } else { for { out++; if out > 3 { break } }; for { } }", func(l int64) string { return fmt.Sprintf("i%d", l+5) }, false},
	{"empty loops in a function", "spin := func(n) { if n > 0 { n = 1 } else { n = 2 }; for { continue } }; out := 0; if limit >= 0 { out = limit } else { spin(1) }", func(l int64) string { return fmt.Sprintf("i%d", l) }, false},
	{"return-form then statement-form tail recursion", "cnt := 0; h := func(n) { if limit >= 0 && n >= limit { return }; cnt++; h(n + 1) }; f := func(n, acc) { if n >= 5 { return acc }; return f(n + 1, acc + n) }; pre := f(0, 0); h(0); out := pre * 1000 + cnt", func(l int64) string { return fmt.Sprintf("i%d", 10000+l) }, false},
	{"nested calls three deep", "c3 := func(x) { for limit < 0 { x++ }; return x + 1 }; c2 := func(x) { return c3(x) + 1 }; c1 := func(x) { return c2(x) + 1 }; out := c1(limit) + c1(1)", func(l int64) string { return fmt.Sprintf("i%d", l+3+4) }, false},
	{"non-tail recursion inside loop", "r := func(n) { return n <= 0 ? 0 : 1 + r(n - 1) }; out := 0; for limit < 0 || out < limit { out += r(5) - 4 }", func(l int64) string { return fmt.Sprintf("i%d", l) }, false},
}

type c07Probe struct {
	count       int64
	cancelAt    int64
	cancel      context.CancelFunc
	cancelled   atomic.Bool
	afterAbort  int64 // instructions dispatched while the abort flag was set
	sinceCancel int64 // instructions dispatched since cancel() while the flag was still clear
	cancelTime  time.Time
	sawSuspend  bool
	forced      string
	total       int64
}

func (p *c07Probe) probe(v *tengo.VM) {
	p.count++
	ins := v.VerifInsts()
	ip := v.VerifIP()
	if v.VerifFrameIndex() == 1 && ip >= 0 && ip < len(ins) && ins[ip] == parser.OpSuspend {
		p.sawSuspend = true
	}
	if p.cancelAt > 0 && p.count == p.cancelAt && p.cancel != nil {
		p.cancelTime = time.Now()
		p.cancelled.Store(true)
		p.cancel()
	}
	if v.VerifAborting() {
		p.afterAbort++
		if p.afterAbort > 1_000_000 {
			p.forced = "the VM kept dispatching instructions after the abort flag was set"
			panic("verif: force stop (abort flag ignored)")
		}
	} else if p.cancelled.Load() {
		p.sinceCancel++
		if p.sinceCancel > 50_000_000 && time.Since(p.cancelTime) > 10*time.Second {
			p.forced = "cancellation was not delivered: the abort flag is still clear 5*10^7 instructions and 10 s after cancel()"
			panic("verif: force stop (cancellation not delivered)")
		}
	}
	if p.count > 2_000_000_000 {
		p.forced = "runaway"
		panic("verif: force stop (runaway)")
	}
}

var c07YieldSeq atomic.Uint64

func c07InstallYield(seed uint64) {
	tengo.VerifYield = func(point string) {
		n := c07YieldSeq.Add(1)
		h := (n*0x9E3779B97F4A7C15 + seed) >> 33
		switch h % 6 {
		case 0:
			runtime.Gosched()
		case 1:
			time.Sleep(time.Duration(h%200) * time.Microsecond)
		case 2:
			runtime.Gosched()
			runtime.Gosched()
		}
	}
}

func vmGoroutines() int {
	buf := make([]byte, 1<<20)
	n := runtime.Stack(buf, true)
	c := 0
	for _, g := range strings.Split(string(buf[:n]), "\n\n") {
		if strings.Contains(g, "tengo/v2.(*VM).run") || strings.Contains(g, "(*Compiled).RunContext.func1") {
			c++
		}
	}
	return c
}

func (c *c07) RunCase(r *fw.Rec, cs fw.Case) {
	rng := cs.Rng("c07")
	if cs.Index%12 == 11 {
		c.vmReuse(r, rng)
		return
	}
	if cs.Index%24 == 10 {
		c.slowNative(r, rng)
		return
	}
	if cs.Index%24 == 22 {
		c.twoCallers(r, rng)
		return
	}
	sc := c07Scripts[cs.Index%len(c07Scripts)]
	if rng.Intn(3) == 0 {
		sc = pick(rng, c07Scripts)
	}
	infinite := rng.Intn(2) == 0
	limit := int64(-1)
	if !infinite {
		limit = int64(pick(rng, []int{0, 1, 3, 50, 2000}))
	}
	s := tengo.NewScript([]byte(sc.src))
	_ = s.Add("limit", limit)
	cp, err := s.Compile()
	if err != nil {
		r.Inc("harness-compile-error")
		return
	}
	// how many instructions does a finite run take?
	var total int64
	if !infinite {
		p0 := &c07Probe{}
		ps := &probeState{userProbe: p0.probe}
		installProbe(ps)
		_ = cp.Clone().RunContext(bg)
		removeProbe()
		total = p0.count
	}
	// the logical cancellation instant
	var k int64
	switch rng.Intn(8) {
	case 0:
		k = 0 // already cancelled
	case 1:
		k = 1
	case 2:
		k = 2
	case 3:
		if infinite {
			k = int64(10 + rng.Intn(100000))
		} else {
			k = total // the last instruction (SUSPEND or the failing one)
		}
	case 4:
		if infinite {
			k = int64(1 + rng.Intn(1000))
		} else {
			k = total + 1 // after finish: never reached by the probe
		}
	case 5:
		if infinite {
			k = int64(1 + rng.Intn(2000000))
		} else if total > 2 {
			k = total - 1
		} else {
			k = 1
		}
	default:
		if infinite {
			k = int64(1 + rng.Intn(30))
		} else if total > 1 {
			k = 1 + rng.Int63n(total)
		} else {
			k = 1
		}
	}
	c07InstallYield(uint64(rng.Int63()))
	defer func() { tengo.VerifYield = nil }()
	ctx, cancel := context.WithCancel(context.Background())
	if k == 0 && rng.Intn(2) == 0 {
		// an expired deadline instead of an explicit cancel: the returned error must be ctx.Err() of that kind
		cancel()
		r.Inc("ctx:expired-deadline")
		ctx, cancel = context.WithDeadline(context.Background(), time.Now().Add(-time.Second))
	}
	defer cancel()
	pr := &c07Probe{cancelAt: k, cancel: cancel}
	if k == 0 {
		pr.cancelled.Store(true)
		pr.cancelTime = time.Now()
		cancel()
	}
	ps := &probeState{userProbe: pr.probe}
	installProbe(ps)
	done := make(chan error, 1)
	start := time.Now()
	// the context-aware entry points: Compiled.RunContext, or Script.RunContext (compiles, then runs)
	entry := "Compiled.RunContext"
	if rng.Intn(3) == 0 {
		entry = "Script.RunContext"
	}
	r.Inc("entry:" + entry)
	returnedCh := make(chan struct{})
	go func() {
		defer close(returnedCh)
		done <- safely(func() error {
			if entry == "Script.RunContext" {
				cp2, e := s.RunContext(ctx)
				if cp2 != nil {
					cp = cp2
				}
				return e
			}
			return cp.RunContext(ctx)
		})
	}()
	var runErr error
	returned := true
	switch fw.WaitOrHang(returnedCh, 60*time.Second) {
	case "done":
		runErr = <-done
	case "hang":
		returned = false
	default:
		fw.AbandonInconclusive("RunContext had not returned after 1200 s on a loaded machine")
	}
	elapsed := time.Since(start)
	removeProbe()
	r.Eval()
	r.Inc("script:" + sc.name)
	desc := fmt.Sprintf("%s limit=%d cancel at instruction %d", entry, limit, k)
	inside := pr.cancelled.Load() && k > 0 && (infinite || k <= total)
	if inside {
		r.Distinct(sc.name, fmt.Sprint(limit), fmt.Sprint(k))
		r.Inc("cancel-inside-run")
	}
	detail := map[string]interface{}{"script": sc.src, "family": sc.name, "entry_point": entry, "limit": limit, "cancel_at_instruction": k, "instructions_dispatched": pr.count,
		"instructions_after_abort_flag": pr.afterAbort, "instructions_between_cancel_and_flag": pr.sinceCancel, "returned_error": fmt.Sprint(runErr), "wall_ms": elapsed.Milliseconds()}
	if !returned {
		r.Violate("no-return:"+sc.name, "RunContext did not return after a cancellation (60 s of CPU time spent, or blocked for 60 s; "+desc+")", detail)
		// the VM goroutine may still spin: this worker is poisoned; give up the case list
		panic("verif: RunContext hung; worker abandoned")
	}
	if pr.forced != "" {
		detail["monitor"] = pr.forced
		r.Violate("promptness:"+firstWord(pr.forced), pr.forced, detail)
		return
	}
	if p, ok := isPanic(runErr); ok {
		detail["stack"] = trunc(p.stack, 2000)
		r.Violate("panic", "RunContext panicked", detail)
		return
	}
	// (1) return value
	cancelledBeforeReturn := pr.cancelled.Load()
	finished := pr.sawSuspend || (sc.fails && !infinite && runErr != nil && strings.Contains(runErr.Error(), "invalid operation"))
	switch {
	case runErr == nil:
		if !pr.sawSuspend {
			r.Violate("nil-but-unfinished:"+sc.name, "RunContext returned nil although the script had not finished ("+desc+")", detail)
			return
		}
		r.Inc("result:own(nil)")
	case errors.Is(runErr, context.Canceled) || errors.Is(runErr, context.DeadlineExceeded):
		if ctx.Err() == nil || runErr != ctx.Err() {
			r.Violate("wrong-context-error", "RunContext returned a context error that is not ctx.Err()", detail)
			return
		}
		if !cancelledBeforeReturn {
			r.Violate("cancelled-without-cancel", "RunContext returned context.Canceled although the context was not cancelled", detail)
			return
		}
		r.Inc("result:ctx.Err")
	default:
		// the run's own error: allowed only if the run really ended that way
		if !(sc.fails && !infinite && strings.Contains(runErr.Error(), "invalid operation: int + string")) {
			r.Violate("unexpected-error:"+sc.name, "RunContext returned an error that is neither ctx.Err() nor the run's own result ("+desc+")", detail)
			return
		}
		r.Inc("result:own(error)")
	}
	_ = finished
	// (2) promptness in instructions
	if pr.afterAbort > 1 {
		r.Violate("promptness:after-flag", fmt.Sprintf("%d instructions were dispatched after the abort flag was set", pr.afterAbort), detail)
		return
	}
	// (3) no goroutine left behind
	leaked := 0
	for try := 0; try < 50; try++ {
		if leaked = vmGoroutines(); leaked == 0 {
			break
		}
		time.Sleep(2 * time.Millisecond)
	}
	if leaked > 0 {
		detail["goroutines_with_vm_frames"] = leaked
		r.Violate("goroutine-leak", "a goroutine executing the VM is still alive after RunContext returned", detail)
		return
	}
	// (4) the same Compiled runs again with correct results
	n2 := int64(pick(rng, []int{0, 1, 7, 100}))
	if rng.Intn(2) == 0 {
		// a rejected Set in between must not disturb the object either
		if e := cp.Set("no_such_variable", 1); e == nil {
			r.Violate("set-undeclared-accepted", "Set accepted an undeclared name", detail)
			return
		}
	}
	if e := cp.Set("limit", n2); e != nil {
		r.Violate("set-after-cancel", "Set failed after a cancelled run: "+e.Error(), detail)
		return
	}
	p2 := &c07Probe{}
	installProbe(&probeState{userProbe: p2.probe})
	err2 := safely(func() error { return cp.RunContext(context.Background()) })
	removeProbe()
	r.Eval()
	detail["rerun_limit"] = n2
	detail["rerun_error"] = fmt.Sprint(err2)
	if sc.fails {
		if err2 == nil || !strings.Contains(err2.Error(), "invalid operation: int + string") {
			r.Violate("rerun:wrong-outcome", "re-running the same Compiled after a cancellation did not give the expected failure", detail)
			return
		}
	} else if err2 != nil {
		r.Violate("rerun:error", "re-running the same Compiled after a cancellation failed", detail)
		return
	}
	got := canon(cp.Get("out").Object())
	if want := sc.finite(n2); got != want {
		detail["rerun_out"] = got
		detail["rerun_want"] = want
		r.Violate("rerun:wrong-result:"+sc.name, "re-running the same Compiled after a cancellation gave a wrong result (stale state?)", detail)
		return
	}
	r.Inc("reruns-checked")
	if r.WantSample() && inside {
		r.Sample(map[string]interface{}{"script": sc.src, "limit": limit, "cancel_at_instruction": k, "dispatched": pr.count, "after_flag": pr.afterAbort, "returned": fmt.Sprint(runErr)})
	}
}

// vmReuse drives the VM API directly: Run, Abort, Run on one VM.
func (c *c07) vmReuse(r *fw.Rec, rng *rand.Rand) { vmReuseAfterAbort(r, rng) }

// vmReuseAfterAbort: NewVM once; the first Run (a script that never ends, limit = -1) is aborted at a logical instant —
// from inside the VM goroutine when the k-th instruction is dispatched, i.e. at any call depth and in any frame state —
// and the same VM then runs the script again with a finite limit. VM.Run resets the machine, so the second run must
// behave like a run on a fresh VM: no error, the expected result, an empty operand stack. (Shared by C07, C02 and C16.)
func vmReuseAfterAbort(r *fw.Rec, rng *rand.Rand) {
	var sc c07Script
	for {
		sc = pick(rng, c07Scripts)
		if !sc.fails {
			break
		}
	}
	src := sc.src
	rc, err := compileRaw([]byte(src), map[string]tengo.Object{"limit": &tengo.Int{Value: -1}}, nil)
	if err != nil {
		r.Inc("harness-compile-error")
		return
	}
	globals := rc.Globals
	vm := tengo.NewVM(rc.BC, globals, -1)
	k := int64(1 + rng.Intn(5000))
	if rng.Intn(3) == 0 {
		k = int64(1 + rng.Intn(60))
	}
	early := rng.Intn(4) == 0
	var count int64
	maxFrame := 0
	installProbe(&probeState{userProbe: func(v *tengo.VM) {
		count++
		if fi := v.VerifFrameIndex(); fi > maxFrame {
			maxFrame = fi
		}
		if count == k {
			v.Abort() // a host aborting from another place at a logical instant
		}
		if count > 50_000_000 {
			panic("verif: force stop")
		}
	}})
	if early {
		vm.Abort() // before Run even starts
	}
	e1 := safely(func() error { return vm.Run() })
	removeProbe()
	r.Eval()
	r.Inc("vm-reuse")
	r.Inc(fmt.Sprintf("vm-reuse:aborted-at-frame-depth:%d", min(maxFrame, 4)))
	detail := map[string]interface{}{"script": src, "family": sc.name, "abort_at_instruction": k, "abort_before_run": early, "first_run_error": fmt.Sprint(e1), "first_run_instructions": count}
	if _, ok := isPanic(e1); ok {
		r.Violate("vmreuse:abort-ignored", "VM.Abort did not stop a script that never ends", detail)
		return
	}
	if early && count > 1 {
		r.Violate("vmreuse:early-abort-lost", "an Abort issued before Run started was lost", detail)
		return
	}
	// second run on the same VM with a finite limit must execute fully
	for _, lim := range []int64{10, 3} {
		globals[rc.Index["limit"]] = &tengo.Int{Value: lim}
		count = 0
		installProbe(&probeState{userProbe: func(v *tengo.VM) { count++ }})
		e2 := safely(func() error { return vm.Run() })
		removeProbe()
		r.Eval()
		out := "nil"
		if o := globals[rc.Index["out"]]; o != nil {
			out = canon(o)
		}
		detail["rerun_limit"] = lim
		detail["rerun_error"] = fmt.Sprint(e2)
		detail["rerun_out"] = out
		detail["rerun_want"] = sc.finite(lim)
		if e2 != nil || out != sc.finite(lim) {
			r.Violate("vmreuse:stale-state:"+sc.name, "a VM that was aborted does not run correctly afterwards (state of the aborted run survives VM.Run's reset)", detail)
			return
		}
		if !vm.IsStackEmpty() {
			r.Violate("vmreuse:stack-not-empty:"+sc.name, "a re-run of an aborted VM ended without error but left the operand stack non-empty", detail)
			return
		}
	}
	r.Inc("vm-reuse-reruns-checked")
	r.Distinct("vmreuse", sc.name, fmt.Sprint(k), fmt.Sprint(early))
}

// tengoGoroutines counts goroutines (other than the caller's) that have any frame of the engine on their stack or were
// started by it: the VM goroutine of RunContext, but also helpers the engine may start around its lock or its context.
func tengoGoroutines() (int, string) {
	buf := make([]byte, 1<<20)
	n := runtime.Stack(buf, true)
	c, first := 0, ""
	for i, g := range strings.Split(string(buf[:n]), "\n\n") {
		if i == 0 {
			continue // the calling goroutine
		}
		if strings.Contains(g, "github.com/d5/tengo/v2.") {
			c++
			if first == "" {
				first = trunc(g, 1500)
			}
		}
	}
	return c, first
}

// manualCtx is a context whose deadline "passes" when expire is called.
type manualCtx struct {
	done chan struct{}
	once sync.Once
	dead atomic.Bool
}

func (m *manualCtx) Deadline() (time.Time, bool)   { return time.Time{}, false }
func (m *manualCtx) Done() <-chan struct{}         { return m.done }
func (m *manualCtx) Value(interface{}) interface{} { return nil }
func (m *manualCtx) Err() error {
	if m.dead.Load() {
		return context.DeadlineExceeded
	}
	return nil
}
func (m *manualCtx) expire() { m.once.Do(func() { m.dead.Store(true); close(m.done) }) }

// slowHost is a native function that takes a while (it sleeps; it neither knows the context nor waits for the harness),
// and records whether the VM is inside it.
type slowHost struct {
	inCall  atomic.Int32
	entered chan struct{}
	d       time.Duration
}

func (h *slowHost) fn() *tengo.UserFunction {
	return &tengo.UserFunction{Name: "slow", Value: func(args ...tengo.Object) (tengo.Object, error) {
		h.inCall.Store(1)
		select {
		case h.entered <- struct{}{}:
		default:
		}
		time.Sleep(h.d)
		h.inCall.Store(0)
		return &tengo.Int{Value: 1}, nil
	}}
}

// slowNative: the context is cancelled while the script is inside a native call that takes a few hundred milliseconds.
// RunContext may return only once the VM goroutine is done: when it returns, the VM must not be inside the native call
// any more, no goroutine of the engine may be left, and the same Compiled must run again correctly.
func (c *c07) slowNative(r *fw.Rec, rng *rand.Rand) {
	h := &slowHost{entered: make(chan struct{}, 1), d: time.Duration(250+rng.Intn(300)) * time.Millisecond}
	src := "out := 0; for i := 0; i < reps; i++ { out += slow(i) }; out += limit"
	s := tengo.NewScript([]byte(src))
	_ = s.Add("limit", 5)
	_ = s.Add("reps", 3)
	_ = s.Add("slow", h.fn())
	cp, err := s.Compile()
	if err != nil {
		r.Inc("harness-compile-error")
		return
	}
	var ctx context.Context
	ctx, cancel := context.WithCancel(context.Background())
	defer cancel()
	useDeadline := rng.Intn(2) == 0
	if useDeadline {
		// a context that ends with DeadlineExceeded at an instant the harness chooses (no timer involved)
		mc := &manualCtx{done: make(chan struct{})}
		ctx, cancel = mc, mc.expire
	}
	retCh := make(chan error, 1)
	go func() { retCh <- safely(func() error { return cp.RunContext(ctx) }) }()
	select {
	case <-h.entered:
	case <-time.After(60 * time.Second):
		fw.AbandonInconclusive("the script did not reach its native call within 60 s")
	}
	cancel()
	done := make(chan struct{})
	var runErr error
	go func() { runErr = <-retCh; close(done) }()
	switch fw.WaitOrHang(done, 60*time.Second) {
	case "hang":
		r.Violate("no-return:slow-native", "RunContext did not return after a cancellation during a native call", map[string]interface{}{"script": src})
		panic("verif: RunContext hung; worker abandoned")
	case "inconclusive":
		fw.AbandonInconclusive("RunContext had not returned after 1200 s on a loaded machine")
	}
	inside := h.inCall.Load()
	r.Eval()
	r.Inc("slow-native")
	detail := map[string]interface{}{"script": src, "native_call_ms": h.d.Milliseconds(), "deadline_instead_of_cancel": useDeadline, "returned_error": fmt.Sprint(runErr)}
	if inside != 0 {
		r.Violate("returned-while-vm-running", "RunContext returned while the VM goroutine was still inside a native call (the run was left behind)", detail)
		time.Sleep(h.d) // let it drain before the next case
		return
	}
	if runErr == nil || runErr != ctx.Err() {
		r.Violate("slow-native:wrong-result", "RunContext returned something other than ctx.Err() although the context ended during the run", detail)
		return
	}
	if n, g := tengoGoroutines(); n > 0 {
		time.Sleep(20 * time.Millisecond)
		if n, g = tengoGoroutines(); n > 0 {
			detail["goroutine"] = g
			r.Violate("goroutine-leak", "a goroutine of the engine is still alive after RunContext returned", detail)
			return
		}
	}
	h.d = time.Millisecond
	_ = cp.Set("limit", 7)
	_ = cp.Set("reps", 2)
	if e := safely(func() error { return cp.RunContext(context.Background()) }); e != nil || canon(cp.Get("out").Object()) != "i9" {
		detail["rerun_error"] = fmt.Sprint(e)
		detail["rerun_out"] = canon(cp.Get("out").Object())
		r.Violate("rerun:wrong-result:slow-native", "re-running the same Compiled after a cancellation during a native call gave a wrong result", detail)
		return
	}
	r.Inc("slow-native-checked")
	r.Distinct("slow-native", fmt.Sprint(h.d), fmt.Sprint(useDeadline), fmt.Sprint(rng.Int63()))
}

// twoCallers: two goroutines share ONE Compiled. While the first run is active (inside a native call), the second
// caller's context expires. Whatever the second call returns, afterwards nothing may be left behind: every further
// Get/Set/Run/Clone returns, and no goroutine of the engine survives.
func (c *c07) twoCallers(r *fw.Rec, rng *rand.Rand) {
	h := &slowHost{entered: make(chan struct{}, 1), d: time.Duration(150+rng.Intn(200)) * time.Millisecond}
	src := "out := slow(0) + limit"
	s := tengo.NewScript([]byte(src))
	_ = s.Add("limit", 5)
	_ = s.Add("slow", h.fn())
	cp, err := s.Compile()
	if err != nil {
		r.Inc("harness-compile-error")
		return
	}
	aCh := make(chan error, 1)
	go func() { aCh <- safely(func() error { return cp.RunContext(context.Background()) }) }()
	select {
	case <-h.entered:
	case <-time.After(60 * time.Second):
		fw.AbandonInconclusive("the script did not reach its native call within 60 s")
	}
	nB := 1 + rng.Intn(3)
	bCh := make(chan error, nB)
	for i := 0; i < nB; i++ {
		go func(i int) {
			ctxB, cancelB := context.WithTimeout(context.Background(), time.Duration(5+10*i)*time.Millisecond)
			defer cancelB()
			bCh <- safely(func() error { return cp.RunContext(ctxB) })
		}(i)
	}
	done := make(chan struct{})
	var errs []error
	go func() {
		errs = append(errs, <-aCh)
		for i := 0; i < nB; i++ {
			errs = append(errs, <-bCh)
		}
		close(done)
	}()
	detail := map[string]interface{}{"script": src, "native_call_ms": h.d.Milliseconds(), "second_callers": nB}
	switch fw.WaitOrHang(done, 60*time.Second) {
	case "hang":
		r.Violate("no-return:two-callers", "RunContext calls sharing one Compiled did not all return", detail)
		panic("verif: RunContext hung; worker abandoned")
	case "inconclusive":
		fw.AbandonInconclusive("RunContext had not returned after 1200 s on a loaded machine")
	}
	r.Eval()
	r.Inc("two-callers")
	for i, e := range errs {
		if p, ok := isPanic(e); ok {
			detail["stack"] = trunc(p.stack, 2000)
			r.Violate("panic", "RunContext panicked", detail)
			return
		}
		if e != nil && !(errors.Is(e, context.DeadlineExceeded) && i > 0) {
			detail["error"] = e.Error()
			r.Violate("two-callers:unexpected-error", "a RunContext call returned an error that is neither its own context's nor the run's", detail)
			return
		}
	}
	time.Sleep(time.Duration(rng.Intn(30)) * time.Millisecond)
	// liveness of the object afterwards
	live := make(chan error, 1)
	go func() {
		live <- safely(func() error {
			_ = cp.Get("out")
			_ = cp.IsDefined("out")
			if e := cp.Set("limit", 11); e != nil {
				return e
			}
			_ = cp.Clone()
			h.d = time.Millisecond
			return cp.RunContext(context.Background())
		})
	}()
	liveDone := make(chan struct{})
	var liveErr error
	go func() { liveErr = <-live; close(liveDone) }()
	switch fw.WaitOrHang(liveDone, 60*time.Second) {
	case "hang":
		r.Violate("unusable-after-timeout:deadlock", "Get/Set/Clone/RunContext did not return after a second caller's context had expired while a run was active (lock left held?)", detail)
		panic("verif: worker abandoned after a hang")
	case "inconclusive":
		fw.AbandonInconclusive("Get/Set/RunContext had not returned after 1200 s on a loaded machine")
	}
	if liveErr != nil || canon(cp.Get("out").Object()) != "i12" {
		detail["rerun_error"] = fmt.Sprint(liveErr)
		detail["rerun_out"] = canon(cp.Get("out").Object())
		r.Violate("rerun:wrong-result:two-callers", "the shared Compiled does not run correctly afterwards", detail)
		return
	}
	if n, g := tengoGoroutines(); n > 0 {
		time.Sleep(50 * time.Millisecond)
		if n, g = tengoGoroutines(); n > 0 {
			detail["goroutine"] = g
			r.Violate("goroutine-leak", "a goroutine of the engine is still alive after all calls returned", detail)
			return
		}
	}
	r.Inc("two-callers-checked")
	r.Distinct("two-callers", fmt.Sprint(nB), fmt.Sprint(rng.Int63()))
}

func (c *c07) Finish(m *fw.Merged, tier string) {
	for _, k := range []string{"entry:Script.RunContext", "entry:Compiled.RunContext", "cancel-inside-run", "result:ctx.Err", "result:own(nil)", "result:own(error)", "reruns-checked", "vm-reuse", "vm-reuse-reruns-checked", "slow-native-checked", "two-callers-checked"} {
		if m.Counters[k] == 0 {
			m.Fail("never observed: " + k)
		}
	}
}
