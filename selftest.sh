#!/bin/bash
# selftest.sh [id ...] — monitor self-validation (not part of MANIFEST): applies every seeded change of
# /verif/seeded to /repo, runs the quick check(s) that meta.json names, expects a VIOLATION, and undoes it.
# Must not run while anything else uses /repo.
cd "$(dirname "$0")"
export VERIF_EVIDENCE_DIR=/verif/work/seeded-evidence   # never overwrite the evidence of the unchanged tree
IDS="$@"; [ -z "$IDS" ] && IDS=$(ls seeded | grep -v confirm.sh)
fail=0
for id in $IDS; do
  d=seeded/$id
  [ -f $d/patch.diff ] || continue
  checks=$(python3 -c "import json;print(' '.join(json.load(open('$d/meta.json'))['caught_by_quick_check'][:1]))")
  git -C /repo diff --quiet || { echo "/repo is dirty"; exit 2; }
  git -C /repo apply $d/patch.diff || { echo "$id: patch does not apply"; fail=1; continue; }
  for c in $checks; do
    if ./check $c quick 2>&1 | grep -q "^VIOLATION property=$c"; then echo "$id: caught by $c"; else echo "$id: MISSED by $c"; fail=1; fi
  done
  git -C /repo checkout -- .
done
exit $fail
