#!/usr/bin/env python3
"""Regenerates /verif/MANIFEST.json from the table below (keeps it schema-valid)."""
import json, subprocess, sys, os

ROOT = os.path.dirname(os.path.abspath(__file__))

# id -> (category, technique, level text, level note)
CHECKS = {
    "C01": ("exploration",
            "reference-model runtime monitor: generated programs run by the real engine (Script.Add/Compile/RunContext/GetAll) and by an independent tree-walking reference interpreter executed next to it; outcome (globals, error kind) compared per program; VM probe records opcode coverage",
            "Each generated program (whole grammar, all builtins, host inputs of every runtime type, plus directed compositions) is executed by the real compiler+VM and by the reference interpreter under 4 map-order/append-capacity policies; final globals are compared structurally and errors by message. Programs whose outcome depends on an open choice are discarded and counted. Held on the programs listed in evidence; the model is an oracle, not a proof.",
            "Trusted: the parser (AST shared by both sides), harness/ref (the model; characterised rules in harness/ref/CHARACTERISED.md). Limits 64 KiB for strings/bytes on both sides; budget-exceeding runs are inconclusive."),
    "C02": ("exploration",
            "invariant monitor on emitted artefacts (bytecode verifier run at the quiescent point after Compiler.Bytecode() and after RemoveDuplicates) cross-validated by a VM-probe assertion on every dispatched instruction",
            "Every function (main, nested literals, closures, source modules; called or not) of every generated program is decoded and checked: instruction boundaries, jump targets, constant/local/free/builtin/global operands, CLOSURE targets and free counts, one non-negative operand-stack height per instruction along all paths, RET/SUSPEND heights, no fall-through. The program is then run; at every dispatch the probe asserts that ip is an instruction start and that sp-base-NumLocals equals the verifier's height, a clean run must leave the stack empty and no error may be an internal fault. Boundary probes require a compile error beyond each static limit. Held on the programs listed in evidence; programs nobody generated are not covered.",
            "Trusted: parser.OpcodeOperands for decoding (cross-checked by the probe: a wrong width derails the height assertion), the stack-effect table (validated against the machine at run time)."),
    "C04": ("exploration",
            "hostile-input runtime monitor: recover around every public entry point, driver-side watchdog for non-termination, independent line-table check of every reported error position",
            "Valid generated programs, token-level mutations of them over the full token alphabet (every keyword and builtin name in every position), raw bytes and directed probes are fed to parser.ParseFile, File.String, Compiler.Compile+Bytecode+RemoveDuplicates, Script.Compile under random configurations (module maps incl. the input as its own module, 0/3/1000/1030 predeclared variables, file import, const-object limit) and as a module body. A panic or a watchdog firing is a violation; every position in a returned ErrorList/CompilerError is recomputed from an independent line table. Held on the inputs listed in evidence.",
            "Inputs <= 64 KiB. Non-termination = the worker spent 90 s of CPU time on one case of 40 inputs that normally take milliseconds, or sat blocked for that long (never the wall clock alone)."),
    "C05": ("exploration",
            "hostile-workload runtime monitor: worker-side recover and watchdogs around every context-aware entry point (Compiled.RunContext / Script.RunContext x cancellable / non-cancellable context), recovery run of the same Compiled with the hostile part switched off, post-run structural invariant walk of all globals (no Go-nil object), liveness probe of Get/Set/Clone/second RunContext, driver-side supervision of worker death, child-process probes for process-fatal inputs",
            "Hostile programs (failure atoms for every operator x type pair, index/slice/selector misuse, call misuse, runaway recursion of several shapes, mutation while iterating, every builtin with every argument type and arity, extreme arguments, immutable writes; planted at top level, in closures, loops, call arguments and module functions; plus generated programs with 15% ill-typed operations) are executed through RunContext with instruction and allocation budgets. A panic reaching the host, a call that does not return, a Go-nil object reachable from the globals, a host-side read that panics, or a compiled object that cannot be used again is a violation; worker death is caught by the driver. Cyclic containers (recorded finding) are probed by exact inputs in a child process. Held on the programs listed in evidence.",
            "Unbounded allocation is outside the claim. Known findings: the eight cyclic-container inputs in known_findings.jsonl."),
    "C06": ("exploration",
            "threshold and conservation monitors: allocation budgets swept 0..A+3 with A counted independently by the VM probe (instruction classification, not the VM's counter); reachable-value walk under small MaxStringLen/MaxBytesLen with boundary probes per producer; recursion probes through RunContext",
            "(a) For generated programs the unlimited run is observed by the probe, which counts tracked allocations by classifying completed instructions; every budget N = 0..A+3 and -1 is then run: below A the run must stop with ErrObjectAllocLimit having completed at most N allocations, from A on it must equal the unlimited run. (b) With small string/bytes maxima every core-language producer is driven across the boundary; over-long results must be refused with the limit sentinel, fitting ones produced, and after every run all values reachable from the globals are walked. (c) Recursion beyond the frame limit must end in ErrStackOverflow, beyond the operand stack in some error. Held on the cases listed in evidence.",
            "Trusted: the probe's instruction classification as the independent allocation count. Process-wide limits are changed only inside single-threaded workers."),
    "C07": ("exploration",
            "schedule exploration at logical instants: the VM probe cancels the context (explicit cancel or expired deadline; through Compiled.RunContext and Script.RunContext) from inside the VM goroutine at the k-th dispatched instruction while build-tagged yield points perturb the caller side; online monitors on return value, instructions dispatched after the abort flag, goroutine dump, re-run result; all under the Go race detector",
            "Script families (never-ending when limit = -1) are cancelled at instants 0 (already cancelled), 1, 2, inside, last instruction, after finish. The returned error must be ctx.Err() or, only if the script finished, its own result; at most one instruction may be dispatched once the abort flag is set; the flag must become visible within 5*10^7 instructions and 10 s; no goroutine with VM frames may survive; the same Compiled must then run a finite limit correctly. Direct VM reuse (Run, Abort, Run) is driven as well. The harness is built with -race (halt_on_error=1). Held on the (script, limit, instant) triples listed in evidence.",
            "Bounded-progress restatement of 'promptly': measured in dispatched instructions after the flag is set. Go scheduler latency between cancel() and Abort() is outside the engine."),
    "C08": ("exploration",
            "Go race detector (harness built with -race, halt_on_error=1) over a concurrent clone workload aimed at shared state, differential isolation monitor against each clone's sequential replay, porcupine linearizability check of recorded API histories on one object, deadline-stress of RunContext interleaved with API calls",
            "Script families touching shared constants, file-set lookups, modules, closures, mutable and inherited inputs and the formatter pool are compiled once; 8 clones (taken concurrently, before and after a run) run 6 iterations each on 8 goroutines with unique inputs while yield points inside Clone widen the window; every result is compared with the same clone sequence replayed sequentially afterwards, the original must stay unchanged, ReplaceBuiltinModule on one clone runs meanwhile. Histories of Set/Get/IsDefined/Run/Clone by 4 clients on one object are checked with porcupine against a sequential model. Any data race in tengo frames ends the worker and is reported with its stacks. Held on the executions listed in evidence; interleavings are sampled, not enumerated.",
            "Trusted: the Go race detector; porcupine v1.3.0. Known finding (recorded in known_findings.jsonl): clones taken after a run share closure cells."),
    "C09": ("exploration",
            "history-over-one-object runtime monitor: shadow snapshot of the immutable value taken through Compiled.Get after its creation and after every operation of a random sequence, each operation being its own RunContext on the same Compiled",
            "Immutable values of four origins (immutable expression, freeze, module export, builtin-module table) built from fresh nested literals are subjected to random sequences of up to 12 operations on themselves and on everything derived from them; after every step the snapshot (whole tree for frozen values, immutable spine for shallow ones) must equal the first one. freeze is additionally checked for equality with its argument, no mutable container reachable from the result, and independence from later writes to the argument. Held on the sequences listed in evidence.",
            "Trusted: values come from fresh literals (no prior mutable alias). Containers inside error values are not generated below frozen values; the two exact inputs showing a frozen value changing through an error payload are probed and listed as known findings."),
    "C10": ("exploration",
            "algebraic-law runtime monitor over results of one compiled probe script run by the real VM for all ordered pairs of a boundary value pool plus random nested values; independent truthiness and conversion tables",
            "For each pair (a, b) the script evaluates ==, !=, <, <=, >, >= in both operand orders, six ways of observing truthiness, copy and the conversion builtins with and without default. The monitor checks symmetry, negation, converse, trichotomy and <=/>= consistency for same-ordered-type and int/float pairs, int/char ordering by code point without equality, the documented falsiness table, structural equality and state independence of copy (all mutable positions of copy and original are overwritten), and the documented conversion table. Held on the pairs listed in evidence.",
            "Trusted: the independent tables in the harness (docs/runtime-types.md, docs/builtins.md). For errors and functions the generic copy law compares payloads; the literal claim copy(x) == x is probed on four exact inputs that are listed as known findings."),
    "C11": ("exploration",
            "metamorphic runtime monitor: each program and its scope-moving transformations (into a function, into a module, sub-expressions into immediately-invoked literals, consistent renaming, compositions) are run by the real engine and compared; reference interpreter as additional oracle for the base program; VM probe proves all three instruction families were exercised",
            "For every generated closure-heavy program P up to 10 variants T(P) are produced textually from the parser's positions; P and each T(P) run through Script.Compile/RunContext and must give the same values for P's top-level variables or the same error message and line. P is also compared with the reference interpreter. Held on the (program, transformation) pairs listed in evidence.",
            "Trusted: the parser's node positions (used to cut expressions), the generator's guarantee that no closure outlives the loop iteration of a variable it captures. Directed programs add variables named like builtins and shadowing after use."),
    "C03": ("translation_validation",
            "differential runtime monitor + assertion on hooked optimizer state: every program (generated control-heavy programs, module bodies with removable top-level code, functions larger than 64 KiB) compiled with and without dead-code elimination (build-tagged hook) and both run under the VM probe; optimizeFunc's own tables checked against an independently recomputed CFG",
            "Per program: (a) optimized and keep-dead twins are compiled in one process and run; globals, full error text and every trace position must be identical; (b) for every optimizeFunc invocation the hook delivers the original stream, the position map, the new stream and both source maps, and the monitor asserts that nothing removed is CFG-reachable, every kept jump points at the image of its target, source-map entries travel with their instruction and order/content is preserved. Held on the programs listed in evidence.",
            "Trusted: the keep-dead hook (same compiler, pass 2 disabled); the reference model only as a filter for order-dependent programs."),
    "C12": ("translation_validation",
            "differential runtime monitor over bytecode variants (raw / RemoveDuplicates / Encode+Decode / original after Encode) run through NewVM.Run under the probe, plus invariant check of the de-duplicated constant pool",
            "Per program (repeated literals, closures, a source module imported from several places, builtin modules, byte-identical functions): three fresh compilations are post-processed like Script.Compile and cmd/tengo do and run; globals, error text and positions must equal the raw run; CONST/CLOSURE operands are range/type checked and no two de-duplicable constants may be equal; the original is re-run and re-encoded after Encode. Held on the programs listed in evidence.",
            "Trusted: gob (encoding), the reference model only as a filter for order-dependent programs. Decoding uses a module map without the data-only host module the program was compiled with. Known finding: two imports of a host module with a mutable attribute share it after de-duplication."),
    "C13": ("exploration",
            "runtime monitors on the real compiler/VM: independent graph oracle (DFS) for cycle detection and compiled-once file-set multiplicity, reference-interpreter differential for module values, directed isolation probes, strace syscall monitor for file-system access with a positive control",
            "Import graphs (all digraphs on <= 3 modules, random on 4-7, plain and path-like non-canonical module names, imports in functions and dead branches) must compile exactly when no cycle is reachable from main and list every reachable module once in the file set; generated module bodies are imported by generated programs and compared with the reference interpreter (immutability, undefined without export, body re-run per evaluated import); isolation probes in both directions; one helper process per run is traced with strace -f -e trace=%file: with file import disabled no syscall mentions a canary path and compilation fails with 'module not found', with it enabled the canaries are opened (proves the monitor sees the access). Held on the cases listed in evidence.",
            "Trusted: the harness's DFS; the reference interpreter's module semantics; strace. Module names are opaque keys (path-like, twin spellings); modules also arrive as objects through an embedder's own Importable. Known finding: a top-level return in a module body acts as a non-freezing export."),
    "C14": ("exploration",
            "reference-model runtime monitor for locations: the reference interpreter supplies the stack of executing statements, the real error's 'at file:line:col' trace is checked frame by frame against their source spans; errors.Is/As probes for sentinels and host errors",
            "Failing programs (planted failure of 30 kinds at call depth 0..12 behind functions with removable dead code, in main and in modules, multi-line and shared-line statements; generated programs with ill-typed operations) are run by the real engine and by the reference interpreter; message, frame count and containment of every reported position in the span of the statement executing in that frame are checked. Sentinels (allocation limit, stack overflow, index out of bounds, string/bytes limit) and a host error type are provoked at random depth and must be recognisable through errors.Is / errors.As. Held on the programs listed in evidence.",
            "Trusted: the reference interpreter's notion of 'statement executing' (innermost simple statement, or the if/for/for-in statement for its header expressions); parser node spans."),
    "C15": ("exploration",
            "history-versus-sequential-model runtime monitor over the embedding API (model's Run = reference interpreter, unique written values), plus round-trip law and independent coercion table for conversions and typed accessors",
            "(a) Random Go values of every supported and several unsupported types go through FromInterface, Script.Add, Compiled.Set, the script itself (type_name, value), ToInterface and Variable.Value; the result must be the input up to the documented normalisation, unsupported values must be rejected without touching the variable, and all typed accessors are compared with an independent coercion table. (b) Random sequences of up to 40 Add/Remove/Compile/Set/Run/Get/GetAll/IsDefined/Clone calls over 13 small scripts and several live Compiled objects are checked call by call against a sequential model; tengo.Eval is compared with the model. Held on the values and histories listed in evidence.",
            "Trusted: the reference interpreter as the model of Run; the documented conversion and coercion tables. The model shares the object given to Script.Add between compiled objects as the engine does; the exact history showing that sharing is probed and listed as a known finding."),
    "C16": ("exploration",
            "runtime monitor on the hooked VM state (frame index sampled by the probe at every dispatched instruction) combined with an executable model of the equivalent loop computed by the harness",
            "Generated self-recursive functions (1-6 parameters, variadic, locals, closures capturing parameters in chosen iterations) with the self call in tail, non-tail and free syntactic positions are run at depths up to 10^6; the result must equal the equivalent loop computed in Go, closures must report the parameter values of their own iteration, the maximum frame index must stay constant for tail positions and grow with the depth for non-tail positions; entering tail recursion from the last available frame and the discarded-result call form are probed. Held on the functions listed in evidence.",
            "Trusted: Go int64 arithmetic as the equivalent loop; the probe's frame index."),
    "C17": ("exploration",
            "differential runtime monitor: fmt.Sprintf as executable oracle over generated directives, 3 entry points, small-MaxStringLen family, totality under recover",
            "Every generated format call is executed by the real formatter (tengo.Format, builtin format, fmt.sprintf in a compiled script) and its text is compared byte-for-byte with fmt.Sprintf on the corresponding Go values; arbitrary format bytes and all object kinds are run under recover for totality; a family runs with MaxStringLen in {16,64,300} and requires text equality or ErrStringLimit exactly when Go's text exceeds the limit. Held on the executions listed in evidence, nothing is proved.",
            "Trusted: Go's fmt of the local toolchain; the three exclusions named in the property (%q on non-code-points, '#' with %x/%X on floats, EXTRA rendering); %T compared with Tengo type names; operands reached by '*' are Ints as the documentation requires."),
    "C19": ("exploration",
            "differential runtime monitor at script level: every documented member of text (incl. Regexp methods), math, base64, hex, enum and clock-independent times called from compiled scripts and judged against an independent reference table that calls the Go function named in docs/stdlib-*.md; modes: right-typed values, documented coercions, non-convertible types, wrong arities, Go-error inputs, string/bytes limit boundaries; sibling-separation accounting",
            "217 table entries, each exercised in every tier: one case = 24 script-level calls (boundary pools + structured random arguments designed to separate siblings of the same signature, e.g. needle at both ends, non-ASCII, float specials, times in UTC/fixed/named zones with a non-UTC local zone in half the times cases). Engine result must equal the reference value (bit-exact floats, instant+zone for times), Go errors must arrive as error values, wrong arity/type must be the corresponding run-time error, no call may die with a Go panic. The run fails itself if any entry was never judged or never separated from all its siblings. Held on the calls counted in evidence.",
            "Trusted: the local Go standard library as executable specification; the reference table written from the docs. Where docs are silent the verdict is weakened as listed in evidence assumptions (e.g. results longer than a configured maximum: limit error or Go value both accepted; misspelt names in the docs are counted, not judged). Out of scope: os, rand, fmt, json, times.now/since/until/sleep."),
    "C20": ("exploration",
            "runtime monitors on the real parser/compiler: independent minimal-parenthesis printer + shape comparison, independent semicolon-insertion rule vs explicit-semicolon twin, go/scanner+go/constant literal oracle, printed-form round trip through parser+compiler",
            "Random expression trees are printed with minimal parentheses from an independent precedence table and the real parser's AST shape is compared; token sequences are re-laid-out with newlines/comments in every gap and compared with the explicit-semicolon form predicted by an independent token rule (or both must be rejected); literal spellings are judged against go/scanner+go/constant; generated programs are printed with File.String(), re-parsed and re-compiled and their instructions/constants compared. Held on the inputs listed in evidence.",
            "Trusted: go/scanner, go/constant; the documented precedence table; the semicolon token rule as stated in DESIGN.md."),
    "C18": ("exploration",
            "differential runtime monitor: encoding/json (Valid, Decoder.UseNumber) as executable oracle over generated values, generated/mutated/raw decoder inputs; Go API and script level; panics caught under recover",
            "Each generated value is encoded by the real encoder; the bytes must be json.Valid, must be read by encoding/json as the same datum, and must decode back (real decoder) to an equal value with ints preserved exactly. Each decoder input (valid texts in random spellings, byte mutations, raw bytes) is decoded by the real decoder and must fail exactly when json.Valid is false, never panic, and yield the reference datum with int/float typing by literal form. Held on the executions listed in evidence.",
            "Trusted: encoding/json of the local toolchain. Generated/mutated inputs <= 4 KiB plus a nesting family 9999..3*10^6 deep. Float-overflow literals: totality only. Integer literals beyond int64 must come back as the float of that magnitude. Generated strings are valid UTF-8; three exact invalid strings are probed and listed as known findings."),
}

NOT_YET = "check not built yet in this session (planned, see DESIGN.md section 2)"

def main():
    props = [json.loads(l) for l in open(os.path.join(ROOT, "properties.jsonl"))]
    hooks_commit = subprocess.run(["git", "-C", "/repo", "log", "--format=%H", "--grep=^verif:", "--reverse"],
                                  capture_output=True, text=True).stdout.split()
    checks, na = [], []
    for p in props:
        i = p["id"]
        if i in CHECKS:
            cat, tech, text, note = CHECKS[i]
            checks.append({
                "property_id": i,
                "quick_cmd": "./check %s quick" % i,
                "thorough_cmd": "./check %s thorough" % i,
                "evidence_file": "/verif/evidence/%s.json" % i,
                "replay_cmd_template": "./check %s --replay {path}" % i,
                "engine": "harness",
                "level_claimed": {"category": cat, "text": text, "design_ref": "DESIGN.md section 2, " + i},
                "level_note": note,
                "technique": tech,
            })
        else:
            na.append({"property_id": i, "reason": NA.get(i, NOT_YET)})
    m = {
        "version": 1,
        "setup_cmd": "./setup.sh",
        "hooks": {
            "guard": "verif",
            "enable": "go build -tags verif (harness module /verif/harness replaces github.com/d5/tengo/v2 => /repo; C07/C08 additionally -race)",
            "baseline_off_cmd": "cd /repo && GOFLAGS=-mod=mod GOPROXY=off GOSUMDB=off GOTOOLCHAIN=local go test -json -vet=off -count=1 -timeout 25m ./...",
            "source_commits": hooks_commit,
            "add_only": True,
        },
        "engines": [{
            "name": "harness",
            "path": "/verif/harness",
            "serves_properties": sorted(CHECKS),
            "kind_free_text": "Go driver/worker binary (bin/verif, bin/verif-race): deterministic PRNG case lists, worker child processes with crash capture, runtime monitors on the build-tagged VM probe / optimizer / yield hooks, reference-implementation differentials, race detector, porcupine; writes evidence/<id>.json",
        }],
        "checks": checks,
        "not_applicable": na,
        "notes": "Technique family: runtime monitoring and sanitizers. Every verdict is an oracle over observed executions of the real code; see DESIGN.md. Known findings: known_findings.jsonl. Seeded changes used to validate the monitors: seeded/.",
    }
    # every property is claimed: the list stays present and empty
    json.dump(m, open(os.path.join(ROOT, "MANIFEST.json"), "w"), indent=1)
    print("checks:", [c["property_id"] for c in checks], "n/a:", len(na))

NA = {}

if __name__ == "__main__":
    main()
