#!/bin/bash
# seedtest.sh <patch.diff> <ID> [tier]  — apply a seeded change to /repo, run the check, undo.
P="$1"; ID="$2"; TIER="${3:-quick}"
cd /repo || exit 2
git diff --quiet || { echo "repo dirty"; exit 2; }
git apply "$P" || { echo "patch does not apply"; exit 2; }
cd /verif
export VERIF_EVIDENCE_DIR=/verif/work/seeded-evidence   # never overwrite the evidence of the unchanged tree
./check "$ID" "$TIER" 2>&1 | tail -6
RC=${PIPESTATUS[0]}
git -C /repo checkout -- .
echo "seedtest: exit=$RC"
