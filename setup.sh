#!/bin/bash
# Builds the harness binaries offline from files on disk (module cache + /repo working tree).
set -e
cd "$(dirname "$0")"
export GOFLAGS=-mod=mod GOPROXY=off GOSUMDB=off GOTOOLCHAIN=local
mkdir -p bin evidence replay work
cd harness
[ -f go.sum ] || cp /repo/go.sum . 2>/dev/null || true
go build -tags verif -o ../bin/verif ./cmd/verif
go build -tags verif -race -o ../bin/verif-race ./cmd/verif
echo "setup ok"
