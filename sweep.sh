#!/bin/bash
# sweep.sh <tier> <ids|all> <seed>...  — silence sweep of the checks on the unchanged tree (not part of MANIFEST).
# Meant for `vp run --with-repo -- ./sweep.sh quick all 2 3 4`: inside a vp snapshot the harness is pointed at the
# snapshot of /repo's HEAD ($VP_RUN_REPO), so seeded changes applied to /repo meanwhile do not disturb it.
cd "$(dirname "$0")"
TIER="$1"; IDS="$2"; shift 2
[ "$IDS" = all ] && IDS="C01 C02 C03 C04 C05 C06 C07 C08 C09 C10 C11 C12 C13 C14 C15 C16 C17 C18 C19 C20"
IDS="${IDS//,/ }"
if [ -n "${VP_RUN_REPO:-}" ]; then
  sed -i "s#=> /repo#=> $VP_RUN_REPO#" harness/go.mod
  export VERIF_REPO="$VP_RUN_REPO"
fi
bad=0
for seed in "$@"; do
  for id in $IDS; do
    t0=$(date +%s)
    VERIF_SEED=$seed ./check $id $TIER > sweep.$id.$seed.log 2>&1; rc=$?
    t1=$(date +%s)
    v=$(grep -c '^VIOLATION' sweep.$id.$seed.log)
    k=$(grep -c '^KNOWN-FINDING' sweep.$id.$seed.log)
    echo "SWEEP tier=$TIER seed=$seed id=$id exit=$rc violations=$v known=$k wall=$((t1-t0))s"
    if [ $rc -ne 0 ] || [ $v -ne 0 ]; then bad=1; grep '^VIOLATION' sweep.$id.$seed.log | head -5; tail -5 sweep.$id.$seed.log;
      mkdir -p /tmp/sweepfail; cp -r replay /tmp/sweepfail/replay.$id.$seed 2>/dev/null; fi
  done
done
echo "SWEEP done bad=$bad"
exit $bad
