#!/bin/bash
# seedpar.sh [-j N] [-t tier] [-c CHECK] <seeded-dir>...
# Runs seeded changes against their checks WITHOUT touching /repo: each change gets a scratch worktree of
# /repo's HEAD with the patch applied and a private copy of the harness whose go.mod points at it, so
# several can run side by side and /verif/evidence is never written.  Everything lives under
# /tmp/seedpar.<pid>/ and is removed afterwards.  Prints one line per change:
#   SEED <id> check=<C..> caught|MISSED exit=<rc> wall=<s>s
# (selftest.sh does the same through /repo itself, one at a time, as the brief prescribes.)
J=3; TIER=quick; FORCE=""
while getopts "j:t:c:" o; do case $o in j) J=$OPTARG;; t) TIER=$OPTARG;; c) FORCE=$OPTARG;; esac; done
shift $((OPTIND-1))
export GOFLAGS=-mod=mod GOPROXY=off GOSUMDB=off GOTOOLCHAIN=local
BASE=/tmp/seedpar.$$; mkdir -p $BASE
one() {
  d="$1"; id=$(basename "$d"); W=$BASE/$id; mkdir -p $W/verif/bin
  if [ -n "$FORCE" ]; then c=$FORCE; else
    c=$(python3 -c "import json;m=json.load(open('$d/meta.json'));print((m.get('caught_by_quick_check') or [m['breaks_property']])[0])" 2>/dev/null)
    [ -z "$c" ] && c=$(echo $id | cut -c1-3)
  fi
  git -C /repo worktree add -q --detach $W/repo HEAD 2>/dev/null || { echo "SEED $id worktree-failed"; return; }
  if ! git -C $W/repo apply "$d/patch.diff" 2>/dev/null; then echo "SEED $id check=$c patch-does-not-apply"; git -C /repo worktree remove --force $W/repo; rm -rf $W; return; fi
  cp -r /verif/harness $W/verif/harness; cp /verif/known_findings.jsonl $W/verif/
  sed -i "s#=> /repo#=> $W/repo#" $W/verif/harness/go.mod
  FLAGS="-tags verif"; case " C07 C08 " in *" $c "*) FLAGS="-tags verif -race";; esac
  t0=$(date +%s)
  if ! ( cd $W/verif/harness && go build $FLAGS -o ../bin/verif ./cmd/verif ) > $W/build.log 2>&1; then echo "SEED $id check=$c build-failed"; tail -3 $W/build.log
  else
    ( cd $W/verif && VERIF_ROOT=$W/verif VERIF_REPO=$W/repo VERIF_TIER=$TIER bin/verif run $c $TIER ) > $W/run.log 2>&1; rc=$?
    t1=$(date +%s)
    if grep -q "^VIOLATION property=$c" $W/run.log; then v=caught; else v=MISSED; fi
    echo "SEED $id check=$c $v exit=$rc wall=$((t1-t0))s $(grep -m1 '^VIOLATION' $W/run.log | cut -c1-120)"
    mkdir -p /verif/work/seedpar; cp $W/run.log /verif/work/seedpar/$id.$c.log
  fi
  git -C /repo worktree remove --force $W/repo >/dev/null 2>&1; rm -rf $W
}
for d in "$@"; do
  [ -d "$d" ] || d=/verif/seeded/$d
  while [ $(jobs -r | wc -l) -ge $J ]; do sleep 1; done
  one "$d" &
done
wait
rm -rf $BASE
